\* thorough: <= 2 types (incl. 65535), <= 3 items of 0..2 words, <= 2 data blocks; every
\* well-formed file, all corruptions of the structurally maximal ones.
SPECIFICATION Spec
CONSTANTS
  TypeSets <- TypeSetsT
  MaxItems = 3
  WordLens <- WordLensT
  DataLenSeqs <- DataLenSeqsT
  Versions <- VersionsAll
  Crudes <- CrudesQ
  Fixups = TRUE
  CorruptAll = FALSE
  Emit = TRUE
INVARIANT Laws
