\* thorough: <= 2 types (incl. 65535), <= 3 items of 0..2 words, <= 2 data blocks; every
\* well-formed file, all corruptions of the structurally maximal ones (document header variant
\* only: the crude variants x all families run in Exp_small and Exp_quick).
SPECIFICATION Spec
CONSTANTS
  TypeSets <- TypeSetsT
  MaxItems = 3
  WordLens <- WordLensT
  DataLenSeqs <- DataLenSeqsT
  Versions <- VersionsAll
  Crudes <- CrudesNone
  Fixups = TRUE
  CorruptAll = FALSE
  Emit = TRUE
INVARIANT Laws
