SPECIFICATION Spec
POSTCONDITION Post
