SPECIFICATION Spec
CONSTANTS
  TypeSets <- TypeSetsQ
  MaxItems = 2
  WordLens <- WordLensQ
  DataLenSeqs <- DataLenSeqsQ
  Versions <- VersionsAll
  Fixups = TRUE
  Emit = FALSE
INVARIANT Laws
