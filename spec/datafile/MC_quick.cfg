\* quick: every small well-formed file (<= 2 types, <= 2 items, <= 2 data blocks, both versions);
\* all corruptions of the structurally maximal ones. Laws checked + cases printed.
SPECIFICATION Spec
CONSTANTS
  TypeSets <- TypeSetsQ
  MaxItems = 2
  WordLens <- WordLensQ
  DataLenSeqs <- DataLenSeqsQ
  Versions <- VersionsAll
  Crudes <- CrudesQ
  Fixups = TRUE
  CorruptAll = FALSE
  Emit = FALSE
INVARIANT Laws
