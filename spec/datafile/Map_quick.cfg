\* quick: the three base profiles and every single-choice deviation (well-formed maps), datafile
\* version 4; all corruptions of the DDNet base with the full value set, of the two other bases
\* with the reduced one
SPECIFICATION Spec
CONSTANTS
  Versions <- V4
  Variants = TRUE
  SweepLevel = 1
  Pairs = FALSE
INVARIANT Emit
