SPECIFICATION Spec
CONSTANTS
  Versions <- V4
  Pairs <- NoPairs
INVARIANT Emit
