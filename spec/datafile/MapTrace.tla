------------------------------ MODULE MapTrace ------------------------------
(***************************************************************************)
(* Judgement of the recorded map-reader calls (one event per generated     *)
(* map-shaped file).  The map layer has no specification beyond index      *)
(* validity, so the alphabet of a call is {ok(indices), err}: an event     *)
(* containing a panic or hang matches no action, and every index the       *)
(* reader hands out must lie inside what it refers to:                     *)
(*   data      0 <= v < num_data                                           *)
(*   image / envelope / sound   inside the item range of that type         *)
(*   layer_lo, layer_hi         layer range of a group inside the layer    *)
(*                              items, lo <= hi                            *)
(* (ranges and num_data are those reported by the datafile reader, whose   *)
(* answers are judged by Datafile.tla on the same generated files).        *)
(***************************************************************************)
EXTENDS Integers, Sequences, TLC, Json, IOUtils

Rec == ndJsonDeserialize(IOEnv.TRACE)

VARIABLE i

InRange(e, x) ==
  CASE x.k = "data" -> 0 <= x.v /\ x.v < e.nd
    [] x.k = "image" -> e.rng.image[1] <= x.v /\ x.v < e.rng.image[2]
    [] x.k = "envelope" -> e.rng.envelope[1] <= x.v /\ x.v < e.rng.envelope[2]
    [] x.k = "sound" -> e.rng.sound[1] <= x.v /\ x.v < e.rng.sound[2]
    [] x.k \in {"layer_lo", "layer_hi"} -> e.rng.layer[1] <= x.v /\ x.v <= e.rng.layer[2]
    [] OTHER -> FALSE

CallOK(e, c) ==
  /\ c.out \in {"ok", "err"}
  /\ \A n \in 1..Len(c.idx) : InRange(e, c.idx[n])
  /\ \A n \in 1..(Len(c.idx) - 1) :
        (c.idx[n].k = "layer_lo" /\ c.idx[n + 1].k = "layer_hi") => c.idx[n].v <= c.idx[n + 1].v

\* every generated file is a well-formed datafile: opening it must succeed
Accept(e) ==
  /\ e.open = "ok"
  /\ \A n \in 1..Len(e.calls) : CallOK(e, e.calls[n])

Init == i = 0
Next == /\ i < Len(Rec)
        /\ Accept(Rec[i + 1])
        /\ i' = i + 1
Spec == Init /\ [][Next]_i

Post ==
  LET d == TLCGet("stats").diameter IN
  IF d - 1 = Len(Rec) THEN TRUE
  ELSE /\ PrintT(<< "TRACE REJECTED at event", d, "of", Len(Rec) >>)
       /\ PrintT(<< "REJECTED-EVENT", ToJson([n |-> d, sw |-> Rec[d].sw, v |-> Rec[d].v,
                                                open |-> Rec[d].open]) >>)
       /\ TRUE
=============================================================================
