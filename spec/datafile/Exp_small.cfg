\* small: as quick, but every base is corrupted
\* all corruptions of the structurally maximal ones. Laws checked + cases printed.
SPECIFICATION Spec
CONSTANTS
  TypeSets <- TypeSetsQ
  MaxItems = 2
  WordLens <- WordLensQ
  DataLenSeqs <- DataLenSeqsQ
  Versions <- VersionsAll
  Crudes <- CrudesAll
  Fixups = TRUE
  CorruptAll = TRUE
  Emit = TRUE
INVARIANT Laws
