\* every history of at most 3 add_item / add_data calls over 2 types x 3 ids x 2 word lists, 2 blocks
SPECIFICATION Spec
CONSTANTS
  TypeIds <- TypeIdsQ
  Ids <- IdsQ
  WordSeqs <- WordSeqsQ
  Blocks <- BlocksQ
  MaxLen = 3
INVARIANT Emit
