----------------------------- MODULE DatafileMC -----------------------------
(***************************************************************************)
(* Case enumeration for direction A (spec -> implementation).              *)
(*                                                                         *)
(* Initial states: every small well-formed datafile (abstract content x    *)
(* version) laid out by Datafile!Layout.  One step: one single-field       *)
(* corruption of the laid-out file with a boundary value (optionally with  *)
(* size/swaplen re-derived so that the header stays consistent and the     *)
(* deeper checks are reached).  In every state the invariant evaluates the *)
(* format laws and prints the case (field values, expected verdict and     *)
(* expected contents) for the harness.                                     *)
(***************************************************************************)
EXTENDS Datafile, Json

CONSTANTS TypeSets,      \* set of ascending sequences of type ids
          MaxItems,      \* total number of items
          WordLens,      \* set of item lengths (in words)
          DataLenSeqs,   \* set of sequences of data block lengths
          Versions,      \* subset of {3, 4}
          Crudes,        \* subset of {"none", "size", "both"}: the historic ("crude") header variant
          Fixups,        \* BOOLEAN: also generate consistent-header corruptions
          CorruptAll,    \* BOOLEAN: corrupt every base (FALSE: only the structurally maximal ones)
          Emit           \* BOOLEAN: print the cases

VARIABLES v, cr, df, c
vars == << v, cr, df, c >>

NoCor == [f |-> "none", i |-> 0, val |-> 0, fix |-> FALSE]

----------------------------------------------------------------------------
(* small well-formed files *)

WordPattern == << MINI, -1, MAXI, 0, 1, 305419896, -2023406815 >>
WordFor(k, j) == WordPattern[((3 * k + j) % 7) + 1]
ByteFor(k, j) == (k * 37 + j * 11 + 200) % 256

SumFn(f, n) == FoldLeft(LAMBDA acc, i : acc + f[i], 0, [i \in 1..n |-> i])

\* the ids of the items of the i-th type: 0,1,.. ; the second type ends at 65535
IdFor(i, j, cnt) == IF i = 2 THEN 65535 - (cnt - j) ELSE j - 1

MkDf(ts, cnt, ls, dl) ==
  LET heads == Concat([i \in 1..Len(ts) |->
                             [j \in 1..cnt[i] |-> [t |-> ts[i], id |-> IdFor(i, j, cnt[i])]]])
  IN [ types |-> ts,
       items |-> Strict([k \in 1..Len(heads) |->
                    [t |-> heads[k].t, id |-> heads[k].id, w |-> Strict([j \in 1..ls[k] |-> WordFor(k, j)])]]),
       data |-> Strict([k \in 1..Len(dl) |-> Strict([j \in 1..dl[k] |-> ByteFor(k, j)])]) ]

CountsFor(ts) == {cnt \in [1..Len(ts) -> 0..MaxItems] : SumFn(cnt, Len(ts)) <= MaxItems}

Bases ==
  UNION { UNION { { MkDf(ts, cnt, ls, dl) :
                      ls \in [1..SumFn(cnt, Len(ts)) -> WordLens], dl \in DataLenSeqs }
                  : cnt \in CountsFor(ts) }
          : ts \in TypeSets }

----------------------------------------------------------------------------
(* single-field corruptions with boundary values; plus two consistent        *)
(* multi-field families that reach the deeper checks: "fix" (a count is      *)
(* changed and size/swaplen are re-derived) and "it_shift" (an item claims   *)
(* d more bytes, the following offsets move by d, the last item gives the    *)
(* bytes back: item boundaries that are not word aligned)                    *)

Generic(L) ==
  {0, 1, -1, 2, 3, 4, 8, MINI, MINI + 1, MAXI, MAXI - 1, 65535, 65536}
    \cup {L.nit, L.nit + 1, L.ni, L.ni + 1, L.nd, L.nd + 1, 2 * L.nd,
          L.si, L.si + 1, L.si + 4, L.sd, L.sd + 1}
Near(x) == {x - 4, x - 2, x - 1, x + 1, x + 2, x + 4}
Vals(L, x) == (Generic(L) \cup Near(x)) \ {x}
U16Vals(x) == ({0, 1, 2, 5, 32767, 32768, 65534, 65535} \cup (Near(x) \cap 0..65535)) \ {x}

HdrCount == {"nit", "ni", "nd", "si", "sd"}

Cor(f, i, x) == [f |-> f, i |-> i, val |-> x, fix |-> FALSE]
CorFix(f, x) == [f |-> f, i |-> 0, val |-> x, fix |-> TRUE]

Corruptions(L) ==
  { Cor("magic", 0, x) : x \in {MagicATAD, 0, -1, MINI, MagicDATA + 1, MagicDATA + 16777216} }
  \cup { Cor("version", 0, x) : x \in Vals(L, L.version) }
  \cup { Cor("size", 0, x) : x \in Vals(L, L.size) \cup ({L.size - 4 * L.nd, L.size + 4 * L.nd} \ {L.size}) }
  \cup { Cor("swaplen", 0, x) : x \in Vals(L, L.swaplen) \cup ({L.swaplen - 4 * L.nd} \ {L.swaplen}) }
  \cup UNION { { Cor(f, 0, x) : x \in Vals(L, L[f]) } : f \in HdrCount }
  \cup (IF Fixups
        THEN UNION { { CorFix(f, x) : x \in ({0, 1, 2, 3, 4, 8, 12, 65536, 100000000, 178956960, MAXI - 3, MAXI}
                                               \cup {y \in Near(L[f]) : y >= 0}) \ {L[f]} }
                     : f \in HdrCount }
        ELSE {})
  \cup UNION { { Cor("t_id", i, x) : x \in Vals(L, L.types[i].type_id) } : i \in 1..Len(L.types) }
  \cup UNION { { Cor("t_start", i, x) : x \in Vals(L, L.types[i].start) } : i \in 1..Len(L.types) }
  \cup UNION { { Cor("t_num", i, x) : x \in Vals(L, L.types[i].num) } : i \in 1..Len(L.types) }
  \cup UNION { { Cor("ioff", i, x) : x \in Vals(L, L.ioffs[i]) } : i \in 1..Len(L.ioffs) }
  \cup UNION { { Cor("doff", i, x) : x \in Vals(L, L.doffs[i]) } : i \in 1..Len(L.doffs) }
  \cup UNION { { Cor("dsize", i, x) : x \in Vals(L, L.dsizes[i]) } : i \in 1..Len(L.dsizes) }
  \cup UNION { { Cor("it_tid", i, x) : x \in U16Vals(L.items[i].tid) } : i \in 1..Len(L.items) }
  \cup UNION { { Cor("it_id", i, x) : x \in U16Vals(L.items[i].id) } : i \in 1..Len(L.items) }
  \cup UNION { { Cor("it_size", i, x) : x \in Vals(L, L.items[i].size) } : i \in 1..Len(L.items) }
  \cup UNION { { Cor("it_shift", i, d) : d \in {-4, -2, -1, 1, 2, 3, 4} } : i \in 1..(Len(L.items) - 1) }
  \cup UNION { { Cor("it_w", i, x) : x \in {0, MINI} \ {L.items[i].w[1]} }
               : i \in {k \in 1..Len(L.items) : Len(L.items[k].w) > 0} }
  \cup UNION { { Cor("dbyte", i, x) : x \in {0, 255} \ {L.data[i][Len(L.data[i])]} }
               : i \in {k \in 1..Len(L.data) : Len(L.data[k]) > 0} }

\* The reader distinguishes three variants: V3, V4 and V4Crude (format.rs check_size_and_swaplen:
\* the `size` field of some historic writers does not count the data-size table; `swaplen` may
\* independently be of either kind).  Every base is laid out in each variant of Crudes and every
\* corruption family runs on each of them.  A crude file is accepted by the reader but is not
\* well-formed by the document.
Crudify(L, k) ==
  CASE k = "none" -> L
    [] k = "size" -> [L EXCEPT !.size = @ - 4 * L.nd]
    [] k = "both" -> [L EXCEPT !.size = @ - 4 * L.nd, !.swaplen = @ - 4 * L.nd]

BaseLayout == Crudify(Layout(v, df), cr)

\* size and swaplen re-derived from the (corrupted) counts, as the document defines them (and in
\* the crude variant of the base)
Refix(L) ==
  LET total == TotalSize(L.version, L.nit, L.ni, L.nd, L.si, L.sd) IN
  IF total < 0 THEN L
  ELSE IF L.nd >= 0 /\ L.nd <= total \div 4
       THEN Crudify([L EXCEPT !.size = total - 16, !.swaplen = total - 16 - L.sd], cr)
       ELSE [L EXCEPT !.size = total - 16, !.swaplen = total - 16 - L.sd]

Apply(L, x) ==
  LET M ==
    CASE x.f = "none" -> L
      [] x.f \in {"magic", "version", "size", "swaplen", "nit", "ni", "nd", "si", "sd"} ->
           [L EXCEPT ![x.f] = x.val]
      [] x.f = "t_id" -> [L EXCEPT !.types[x.i].type_id = x.val]
      [] x.f = "t_start" -> [L EXCEPT !.types[x.i].start = x.val]
      [] x.f = "t_num" -> [L EXCEPT !.types[x.i].num = x.val]
      [] x.f = "ioff" -> [L EXCEPT !.ioffs[x.i] = x.val]
      [] x.f = "doff" -> [L EXCEPT !.doffs[x.i] = x.val]
      [] x.f = "dsize" -> [L EXCEPT !.dsizes[x.i] = x.val]
      [] x.f = "it_tid" -> [L EXCEPT !.items[x.i].tid = x.val]
      [] x.f = "it_id" -> [L EXCEPT !.items[x.i].id = x.val]
      [] x.f = "it_size" -> [L EXCEPT !.items[x.i].size = x.val]
      [] x.f = "it_shift" ->      \* item i claims val more bytes; later offsets move; the last item gives them back
           LET n == Len(L.items) IN
           [L EXCEPT !.items = [k \in 1..n |->
                                  IF k = x.i THEN [L.items[k] EXCEPT !.size = @ + x.val]
                                  ELSE IF k = n THEN [L.items[k] EXCEPT !.size = @ - x.val]
                                  ELSE L.items[k]],
                     !.ioffs = [k \in 1..n |-> IF k > x.i THEN L.ioffs[k] + x.val ELSE L.ioffs[k]]]
      [] x.f = "it_w" -> [L EXCEPT !.items[x.i].w[1] = x.val]
      [] x.f = "dbyte" -> [L EXCEPT !.data[x.i][Len(L.data[x.i])] = x.val]
  IN IF x.fix THEN Refix(M) ELSE M

----------------------------------------------------------------------------
Init == /\ v \in Versions
        /\ cr \in Crudes
        /\ df \in Bases
        /\ c = NoCor
        /\ (cr # "none" => Len(df.data) > 0)      \* without data blocks the variants coincide

\* a base with the maximal number of items and data blocks of the configuration
MaxData == CHOOSE n \in {Len(dl) : dl \in DataLenSeqs} : \A dl \in DataLenSeqs : Len(dl) <= n
Rich == Len(df.items) = MaxItems /\ Len(df.data) = MaxData

Next == /\ c = NoCor
        /\ CorruptAll \/ Rich
        /\ c' \in Corruptions(BaseLayout)
        /\ UNCHANGED << v, cr, df >>

Spec == Init /\ [][Next]_vars

----------------------------------------------------------------------------
(* laws + export, evaluated in every state *)

Probes(R) ==
  [k \in 1..Len(R.items) |-> << R.items[k].t, R.items[k].id >>]
    \o [i \in 1..Len(R.types) |-> << R.types[i], 7 >>]
    \o << << 9, 0 >>, << 65535, 65535 >> >>

Expected(R) ==
  LET pr == Probes(R) IN
  [ open |-> R.open, ver |-> R.ver, types |-> R.types, ranges |-> R.ranges, items |-> R.items, data |-> R.data,
    by_type |-> [i \in 1..Len(R.types) |-> ItemsOfType(R, R.types[i])],
    absent |-> ItemsOfType(R, 9),
    probes |-> pr,
    find |-> [k \in 1..Len(pr) |-> Find(R, pr[k][1], pr[k][2])] ]

VerdictTypeOK(R) ==
  /\ R.open \in OpenKinds
  /\ \A k \in 1..Len(R.data) : R.data[k].r \in DataKinds

RoundTrip(R, doc) ==
  /\ R.open = "ok"
  /\ R.ver = (IF v = 3 THEN "V3" ELSE "V4")
  /\ R.types = df.types
  /\ R.items = df.items
  /\ Len(R.data) = Len(df.data)
  /\ \A k \in 1..Len(df.data) : R.data[k] = [r |-> "ok", b |-> df.data[k]]
  /\ doc

\* an uncorrupted base in any variant is accepted with its content; with data blocks the crude
\* size field of a version 4 file makes it V4Crude
CrudeAccepted(R) ==
  /\ R.open = "ok"
  /\ R.ver = (IF v = 3 THEN "V3" ELSE IF cr = "none" \/ Len(df.data) = 0 THEN "V4" ELSE "V4Crude")
  /\ R.items = df.items
  /\ \A k \in 1..Len(df.data) : R.data[k] = [r |-> "ok", b |-> df.data[k]]

DocImpliesAccept(R, doc) ==
  doc => /\ R.open = "ok"
         /\ \A k \in 1..Len(R.data) : R.data[k].r = "ok"

Laws ==
  LET L == Apply(BaseLayout, c)
      wf == c = NoCor /\ cr = "none"
      B == FileBytes(L)
      R == Read(B, << >>)
      doc == ValidDoc(B, << >>)
  IN /\ VerdictTypeOK(R)
     /\ (wf => RoundTrip(R, doc))
     /\ (c = NoCor => CrudeAccepted(R))
     /\ DocImpliesAccept(R, doc)
     /\ (Emit => PrintT(<< "C", ToJson([ v |-> v, wf |-> wf, cr |-> cr, doc |-> doc, c |-> c, L |-> L,
                                           pay |-> df.data, n |-> Len(B), sum |-> Adler32(B),
                                           exp |-> Expected(R) ]) >>))
=============================================================================
