---------------------------- MODULE DatafileCases ----------------------------
(* constant sets for the configurations of DatafileMC (cfg files cannot      *)
(* contain sequence literals)                                                *)
EXTENDS DatafileMC

VersionsAll == {3, 4}
CrudesAll == {"none", "size", "both"}
CrudesQ == {"none", "size"}
CrudesNone == {"none"}

\* quick: <= 2 types, <= 2 items of 0..1 words, <= 2 data blocks
TypeSetsQ == { << >>, << 0 >>, << 0, 5 >> }
WordLensQ == {0, 1}
DataLenSeqsQ == { << >>, << 3 >>, << 0, 2 >> }

\* thorough: <= 2 types, <= 3 items of 0..2 words, <= 2 data blocks of 0..5 bytes
TypeSetsT == { << >>, << 0 >>, << 65535 >>, << 0, 5 >>, << 5, 65535 >> }
WordLensT == {0, 1, 2}
DataLenSeqsT == { << >>, << 0 >>, << 5 >>, << 0, 0 >>, << 1, 5 >>, << 5, 0 >> }
=============================================================================
