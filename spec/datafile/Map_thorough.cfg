SPECIFICATION Spec
CONSTANTS
  Versions <- V34
  Pairs <- PairsT
INVARIANT Emit
