\* thorough: both datafile versions, full value set on every base profile, pair sweeps
SPECIFICATION Spec
CONSTANTS
  Versions <- V34
  Variants = TRUE
  SweepLevel = 2
  Pairs = TRUE
INVARIANT Emit
