-------------------------------- MODULE Map --------------------------------
(***************************************************************************)
(* The Teeworlds / DDNet map format of /repo/doc/map.md on top of the      *)
(* datafile format (Datafile.tla), in both directions:                     *)
(*                                                                         *)
(*   reader  the meaning of every accessor of map::Reader and of every     *)
(*           item struct of map::format as an operator on the datafile     *)
(*           content R (the accepting verdict of Datafile!Read: types,     *)
(*           ranges, items, data):  MVersion, MInfo, MImage, MGroup,       *)
(*           MLayer (tilemap incl. game/tele/speedup/front/switch/tune and *)
(*           the race/DDNet extension fields, quads, sounds), MGameLayers, *)
(*           MString, MSettings, MImageName, MTilesRaw, MLayerTiles;       *)
(*           Part (the layout rule "an extension is present iff the item's *)
(*           version says so, and then it must be complete") with the      *)
(*           table Fmt of all item parts; envelope points.                 *)
(*           Every operator is total: {ok(value), err}.                    *)
(*   writer  a typed abstract map T (records with the document's field     *)
(*           names, item versions as fields) -> MapDf(T), the abstract     *)
(*           datafile (items as words, data blocks), and Stored(T), what   *)
(*           every accessor must return for it, stated directly on the     *)
(*           typed records (independent of the words).                     *)
(*                                                                         *)
(* Law (checked by TLC in MapGen): for every well-formed typed map T,      *)
(*   Calls(RofDf(MapDf(T))) agrees with Stored(T) on every accessor        *)
(* ("the reader returns exactly what was stored").                         *)
(*                                                                         *)
(* Values are projected to sequences of integers (documented at each       *)
(* operator); None = -1 (all indices are non-negative).                    *)
(***************************************************************************)
EXTENDS Datafile

None == -1
Bad == -2

Ok(v) == [out |-> "ok", val |-> v]
Err == [out |-> "err", val |-> << >>]

Zeros(n) == [j \in 1..n |-> 0]
Pad(s, n) == [j \in 1..n |-> IF j <= Len(s) THEN s[j] ELSE 0]

----------------------------------------------------------------------------
(* I32String: the i32s as big-endian bytes, 128 subtracted (wrapping) from  *)
(* every byte, the last byte forced to 0                                    *)

NameBytes(ws) ==
  LET n == 4 * Len(ws) IN
  Strict([j \in 1..n |-> IF j = n THEN 0
                          ELSE (ByteOfI32(ws[(j - 1) \div 4 + 1], 3 - ((j - 1) % 4)) + 128) % 256])

\* writer: a byte string of at most 4n-1 bytes as n i32s
NameWords(s, n) ==
  LET b == [j \in 1..(4 * n) |-> ((IF j <= Len(s) THEN s[j] ELSE 0) + 128) % 256] IN
  Strict([k \in 1..n |-> I32OfBytes(b[4 * k], b[4 * k - 1], b[4 * k - 2], b[4 * k - 3])])

----------------------------------------------------------------------------
(* The layout rule of the item structs.  A part (ver, off, len, ign) of an  *)
(* item with words w: unless the part ignores the version, an empty item is *)
(* too short and an item whose version word is below `ver` does not have    *)
(* the part; otherwise the item must contain off+len words.                 *)

NoPart(r) == [r |-> r, f |-> << >>, rest |-> << >>]

Part(w, ver, off, len, ign) ==
  IF ~ign /\ Len(w) = 0 THEN NoPart("short")
  ELSE IF ~ign /\ w[1] < ver THEN NoPart("none")
  ELSE IF Len(w) < off + len THEN NoPart("short")
  ELSE [r |-> "some", f |-> SubSeq(w, off + 1, off + len), rest |-> SubSeq(w, off + len + 1, Len(w))]

\* name |-> << item type, ver, off, len, ign >>; item type 50 = applied to the words of a layer
\* item behind the common part (LayerV1)
Fmt == [
  CommonV0           |-> << 0, 0, 0, 1, TRUE >>,
  VersionV1          |-> << 0, 1, 1, 0, FALSE >>,
  InfoV1             |-> << 1, 1, 1, 4, FALSE >>,
  InfoV2             |-> << 1, 2, 5, 1, TRUE >>,       \* settings: DDNet extension without version change
  InfoV1ExtraRace    |-> << 1, 1, 5, 1, FALSE >>,
  ImageV1            |-> << 2, 1, 1, 5, FALSE >>,
  ImageV2            |-> << 2, 2, 6, 1, FALSE >>,
  EnvelopeV1Legacy   |-> << 3, 1, 1, 4, FALSE >>,
  EnvelopeV1         |-> << 3, 1, 1, 11, FALSE >>,
  EnvelopeV2         |-> << 3, 2, 12, 1, FALSE >>,
  GroupV1            |-> << 4, 1, 1, 6, FALSE >>,
  GroupV2            |-> << 4, 2, 7, 5, FALSE >>,
  GroupV3            |-> << 4, 3, 12, 3, FALSE >>,
  LayerV1            |-> << 5, 1, 1, 2, TRUE >>,       \* the layer's own version word is not used
  DdraceSoundV1      |-> << 7, 1, 1, 4, FALSE >>,
  LayerV1CommonV0    |-> << 50, 0, 0, 1, TRUE >>,
  LayerV1TilemapV1   |-> << 50, 1, 1, 0, FALSE >>,
  LayerV1TilemapV2   |-> << 50, 2, 1, 11, FALSE >>,
  LayerV1TilemapV3   |-> << 50, 3, 12, 3, FALSE >>,
  LayerV1QuadsV1     |-> << 50, 1, 1, 3, FALSE >>,
  LayerV1QuadsV2     |-> << 50, 2, 4, 3, FALSE >>,
  LayerV1DdraceSoundsV1 |-> << 50, 1, 1, 6, FALSE >>,
  LayerV1DdraceSoundsV2 |-> << 50, 2, 7, 0, FALSE >> ]

PartOf(name, w) == LET f == Fmt[name] IN Part(w, f[2], f[3], f[4], f[5])

\* the race/DDNet extension of tilemap layers: one data index per physics layer kind behind the
\* (version dependent) end of the tilemap part; `rest` = words of the layer behind LayerV1
ExtraSlot(flags) ==
  CASE flags = 2 -> 0 [] flags = 4 -> 1 [] flags = 8 -> 2 [] flags = 16 -> 3 [] flags = 32 -> 4 [] OTHER -> -1

ExtraRace(rest, version, flags) ==
  LET base == IF version = 2 THEN 12 ELSE IF version = 3 THEN 15 ELSE -1
      slot == ExtraSlot(flags)
  IN IF base < 0 \/ slot < 0 THEN NoPart("none")
     ELSE IF Len(rest) <= base + slot THEN NoPart("none")
     ELSE [r |-> "some", f |-> << rest[base + slot + 1] >>, rest |-> << >>]

\* envelope points: all points of all envelopes in one item; 6 words per point up to envelope
\* version 2, 22 words (bezier) for envelope version 3
Envpoints(w, pv, ev) ==
  LET size == IF pv = 1 THEN 6 ELSE 22
      vs == IF pv = 1 THEN {1, 2} ELSE {3}
  IN IF ev \notin vs \/ Len(w) % size # 0 THEN NoPart("none")
     ELSE [r |-> "some", f |-> << Len(w) \div size >> \o w, rest |-> << >>]

----------------------------------------------------------------------------
(* the datafile content as the map reader sees it *)

\* R of a (well-formed) abstract datafile, without going through the bytes
RofDf(df) ==
  LET n == Len(df.types)
      Before(t) == Cardinality({k \in 1..Len(df.items) : df.items[k].t < t})
      Of(t) == Cardinality({k \in 1..Len(df.items) : df.items[k].t = t})
  IN [ open |-> "ok", ver |-> "-", types |-> df.types,
       ranges |-> Strict([i \in 1..n |-> [start |-> Before(df.types[i]), num |-> Of(df.types[i])]]),
       items |-> df.items,
       data |-> Strict([k \in 1..Len(df.data) |-> [r |-> "ok", b |-> df.data[k]]]) ]

\* half-open range of absolute item indices (0-based) of an item type; 0..0 when absent
Rng(R, t) ==
  LET hits == {i \in 1..Len(R.types) : R.types[i] = t} IN
  IF hits = {} THEN << 0, 0 >>
  ELSE LET i == CHOOSE x \in hits : \A y \in hits : x <= y IN
       << R.ranges[i].start, R.ranges[i].start + R.ranges[i].num >>

ND(R) == Len(R.data)
ItemW(R, k) == R.items[k + 1].w          \* k: absolute 0-based index

\* "&x" / "*x": an index relative to a range;  "opt": -1 = unused
Idx(x, lo, hi) == IF x >= 0 /\ x < hi - lo THEN lo + x ELSE Bad
OptIdx(x, lo, hi) == IF x = -1 THEN None ELSE Idx(x, lo, hi)

----------------------------------------------------------------------------
(* accessors on items *)

\* version(): << version >>
MVersion(R) ==
  LET f == Find(R, 0, 0) IN
  IF ~f.found THEN Err ELSE IF Len(f.w) = 0 THEN Err ELSE Ok(<< f.w[1] >>)

MCheckVersion(R) ==
  LET v == MVersion(R) IN IF v.out = "ok" THEN (IF v.val[1] = 1 THEN Ok(<< >>) ELSE Err) ELSE Err

\* info(): << author, version, credits, license, settings >>  (data indices or None)
MInfo(R) ==
  LET f == Find(R, 1, 0) IN
  IF ~f.found THEN Err ELSE
  LET v1 == PartOf("InfoV1", f.w)
      v2 == PartOf("InfoV2", f.w)
      nd == ND(R)
  IN IF v1.r # "some" THEN Err ELSE
     LET a == OptIdx(v1.f[1], 0, nd) b == OptIdx(v1.f[2], 0, nd)
         c == OptIdx(v1.f[3], 0, nd) d == OptIdx(v1.f[4], 0, nd)
         s == IF v2.r = "some" THEN OptIdx(v2.f[1], 0, nd) ELSE None
     IN IF Bad \in {a, b, c, d, s} THEN Err ELSE Ok(<< a, b, c, d, s >>)

\* image(k): << width, height, name, data or None >>
MImage(R, k) ==
  LET v1 == PartOf("ImageV1", ItemW(R, k)) IN
  IF v1.r # "some" THEN Err ELSE
  LET f == v1.f
      nd == ND(R)
      data == IF f[3] # 0 THEN None ELSE Idx(f[5], 0, nd)
      name == Idx(f[4], 0, nd)
  IN IF data = Bad \/ name = Bad \/ f[1] < 0 \/ f[2] < 0 THEN Err
     ELSE Ok(<< f[1], f[2], name, data >>)

\* group(k): << offset_x, offset_y, parallax_x, parallax_y, layers from, layers to (absolute,
\*              half-open), clipping 0/1, clip x, y, w, h >> \o 12 name bytes
MGroup(R, k) ==
  LET w == ItemW(R, k)
      v1 == PartOf("GroupV1", w) v2 == PartOf("GroupV2", w) v3 == PartOf("GroupV3", w)
      lr == Rng(R, 5)
      n == lr[2] - lr[1]
  IN IF v1.r # "some" \/ v2.r = "short" \/ v3.r = "short" THEN Err ELSE
     LET f == v1.f start == f[5] num == f[6] IN
     IF start < 0 \/ start > n THEN Err
     ELSE IF num < 0 \/ num > n - start THEN Err
     ELSE LET lo == lr[1] + start
              clip == IF v2.r = "some" /\ v2.f[1] # 0
                      THEN << 1, v2.f[2], v2.f[3], v2.f[4], v2.f[5] >> ELSE << 0, 0, 0, 0, 0 >>
              name == IF v3.r = "some" THEN NameBytes(v3.f) ELSE Zeros(12)
          IN Ok(<< f[1], f[2], f[3], f[4], lo, lo + num >> \o clip \o name)

\* tilemap part of layer(k): << 2, width, height, flags >> \o body \o 12 name bytes
\*   flags 0 (tiles):  body = << r, g, b, a, colour envelope or None, its offset (0 if None), image or None, data >>
\*   flags 1 (game):   body = << data >>
\*   tele 2, speedup 4, front 8, switch 16, tune 32:  body = << own data, data (the zeroed Tile array) >>
MTilemap(R, rest) ==
  LET v0 == PartOf("LayerV1CommonV0", rest)
      v2 == PartOf("LayerV1TilemapV2", rest)
      v3 == PartOf("LayerV1TilemapV3", rest)
  IN IF v0.r # "some" \/ v2.r # "some" \/ v3.r = "short" THEN Err ELSE
     LET f == v2.f
         width == f[1] height == f[2] flags == f[3]
         nd == ND(R)
         er == Rng(R, 3) ir == Rng(R, 2)
         colorOK == \A j \in 4..7 : f[j] >= 0 /\ f[j] <= 255
         env == OptIdx(f[8], er[1], er[2])
         image == OptIdx(f[10], ir[1], ir[2])
         data == Idx(f[11], 0, nd)
         x == ExtraRace(rest, v0.f[1], flags)
         extra == IF x.r = "some" THEN Idx(x.f[1], 0, nd) ELSE Bad
         name == IF v3.r = "some" THEN NameBytes(v3.f) ELSE Zeros(12)
     IN IF ~colorOK \/ env = Bad \/ image = Bad \/ data = Bad THEN Err
        ELSE IF flags \notin {0, 1, 2, 4, 8, 16, 32} THEN Err
        ELSE IF flags \notin {0, 1} /\ extra = Bad THEN Err
        ELSE IF width <= 0 \/ height <= 0 THEN Err
        ELSE Ok(<< 2, width, height, flags >>
                \o (IF flags = 0 THEN << f[4], f[5], f[6], f[7], env, IF env = None THEN 0 ELSE f[9], image, data >>
                    ELSE IF flags = 1 THEN << data >> ELSE << extra, data >>)
                \o name)

\* quads part: << 3, num_quads, data, image or None >> \o name
MQuads(R, rest) ==
  LET v1 == PartOf("LayerV1QuadsV1", rest) v2 == PartOf("LayerV1QuadsV2", rest) ir == Rng(R, 2) IN
  IF v1.r # "some" \/ v2.r = "short" THEN Err ELSE
  LET data == Idx(v1.f[2], 0, ND(R))
      image == OptIdx(v1.f[3], ir[1], ir[2])
      name == IF v2.r = "some" THEN NameBytes(v2.f) ELSE Zeros(12)
  IN IF v1.f[1] < 0 \/ data = Bad \/ image = Bad THEN Err ELSE Ok(<< 3, v1.f[1], data, image >> \o name)

\* sounds part: << 10, num_sources, data, sound or None, legacy 0/1 >> \o name
MSounds(R, rest, legacy) ==
  LET v1 == PartOf("LayerV1DdraceSoundsV1", rest) v2 == PartOf("LayerV1DdraceSoundsV2", rest) sr == Rng(R, 7) IN
  IF v1.r # "some" \/ (~legacy /\ v2.r # "some") THEN Err ELSE
  LET data == Idx(v1.f[2], 0, ND(R))
      sound == OptIdx(v1.f[3], sr[1], sr[2])
  IN IF v1.f[1] < 0 \/ data = Bad \/ sound = Bad THEN Err
     ELSE Ok(<< 10, v1.f[1], data, sound, IF legacy THEN 1 ELSE 0 >> \o NameBytes(SubSeq(v1.f, 4, 6)))

\* layer(k): << detail 0/1 >> \o the part of its kind
MLayer(R, k) ==
  LET c == PartOf("LayerV1", ItemW(R, k)) IN
  IF c.r # "some" THEN Err ELSE
  LET type == c.f[1] flags == c.f[2] IN
  IF flags \notin {0, 1} THEN Err ELSE
  LET body == CASE type = 2 -> MTilemap(R, c.rest)
                [] type = 3 -> MQuads(R, c.rest)
                [] type = 10 -> MSounds(R, c.rest, FALSE)
                [] type = 9 -> MSounds(R, c.rest, TRUE)
                [] OTHER -> Err
  IN IF body.out = "err" THEN Err ELSE Ok(<< flags >> \o body.val)

\* positions in the value of a tilemap layer
LKind(l) == l.val[2]
LWidth(l) == l.val[3]
LHeight(l) == l.val[4]
LFlags(l) == l.val[5]
LFirst(l) == l.val[6]        \* game: data; tele .. tune: own data; tiles: red
LTilesData(l) == IF LFlags(l) = 0 THEN l.val[13] ELSE LFirst(l)

PhysKinds == {1, 2, 4, 8, 16, 32}

\* game_layers(): value of the game group \o << width, height, game, teleport, speedup, front,
\* switch, tune >> (data indices or None).  Every group and every layer of every group must be
\* readable, every physics layer kind occurs at most once, all of them in one group and with
\* the same dimensions, and there is a game layer.
MGameLayers(R) ==
  LET gr == Rng(R, 4)
      Fail(a) == [a EXCEPT !.err = TRUE]
      Visit(a, gi, g, li) ==
        IF a.err THEN a ELSE
        LET l == MLayer(R, li) IN
        IF l.out = "err" THEN Fail(a)
        ELSE IF LKind(l) # 2 THEN a
        ELSE IF LFlags(l) = 0 THEN a
        ELSE IF a.phys[LFlags(l)] # None THEN Fail(a)
        ELSE IF a.g # None /\ a.g # gi THEN Fail(a)
        ELSE IF a.g # None /\ (a.w # LWidth(l) \/ a.h # LHeight(l)) THEN Fail(a)
        ELSE [a EXCEPT !.phys[LFlags(l)] = LFirst(l), !.g = gi, !.gval = g.val,
                       !.w = LWidth(l), !.h = LHeight(l)]
      Step(a, gi) ==
        IF a.err THEN a ELSE
        LET g == MGroup(R, gi) IN
        IF g.out = "err" THEN Fail(a)
        ELSE FoldLeft(LAMBDA b, li : Visit(b, gi, g, li), a,
                      [j \in 1..(g.val[6] - g.val[5]) |-> g.val[5] + j - 1])
      r == FoldLeft(Step, [err |-> FALSE, phys |-> [t \in PhysKinds |-> None], g |-> None,
                           gval |-> << >>, w |-> 0, h |-> 0],
                    [j \in 1..(gr[2] - gr[1]) |-> gr[1] + j - 1])
  IN IF r.err \/ r.phys[1] = None THEN Err
     ELSE Ok(r.gval \o << r.w, r.h, r.phys[1], r.phys[2], r.phys[4], r.phys[8], r.phys[16], r.phys[32] >>)

----------------------------------------------------------------------------
(* accessors on data blocks (b: the decompressed bytes) *)

SplitNul(b) ==
  LET r == FoldLeft(LAMBDA a, x : IF x = 0 THEN [cur |-> << >>, out |-> Append(a.out, a.cur)]
                                    ELSE [cur |-> Append(a.cur, x), out |-> a.out],
                    [cur |-> << >>, out |-> << >>], b)
  IN r.out

\* string(d): the bytes without the terminator; no inner NUL
MString(b) ==
  IF Len(b) = 0 THEN Err ELSE IF b[Len(b)] # 0 THEN Err
  ELSE LET s == SubSeq(b, 1, Len(b) - 1) IN
       IF \E j \in 1..Len(s) : s[j] = 0 THEN Err ELSE Ok(s)

\* settings(d) and its iterator: the NUL-separated commands
MSettings(b) ==
  IF Len(b) = 0 THEN Err ELSE IF b[Len(b)] # 0 THEN Err ELSE Ok(SplitNul(b))

\* image_name(d): a string without path separators
MImageName(b) ==
  LET s == MString(b) IN
  IF s.out = "err" THEN Err
  ELSE IF \E j \in 1..Len(s.val) : s.val[j] \in {47, 92} THEN Err ELSE s

MImageData(b) == Ok(b)

TileSize(kind) == CASE kind = "tile" -> 4 [] kind = "tele" -> 2 [] kind = "speedup" -> 6
                    [] kind = "switch" -> 4 [] kind = "tune" -> 2

\* the fields of the tiles in order; all are bytes except the little-endian i16 angle of Speedup
TileVals(b, kind) ==
  IF kind # "speedup" THEN b
  ELSE LET n == Len(b) \div 6 IN
       Strict([j \in 1..(5 * n) |->
          LET t == (j - 1) \div 5  i == (j - 1) % 5 IN
          IF i < 4 THEN b[6 * t + i + 1]
          ELSE LET u == b[6 * t + 5] + 256 * b[6 * t + 6] IN IF u >= 32768 THEN u - 65536 ELSE u])

\* *_layer_tiles_raw(d)
MTilesRaw(b, kind) == IF Len(b) % TileSize(kind) # 0 THEN Err ELSE Ok(TileVals(b, kind))

\* *_layer_tiles(index of a layer): << height, width >> \o the tiles row by row
MLayerTiles(b, kind, w, h) ==
  LET raw == MTilesRaw(b, kind)
      cnt == Len(b) \div TileSize(kind)
  IN IF raw.out = "err" THEN Err
     ELSE IF w <= 0 \/ h <= 0 \/ w > cnt THEN Err
     ELSE IF cnt % w # 0 \/ cnt \div w # h THEN Err
     ELSE Ok(<< h, w >> \o raw.val)

TileKindOfFlags(flags) ==
  CASE flags = 2 -> "tele" [] flags = 4 -> "speedup" [] flags = 16 -> "switch" [] flags = 32 -> "tune"
    [] OTHER -> "tile"

DataBytes(R, d) == R.data[d + 1]      \* verdict record [r, b] of Datafile!Read

OnData(R, d, Op(_)) == IF DataBytes(R, d).r = "ok" THEN Op(DataBytes(R, d).b) ELSE Err

----------------------------------------------------------------------------
(* everything the reader exposes, as a sequence of calls [f, a, out, val]    *)

Call(f, a, res) == [f |-> f, a |-> a, out |-> res.out, val |-> res.val]

RangeSeq(lohi) == [j \in 1..(lohi[2] - lohi[1]) |-> lohi[1] + j - 1]

\* typed tiles of layer k through the layer's own LayerTilesIndex
LayerTilesCall(R, k) ==
  LET l == MLayer(R, k) IN
  IF l.out = "err" THEN << >>
  ELSE IF LKind(l) # 2 THEN << >>
  ELSE LET kind == TileKindOfFlags(LFlags(l))
           d == LTilesData(l)
       IN << Call("tiles", k, OnData(R, d, LAMBDA b : MLayerTiles(b, kind, LWidth(l), LHeight(l)))) >>

GameLayerCalls(R) ==
  LET g == MGameLayers(R) IN
  << Call("game_layers", 0, g) >>
  \o (IF g.out = "err" THEN << >>
      ELSE LET n == Len(g.val)
               w == g.val[n - 7] h == g.val[n - 6]
               One(f, pos, kind) ==
                 IF g.val[pos] = None THEN << >>
                 ELSE << Call(f, 0, OnData(R, g.val[pos], LAMBDA b : MLayerTiles(b, kind, w, h))) >>
           IN One("gl.game", n - 5, "tile") \o One("gl.teleport", n - 4, "tele")
              \o One("gl.speedup", n - 3, "speedup") \o One("gl.front", n - 2, "tile")
              \o One("gl.switch", n - 1, "switch") \o One("gl.tune", n, "tune"))

DataCalls(R, d) ==
  << Call("string", d, OnData(R, d, MString)),
     Call("settings", d, OnData(R, d, MSettings)),
     Call("image_name", d, OnData(R, d, MImageName)),
     Call("image_data", d, OnData(R, d, MImageData)),
     Call("layer_tiles_raw", d, OnData(R, d, LAMBDA b : MTilesRaw(b, "tile"))),
     Call("tele_layer_tiles_raw", d, OnData(R, d, LAMBDA b : MTilesRaw(b, "tele"))),
     Call("speedup_layer_tiles_raw", d, OnData(R, d, LAMBDA b : MTilesRaw(b, "speedup"))),
     Call("switch_layer_tiles_raw", d, OnData(R, d, LAMBDA b : MTilesRaw(b, "switch"))),
     Call("tune_layer_tiles_raw", d, OnData(R, d, LAMBDA b : MTilesRaw(b, "tune"))) >>

ItemCalls(R) ==
  LET im == RangeSeq(Rng(R, 2)) gr == RangeSeq(Rng(R, 4)) la == RangeSeq(Rng(R, 5)) IN
  << Call("version", 0, MVersion(R)), Call("check_version", 0, MCheckVersion(R)), Call("info", 0, MInfo(R)) >>
  \o [j \in 1..Len(im) |-> Call("image", im[j], MImage(R, im[j]))]
  \o [j \in 1..Len(gr) |-> Call("group", gr[j], MGroup(R, gr[j]))]
  \o [j \in 1..Len(la) |-> Call("layer", la[j], MLayer(R, la[j]))]
  \o Concat([j \in 1..Len(la) |-> LayerTilesCall(R, la[j])])
  \o GameLayerCalls(R)

Calls(R) == Strict(ItemCalls(R)) \o Concat([d \in 1..ND(R) |-> DataCalls(R, d - 1)])

\* the item structs of map::format on every item of their type: [f (struct name), a (item), r, val]
PartCall(name, k, p) == [f |-> name, a |-> k, x |-> 0, r |-> p.r, val |-> p.f]

ItemPartNames(t) ==
  CASE t = 0 -> << "CommonV0", "VersionV1" >>
    [] t = 1 -> << "CommonV0", "InfoV1", "InfoV2", "InfoV1ExtraRace" >>
    [] t = 2 -> << "CommonV0", "ImageV1", "ImageV2" >>
    [] t = 3 -> << "CommonV0", "EnvelopeV1Legacy", "EnvelopeV1", "EnvelopeV2" >>
    [] t = 4 -> << "CommonV0", "GroupV1", "GroupV2", "GroupV3" >>
    [] t = 5 -> << "CommonV0", "LayerV1" >>
    [] t = 7 -> << "CommonV0", "DdraceSoundV1" >>
    [] OTHER -> << "CommonV0" >>

LayerPartNames == << "LayerV1CommonV0", "LayerV1TilemapV1", "LayerV1TilemapV2", "LayerV1TilemapV3",
                     "LayerV1QuadsV1", "LayerV1QuadsV2", "LayerV1DdraceSoundsV1", "LayerV1DdraceSoundsV2" >>

ExtraFlags == << 1, 2, 4, 8, 16, 32 >>

PartsOfItem(R, k) ==
  LET it == R.items[k + 1]
      names == ItemPartNames(it.t)
      own == [j \in 1..Len(names) |-> PartCall(names[j], k, PartOf(names[j], it.w))]
      c == PartOf("LayerV1", it.w)
  IN own
     \o (IF it.t = 5 /\ c.r = "some"
         THEN [j \in 1..Len(LayerPartNames) |-> PartCall(LayerPartNames[j], k, PartOf(LayerPartNames[j], c.rest))]
              \o (IF Len(c.rest) = 0 THEN << >>
                  ELSE [j \in 1..Len(ExtraFlags) |->
                          [f |-> "ExtraRace", a |-> k, x |-> ExtraFlags[j],
                           r |-> ExtraRace(c.rest, c.rest[1], ExtraFlags[j]).r,
                           val |-> ExtraRace(c.rest, c.rest[1], ExtraFlags[j]).f]])
         ELSE << >>)
     \o (IF it.t = 3 /\ PartOf("EnvelopeV1", it.w).r = "some"
         THEN << [f |-> "EnvelopeV1.name", a |-> k, x |-> 0, r |-> "some",
                  val |-> NameBytes(SubSeq(PartOf("EnvelopeV1", it.w).f, 4, 11))] >>
         ELSE << >>)
     \o (IF it.t = 6
         THEN Concat([ev \in 1..5 |->
                << [f |-> "EnvpointV1", a |-> k, x |-> ev - 1, r |-> Envpoints(it.w, 1, ev - 1).r,
                    val |-> Envpoints(it.w, 1, ev - 1).f],
                   [f |-> "EnvpointV2", a |-> k, x |-> ev - 1, r |-> Envpoints(it.w, 2, ev - 1).r,
                    val |-> Envpoints(it.w, 2, ev - 1).f] >>])
         ELSE << >>)

Parts(R) == Concat([k \in 1..Len(R.items) |-> Strict(PartsOfItem(R, k - 1))])

----------------------------------------------------------------------------
(* well-formedness of a map as far as the reader's interface goes: the map  *)
(* version is 1, every item accessor answers, the game layers exist, and    *)
(* every data block an item refers to has the form its use demands.         *)

LookupCall(cs, f, a) ==
  LET hits == SelectSeq(cs, LAMBDA c : c.f = f /\ c.a = a) IN
  IF Len(hits) = 0 THEN [f |-> f, a |-> a, out |-> "absent", val |-> << >>] ELSE hits[1]

MapValidFrom(R, cs) ==
  LET info == MInfo(R)
      StrOK(d) == d = None \/ OnData(R, d, MString).out = "ok"
  IN /\ \A j \in 1..Len(cs) : cs[j].out = "ok"
     /\ info.out = "ok"
     /\ \A j \in 1..4 : StrOK(info.val[j])
     /\ (info.val[5] = None \/ OnData(R, info.val[5], MSettings).out = "ok")
     /\ \A k \in {RangeSeq(Rng(R, 2))[j] : j \in 1..Len(RangeSeq(Rng(R, 2)))} :
          OnData(R, MImage(R, k).val[3], MImageName).out = "ok"

MapValid(R) == MapValidFrom(R, ItemCalls(R))

----------------------------------------------------------------------------
(* writer: a typed abstract map T                                           *)
(*   [ version, info, images, envs, points, groups, layers, sounds, data,   *)
(*     gamegroup ]                                                          *)
(* with the document's field names; references are the numbers the file     *)
(* stores (data indices, indices relative to the first item of the type     *)
(* referred to, -1 = unused); item versions are fields (iv, ev, gv, lv).    *)
(* `data` is a typed table: [k |-> "str", s], [k |-> "settings", cmds],     *)
(* [k |-> "bytes", b].                                                      *)

DataBlockOf(e) ==
  CASE e.k = "str" -> e.s \o << 0 >>
    [] e.k = "settings" -> Concat([j \in 1..Len(e.cmds) |-> e.cmds[j] \o << 0 >>])
    [] OTHER -> e.b

InfoW(i) == << 1, i.author, i.mapver, i.credits, i.license >> \o (IF i.sfield THEN << i.settings >> ELSE << >>)

ImageW(im) == << im.iv, im.w, im.h, IF im.ext THEN 1 ELSE 0, im.name, IF im.ext THEN -1 ELSE im.data >>
              \o (IF im.iv >= 2 THEN << im.variant >> ELSE << >>)

EnvW(e) == << e.ev, e.channels, e.start, e.num >>
           \o (IF e.legacy THEN << >> ELSE NameWords(e.name, 8) \o (IF e.ev >= 2 THEN << e.sync >> ELSE << >>))

GroupW(g) == << g.gv, g.ox, g.oy, g.px, g.py, g.start, g.num >>
             \o (IF g.gv >= 2 THEN (IF g.clip = << >> THEN << 0, 0, 0, 0, 0 >> ELSE << 1 >> \o g.clip) ELSE << >>)
             \o (IF g.gv >= 3 THEN NameWords(g.name, 3) ELSE << >>)

LayerW(l) ==
  CASE l.kind = "tilemap" ->
         << l.garbage, 2, l.detail, l.lv, l.w, l.h, l.flags >> \o l.color
         \o << l.env, l.envoff, l.image, l.data >>
         \o (IF l.lv >= 3 THEN NameWords(l.name, 3) ELSE << >>) \o l.x5
    [] l.kind = "quads" ->
         << l.garbage, 3, l.detail, l.lv, l.n, l.data, l.image >>
         \o (IF l.lv >= 2 THEN NameWords(l.name, 3) ELSE << >>)
    [] l.kind = "sounds" ->
         << l.garbage, IF l.legacy THEN 9 ELSE 10, l.detail, l.lv, l.n, l.data, l.ref >> \o NameWords(l.name, 3)

SoundW(s) == << 1, 0, s.name, s.data, s.size >>

NumItems(T) == [j \in 1..Len(T) |-> j - 1]

MapDf(T) ==
  LET Items(t, ws) == [j \in 1..Len(ws) |-> [t |-> t, id |-> j - 1, w |-> Strict(ws[j])]]
      all == Items(0, << << T.version >> >>)
             \o Items(1, << InfoW(T.info) >>)
             \o Items(2, [j \in 1..Len(T.images) |-> ImageW(T.images[j])])
             \o Items(3, [j \in 1..Len(T.envs) |-> EnvW(T.envs[j])])
             \o Items(4, [j \in 1..Len(T.groups) |-> GroupW(T.groups[j])])
             \o Items(5, [j \in 1..Len(T.layers) |-> LayerW(T.layers[j])])
             \o (IF Len(T.envs) > 0 THEN Items(6, << Concat(T.points) >>) ELSE << >>)
             \o Items(7, [j \in 1..Len(T.sounds) |-> SoundW(T.sounds[j])])
      present == {all[j].t : j \in 1..Len(all)}
  IN [ types |-> SelectSeq(<< 0, 1, 2, 3, 4, 5, 6, 7 >>, LAMBDA t : t \in present),
       items |-> Strict(all),
       data |-> Strict([j \in 1..Len(T.data) |-> Strict(DataBlockOf(T.data[j]))]) ]

\* what every accessor must return for T, stated on the typed records
ImageStart(T) == 2
EnvStart(T) == 2 + Len(T.images)
GroupStart(T) == EnvStart(T) + Len(T.envs)
LayerStart(T) == GroupStart(T) + Len(T.groups)
SoundStart(T) == LayerStart(T) + Len(T.layers) + (IF Len(T.envs) > 0 THEN 1 ELSE 0)

Abs(x, start) == IF x = -1 THEN None ELSE start + x

GroupVal(T, g) ==
  << g.ox, g.oy, g.px, g.py, LayerStart(T) + g.start, LayerStart(T) + g.start + g.num >>
  \o (IF g.gv >= 2 /\ g.clip # << >> THEN << 1 >> \o g.clip ELSE << 0, 0, 0, 0, 0 >>)
  \o Pad(IF g.gv >= 3 THEN g.name ELSE << >>, 12)

LayerVal(T, l) ==
  CASE l.kind = "tilemap" ->
         << l.detail, 2, l.w, l.h, l.flags >>
         \o (IF l.flags = 0
             THEN l.color \o << Abs(l.env, EnvStart(T)), IF l.env = -1 THEN 0 ELSE l.envoff,
                                Abs(l.image, ImageStart(T)), l.data >>
             ELSE IF l.flags = 1 THEN << l.data >>
             ELSE << l.x5[ExtraSlot(l.flags) + 1], l.data >>)
         \o Pad(IF l.lv >= 3 THEN l.name ELSE << >>, 12)
    [] l.kind = "quads" ->
         << l.detail, 3, l.n, l.data, Abs(l.image, ImageStart(T)) >> \o Pad(IF l.lv >= 2 THEN l.name ELSE << >>, 12)
    [] l.kind = "sounds" ->
         << l.detail, 10, l.n, l.data, Abs(l.ref, SoundStart(T)), IF l.legacy THEN 1 ELSE 0 >> \o Pad(l.name, 12)

TilesDataOf(l) == IF l.flags \in {0, 1} THEN l.data ELSE l.x5[ExtraSlot(l.flags) + 1]

TilesVal(T, l) ==
  << l.h, l.w >> \o TileVals(T.data[TilesDataOf(l) + 1].b, TileKindOfFlags(l.flags))

Stored(T) ==
  LET S(f, a, v) == [f |-> f, a |-> a, out |-> "ok", val |-> v]
      i == T.info
      gg == T.groups[T.gamegroup]
      phys == [t \in PhysKinds |->
                 LET hits == {j \in 1..Len(T.layers) : T.layers[j].kind = "tilemap" /\ T.layers[j].flags = t} IN
                 IF hits = {} THEN 0 ELSE CHOOSE j \in hits : TRUE]
      game == T.layers[phys[1]]
      GL(f, t) == IF phys[t] = 0 THEN << >>
                  ELSE << S(f, 0, << game.h, game.w >>
                                   \o TileVals(T.data[TilesDataOf(T.layers[phys[t]]) + 1].b, TileKindOfFlags(t))) >>
      StrRefs == {x \in {i.author, i.mapver, i.credits, i.license} : x # -1}
      tl == SelectSeq(NumItems(T.layers), LAMBDA j : T.layers[j + 1].kind = "tilemap")
  IN << S("version", 0, << T.version >>), S("check_version", 0, << >>),
        S("info", 0, << i.author, i.mapver, i.credits, i.license, IF i.sfield THEN i.settings ELSE None >>) >>
     \o [j \in 1..Len(T.images) |->
           S("image", ImageStart(T) + j - 1,
             << T.images[j].w, T.images[j].h, T.images[j].name,
                IF T.images[j].ext THEN None ELSE T.images[j].data >>)]
     \o [j \in 1..Len(T.groups) |-> S("group", GroupStart(T) + j - 1, GroupVal(T, T.groups[j]))]
     \o [j \in 1..Len(T.layers) |-> S("layer", LayerStart(T) + j - 1, LayerVal(T, T.layers[j]))]
     \o [j \in 1..Len(tl) |-> S("tiles", LayerStart(T) + tl[j], TilesVal(T, T.layers[tl[j] + 1]))]
     \o << S("game_layers", 0,
             GroupVal(T, gg) \o << game.w, game.h >>
             \o [j \in 1..6 |-> LET t == << 1, 2, 4, 8, 16, 32 >>[j] IN
                                IF phys[t] = 0 THEN None ELSE TilesDataOf(T.layers[phys[t]])]) >>
     \o GL("gl.game", 1) \o GL("gl.teleport", 2) \o GL("gl.speedup", 4) \o GL("gl.front", 8)
     \o GL("gl.switch", 16) \o GL("gl.tune", 32)
     \o Concat([d \in 1..Len(T.data) |->
          LET e == T.data[d] IN
          CASE e.k = "str" -> << S("string", d - 1, e.s) >>
                              \o (IF \E j \in 1..Len(T.images) : T.images[j].name = d - 1
                                  THEN << S("image_name", d - 1, e.s) >> ELSE << >>)
            [] e.k = "settings" -> << S("settings", d - 1, e.cmds) >>
            [] OTHER -> << S("image_data", d - 1, e.b) >>])

\* the law: the reader model returns exactly what was stored
StoredAgree(T, cs) ==
  LET st == Stored(T) IN
  \A j \in 1..Len(st) :
     LET c == LookupCall(cs, st[j].f, st[j].a) IN
     IF c.out = st[j].out /\ c.val = st[j].val THEN TRUE
     ELSE PrintT(<< "STORED-DIFFERS", st[j], c >>) /\ FALSE

=============================================================================
