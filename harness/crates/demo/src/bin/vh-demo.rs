//! C15 harness: drives the real demo `Writer`/`Reader` and `DemoWriter`/`DemoReader`.
//!
//!   vh-demo classes <csize>...          which (kind, csize, len mod 4) payloads can be realised
//!   vh-demo graph lo|hi --depth L       stdin: TLC export of MC_Demo / MC_DemoHi; walks every
//!                                       path, executes it on the real code, compares with the
//!                                       labels TLC computed; prints one JSON summary
//!   vh-demo run lo|hi                   stdin: one plan (JSON array of acts) per line; stdout:
//!                                       NDJSON events {"act":..,"out":..}
//!   vh-demo drive lo|hi <seed> <runs> <n>   random recordings (direction B); stdout: NDJSON events
//!
//! Rust only turns act records into API calls and projects files / reader results into the
//! vocabulary of Demo.tla and DemoHi.tla. Panics are outcomes {"r":"panic"}.
use libtw2_common::digest::Sha256;
use libtw2_demo::ddnet::{Chunk, DemoReader, DemoWriter};
use libtw2_demo::{DemoKind, RawChunk, Reader, Writer};
use libtw2_gamenet_ddnet::msg::game as gmsg;
use libtw2_gamenet_ddnet::msg::Game;
use libtw2_gamenet_ddnet::snap_obj as so;
use libtw2_gamenet_ddnet::snap_obj::SnapObj;
use libtw2_gamenet_ddnet::Protocol as DDNet;
use libtw2_huffman::instances::TEEWORLDS as HUFFMAN;
use libtw2_packer::with_packer;
use rand::rngs::StdRng;
use rand::{Rng, SeedableRng};
use serde_json::{json, Value};
use std::cell::RefCell;
use std::collections::{BTreeMap, HashMap};
use std::io::{self, BufRead, Read, Seek, SeekFrom, Write};
use std::panic::{catch_unwind, AssertUnwindSafe};
use std::rc::Rc;
use std::sync::atomic::{AtomicBool, AtomicUsize, Ordering};

// ------------------------------------------------------------------ shared in-memory file

#[derive(Clone)]
struct SharedFile(Rc<RefCell<io::Cursor<Vec<u8>>>>);
impl SharedFile {
    fn new(v: Vec<u8>) -> SharedFile {
        SharedFile(Rc::new(RefCell::new(io::Cursor::new(v))))
    }
    fn len(&self) -> usize {
        self.0.borrow().get_ref().len()
    }
    fn pos(&self) -> usize {
        self.0.borrow().position() as usize
    }
    fn contents(&self) -> Vec<u8> {
        self.0.borrow().get_ref().clone()
    }
}
impl Write for SharedFile {
    fn write(&mut self, b: &[u8]) -> io::Result<usize> {
        self.0.borrow_mut().write(b)
    }
    fn flush(&mut self) -> io::Result<()> {
        Ok(())
    }
}
impl Read for SharedFile {
    fn read(&mut self, b: &mut [u8]) -> io::Result<usize> {
        self.0.borrow_mut().read(b)
    }
}
impl Seek for SharedFile {
    fn seek(&mut self, p: SeekFrom) -> io::Result<u64> {
        self.0.borrow_mut().seek(p)
    }
}


// ------------------------------------------------------------------ byte sources and sinks
// How the bytes travel between the library and the file is a dimension of the recordings (`src` of the `new`
// act): 0 plain in-memory file; 1 one byte per read / write call; 2 half of what is asked for (rounded up);
// 3 all but the last byte; 4 std BufReader / BufWriter with a 16-byte buffer (what tools/ uses, small);
// 5 pseudo-random counts; 6 BufReader / BufWriter with a 1-byte buffer.  A count of zero is only ever
// returned at the end of the file.  The logical position (bytes handed over) is tracked here because the
// library owns the wrapped object.
#[derive(Clone)]
struct IoPos(Rc<std::cell::Cell<u64>>);
impl IoPos {
    fn new() -> IoPos {
        IoPos(Rc::new(std::cell::Cell::new(0)))
    }
    fn get(&self) -> usize {
        self.0.get() as usize
    }
}
fn frag_count(pol: u64, want: usize, state: &mut u64) -> usize {
    if want <= 1 {
        return want;
    }
    match pol {
        1 => 1,
        2 => (want + 1) / 2,
        3 => want - 1,
        5 => {
            *state ^= *state << 13;
            *state ^= *state >> 7;
            *state ^= *state << 17;
            1 + (*state >> 33) as usize % want
        }
        _ => want,
    }
}
enum SrcInner {
    Plain(SharedFile),
    Buf(io::BufReader<SharedFile>),
}
struct Source {
    inner: SrcInner,
    pol: u64,
    state: u64,
    pos: IoPos,
    barrier: u64, // policy 7: no read crosses this byte offset
}
impl Source {
    fn with_barrier(f: SharedFile, barrier: u64, pos: IoPos) -> Source {
        let mut s = Source::new(f, 7, pos);
        s.barrier = barrier;
        s
    }
    fn new(f: SharedFile, pol: u64, pos: IoPos) -> Source {
        let inner = match pol {
            4 => SrcInner::Buf(io::BufReader::with_capacity(16, f)),
            6 => SrcInner::Buf(io::BufReader::with_capacity(1, f)),
            _ => SrcInner::Plain(f),
        };
        Source { inner, pol, state: 0x9E37_79B9_7F4A_7C15 ^ pol, pos, barrier: 0 }
    }
}
impl Read for Source {
    fn read(&mut self, b: &mut [u8]) -> io::Result<usize> {
        let n = match &mut self.inner {
            SrcInner::Plain(f) => {
                let mut k = frag_count(self.pol, b.len(), &mut self.state);
                if self.pol == 7 {
                    let cur = f.pos() as u64;
                    if cur < self.barrier && cur + k as u64 > self.barrier {
                        k = (self.barrier - cur) as usize;
                    }
                }
                f.read(&mut b[..k])?
            }
            SrcInner::Buf(r) => r.read(b)?,
        };
        self.pos.0.set(self.pos.0.get() + n as u64);
        Ok(n)
    }
}
impl Seek for Source {
    fn seek(&mut self, p: SeekFrom) -> io::Result<u64> {
        let r = match &mut self.inner {
            SrcInner::Plain(f) => f.seek(p)?,
            SrcInner::Buf(r) => r.seek(p)?,
        };
        self.pos.0.set(r);
        Ok(r)
    }
}
enum SinkInner {
    Plain(SharedFile),
    Buf(io::BufWriter<SharedFile>),
}
struct Sink {
    inner: SinkInner,
    pol: u64,
    state: u64,
    pos: IoPos,
}
impl Sink {
    fn new(f: SharedFile, pol: u64, pos: IoPos) -> Sink {
        let inner = match pol {
            4 => SinkInner::Buf(io::BufWriter::with_capacity(16, f)),
            6 => SinkInner::Buf(io::BufWriter::with_capacity(1, f)),
            _ => SinkInner::Plain(f),
        };
        Sink { inner, pol, state: 0x1234_5678_9ABC_DEF1 ^ pol, pos }
    }
}
impl Write for Sink {
    fn write(&mut self, b: &[u8]) -> io::Result<usize> {
        let n = match &mut self.inner {
            SinkInner::Plain(f) => {
                let k = frag_count(self.pol, b.len(), &mut self.state);
                f.write(&b[..k])?
            }
            SinkInner::Buf(w) => w.write(b)?,
        };
        self.pos.0.set(self.pos.0.get() + n as u64);
        Ok(n)
    }
    fn flush(&mut self) -> io::Result<()> {
        match &mut self.inner {
            SinkInner::Plain(_) => Ok(()),
            SinkInner::Buf(w) => w.flush(),
        }
    }
}
impl Seek for Sink {
    fn seek(&mut self, p: SeekFrom) -> io::Result<u64> {
        let r = match &mut self.inner {
            SinkInner::Plain(f) => f.seek(p)?,
            SinkInner::Buf(w) => w.seek(p)?,
        };
        self.pos.0.set(r);
        Ok(r)
    }
}

thread_local! {
    static PANIC_LOC: RefCell<String> = RefCell::new(String::new());
}
/// silent panic hook that remembers the location per thread
fn install_panic_hook() {
    std::panic::set_hook(Box::new(|info| {
        let loc = info.location().map(|l| format!("{}:{}", l.file(), l.line())).unwrap_or_default();
        PANIC_LOC.with(|c| *c.borrow_mut() = loc);
    }));
}
fn last_panic_location() -> String {
    PANIC_LOC.with(|c| c.borrow().clone())
}

fn panic_text(p: &Box<dyn std::any::Any + Send>) -> String {
    if let Some(s) = p.downcast_ref::<&str>() {
        s.to_string()
    } else if let Some(s) = p.downcast_ref::<String>() {
        s.clone()
    } else {
        "panic".to_string()
    }
}
fn panic_out(p: &Box<dyn std::any::Any + Send>) -> Value {
    json!({"r":"panic","msg":panic_text(p),"loc":last_panic_location()})
}

fn variant_name<T: std::fmt::Debug>(x: &T) -> String {
    let s = format!("{:?}", x);
    s.split(|c: char| !(c.is_alphanumeric() || c == '_')).next().unwrap_or("").to_string()
}
fn warn_names<T: std::fmt::Debug>(w: &[T]) -> Vec<String> {
    let mut v: Vec<String> = w.iter().map(|x| format!("{:?}", x)).collect();
    v.sort();
    v.dedup();
    v
}

// ------------------------------------------------------------------ payloads (low level)

struct Payload {
    raw: Vec<u8>,  // what is handed to the writer
    comp: Vec<u8>, // the bytes the writer must put into the file
}

fn xs(seed: u64, n: usize) -> Vec<u8> {
    let mut s = seed.wrapping_mul(0x9E37_79B9_7F4A_7C15) | 1;
    (0..n)
        .map(|_| {
            s ^= s << 13;
            s ^= s >> 7;
            s ^= s << 17;
            (s >> 24) as u8
        })
        .collect()
}

/// the bytes that go through Huffman for a message: 4-byte little-endian groups (zero padded)
/// as variable-length integers
fn msg_prep(msg: &[u8]) -> Option<Vec<u8>> {
    let mut buf: Vec<u8> = Vec::with_capacity(msg.len() * 2 + 16);
    let r = with_packer(&mut buf, |mut p| {
        for b in msg.chunks(4) {
            let g = |i: usize| b.get(i).cloned().unwrap_or(0);
            if p.write_int(i32::from_le_bytes([g(0), g(1), g(2), g(3)])).is_err() {
                return Err(());
            }
        }
        Ok(())
    });
    r.ok().map(|_| buf)
}
fn prep(kind: &str, raw: &[u8]) -> Option<Vec<u8>> {
    if kind == "message" {
        msg_prep(raw)
    } else {
        Some(raw.to_vec())
    }
}
fn clen(kind: &str, raw: &[u8]) -> usize {
    match prep(kind, raw) {
        Some(p) => HUFFMAN.compressed_len(&p),
        None => usize::MAX,
    }
}

/// A payload of the given kind whose compressed size is exactly `csize` (messages: length = m4 mod 4).
fn find_payload(kind: &str, csize: usize, m4: usize) -> Option<Payload> {
    let step = if kind == "message" { 4 } else { 1 };
    let base = if kind == "message" { m4 } else { 0 };
    let maxraw = if kind == "message" { 60000 } else { 65536 };
    for seed in 1..6u64 {
        let stream = xs(seed * 1000 + csize as u64 * 7 + m4 as u64, maxraw + 8);
        let mk = |k: usize, zeros: usize| -> Vec<u8> {
            let mut v = vec![0u8; zeros * step];
            v.extend_from_slice(&stream[..base + k * step]);
            v
        };
        if clen(kind, &mk(0, 0)) > csize {
            continue;
        }
        // largest k with clen <= csize (clen is monotone in k up to small wiggles: checked below)
        let (mut lo, mut hi) = (0usize, (maxraw - base) / step);
        while lo < hi {
            let mid = (lo + hi + 1) / 2;
            if clen(kind, &mk(mid, 0)) <= csize {
                lo = mid;
            } else {
                hi = mid - 1;
            }
        }
        let mut k = lo;
        while k > 0 && clen(kind, &mk(k, 0)) > csize {
            k -= 1;
        }
        // fill up with leading zero bytes / zero groups (each adds less than one byte)
        let mut zeros = 0usize;
        let mut ok = false;
        for _ in 0..64 {
            let c = clen(kind, &mk(k, zeros));
            if c == csize {
                ok = true;
                break;
            }
            if c > csize || zeros * step + base + k * step + step > maxraw + 4 {
                break;
            }
            zeros += 1;
        }
        if !ok {
            continue;
        }
        let raw = mk(k, zeros);
        if kind != "message" && raw.len() > 65536 {
            continue;
        }
        let comp = HUFFMAN.compress_into_vec(&prep(kind, &raw)?);
        if comp.len() != csize || comp.len() > 65535 {
            continue;
        }
        return Some(Payload { raw, comp });
    }
    None
}

/// Messages by *varint width* of their 4-byte groups (1..5 packed bytes per group) and length class:
/// `widx = (w - 1) * 3 + variant + 1`; variant 0: one constant value of that width, as many groups as
/// the writer accepts (at most 16384 groups = 64 KiB, the reader's output buffer; packed form at most
/// 65536 bytes; compressed form at most 65535 bytes); variant 1: pseudo-random values of that width,
/// again the largest accepted length; variant 2: 1000 groups of pseudo-random values of that width.
fn wide_values(w: usize, variant: usize, n: usize) -> Vec<i32> {
    let lo: i64 = if w == 1 { 1 } else { 1i64 << (6 + 7 * (w - 2)) };
    let hi: i64 = if w == 5 { i32::MAX as i64 } else { (1i64 << (6 + 7 * (w - 1))) - 1 };
    if variant == 0 {
        return vec![lo as i32; n];
    }
    let mut s: u64 = 0x1234_5678_9abc_def1 ^ ((w as u64) << 32) ^ variant as u64;
    (0..n)
        .map(|_| {
            s ^= s << 13;
            s ^= s >> 7;
            s ^= s << 17;
            let v = lo + ((s >> 11) as i64).rem_euclid(hi - lo + 1);
            // negative values have the same width: -(v + 1) encodes like v
            if s & 1 == 0 { v as i32 } else { (-(v + 1)) as i32 }
        })
        .collect()
}
fn wide_raw(vals: &[i32]) -> Vec<u8> {
    let mut raw = Vec::with_capacity(vals.len() * 4);
    for v in vals {
        raw.extend_from_slice(&v.to_le_bytes());
    }
    raw
}
fn wide_fits(raw: &[u8]) -> bool {
    match msg_prep(raw) {
        Some(p) => p.len() <= 65536 && HUFFMAN.compressed_len(&p) <= 65535,
        None => false,
    }
}
fn wide_payload(widx: usize) -> Option<Payload> {
    if widx == 0 || widx > 15 {
        return None;
    }
    let (w, variant) = ((widx - 1) / 3 + 1, (widx - 1) % 3);
    let maxn = if variant == 2 { 1000 } else { 16384 };
    let vals = wide_values(w, variant, maxn);
    // largest number of groups the writer accepts (prefixes of one value stream: monotone)
    let (mut lo, mut hi) = (0usize, maxn);
    while lo < hi {
        let mid = (lo + hi + 1) / 2;
        if wide_fits(&wide_raw(&vals[..mid])) {
            lo = mid;
        } else {
            hi = mid - 1;
        }
    }
    let raw = wide_raw(&vals[..lo]);
    let prep = msg_prep(&raw)?;
    if lo > 0 && prep.len() != lo * w {
        return None; // the values do not have the intended width
    }
    let comp = HUFFMAN.compress_into_vec(&prep);
    Some(Payload { raw, comp })
}

struct Payloads {
    cache: HashMap<(String, usize, usize), Option<Rc<Payload>>>,
    wide: HashMap<usize, Option<Rc<Payload>>>,
}
impl Payloads {
    fn new() -> Payloads {
        Payloads { cache: HashMap::new(), wide: HashMap::new() }
    }
    fn get_wide(&mut self, widx: usize) -> Option<Rc<Payload>> {
        if !self.wide.contains_key(&widx) {
            self.wide.insert(widx, wide_payload(widx).map(Rc::new));
        }
        self.wide[&widx].clone()
    }
    /// payload of a `data` act: by width class when `w` > 0 (csize / m4 must be the achieved ones)
    fn for_act(&mut self, a: &Value) -> Option<Rc<Payload>> {
        let w = a["w"].as_u64().unwrap_or(0) as usize;
        let csize = a["csize"].as_u64().unwrap_or(0) as usize;
        let m4 = a["m4"].as_u64().unwrap_or(0) as usize;
        if w > 0 {
            let p = self.get_wide(w)?;
            if p.comp.len() != csize || p.raw.len() % 4 != m4 {
                return None;
            }
            Some(p)
        } else {
            self.get(a["kind"].as_str().unwrap_or(""), csize, m4)
        }
    }
    fn get(&mut self, kind: &str, csize: usize, m4: usize) -> Option<Rc<Payload>> {
        let key = (kind.to_string(), csize, m4);
        if !self.cache.contains_key(&key) {
            let p = find_payload(kind, csize, m4).map(Rc::new);
            self.cache.insert(key.clone(), p);
        }
        self.cache[&key].clone()
    }
}

fn cmd_classes(args: &[String]) {
    let mut ps = Payloads::new();
    let mut snap = Vec::new();
    let mut msg = Vec::new();
    let empty_snap = clen("snapshot", &[]);
    let empty_msg = clen("message", &[]);
    let mut targets: Vec<usize> = args.iter().filter_map(|a| a.parse().ok()).collect();
    targets.push(empty_snap);
    targets.push(empty_msg);
    targets.sort();
    targets.dedup();
    let mut detail = Vec::new();
    for t in targets {
        if let Some(p) = ps.get("snapshot", t, 0) {
            snap.push(t);
            detail.push(json!({"kind":"snapshot","csize":t,"raw_len":p.raw.len()}));
        }
        for m4 in 0..4 {
            if let Some(p) = ps.get("message", t, m4) {
                msg.push(t * 4 + m4);
                detail.push(json!({"kind":"message","csize":t,"m4":m4,"raw_len":p.raw.len()}));
            }
        }
    }
    let mut wide = Vec::new();
    for widx in 1..=15usize {
        if let Some(p) = ps.get_wide(widx) {
            let (w, variant) = ((widx - 1) / 3 + 1, (widx - 1) % 3);
            wide.push(json!({"widx": widx, "w": w, "variant": variant, "csize": p.comp.len(), "m4": p.raw.len() % 4,
                "raw_len": p.raw.len(), "groups": p.raw.len() / 4, "packed_len": msg_prep(&p.raw).map(|x| x.len()).unwrap_or(0)}));
        }
    }
    println!("{}", json!({"snap": snap, "msg": msg, "empty_snap": empty_snap, "empty_msg": empty_msg, "achieved": detail, "wide": wide}));
}

// ------------------------------------------------------------------ low level: Writer / Reader

fn hdr_string(n: usize, salt: u8) -> Vec<u8> {
    (0..n).map(|i| 1 + ((i as u32 * 37 + salt as u32 * 11) % 255) as u8).collect()
}

struct LoHeader {
    nv: Vec<u8>,
    mn: Vec<u8>,
    ts: Vec<u8>,
    kind: DemoKind,
    sha: Option<Sha256>,
    map: Vec<u8>,
    crc: u32,
    length: i32,
}
fn lo_header(a: &Value) -> LoHeader {
    let n = |k: &str| a[k].as_u64().unwrap_or(0) as usize;
    LoHeader {
        nv: hdr_string(n("nv"), 1),
        mn: hdr_string(n("mn"), 2),
        ts: hdr_string(n("ts"), 3),
        kind: if a["kind"] == "server" { DemoKind::Server } else { DemoKind::Client },
        sha: if a["sha"].as_bool().unwrap_or(false) { Some(Sha256([0xA5; 32])) } else { None },
        map: xs(77, n("map")),
        crc: a["crc"].as_i64().unwrap_or(0) as u32,
        length: a["length"].as_i64().unwrap_or(0) as i32,
    }
}

fn kind_name(k: DemoKind) -> &'static str {
    match k {
        DemoKind::Client => "client",
        DemoKind::Server => "server",
    }
}

/// Executes a low-level plan ([new, tick|data ...]); returns the observed `out` per act.
fn exec_lo(plan: &[Value], ps: &mut Payloads) -> Vec<Value> {
    let mut outs: Vec<Value> = Vec::new();
    if plan.is_empty() {
        return outs;
    }
    let h = lo_header(&plan[0]);
    let pol = plan[0]["src"].as_u64().unwrap_or(0);
    let file = SharedFile::new(Vec::new());
    let wpos = IoPos::new();
    let w = catch_unwind(AssertUnwindSafe(|| {
        Writer::new(Sink::new(file.clone(), pol, wpos.clone()), &h.nv, &h.mn, h.sha, h.crc, h.kind, h.length, &h.ts, &h.map)
    }));
    let mut writer = match w {
        Ok(Ok(w)) => w,
        Ok(Err(e)) => {
            outs.push(json!({"r":"err","e":variant_name(&e)}));
            return outs;
        }
        Err(p) => {
            outs.push(panic_out(&p));
            return outs;
        }
    };
    let dataoff = wpos.get();
    // segments written per chunk act
    struct Seg {
        start: usize,
        end: usize,
        payload: Option<Rc<Payload>>,
    }
    let mut segs: Vec<Seg> = Vec::new();
    let mut failed: Option<Value> = None;
    for a in &plan[1..] {
        let start = wpos.get();
        let mut payload = None;
        // the entry point: the dedicated function, or the generic write_chunk with the RawChunk variant
        let generic = a["via"].as_str().unwrap_or("fn") == "chunk";
        let r = match a["a"].as_str().unwrap_or("") {
            "tick" => {
                let t = a["t"].as_i64().unwrap_or(0) as i32;
                let kf = a["kf"].as_bool().unwrap_or(false);
                if generic {
                    catch_unwind(AssertUnwindSafe(|| writer.write_chunk(RawChunk::Tick { tick: t, keyframe: kf })))
                } else {
                    catch_unwind(AssertUnwindSafe(|| writer.write_tick(kf, t)))
                }
            }
            "data" => {
                let kind = a["kind"].as_str().unwrap_or("");
                let p = ps.for_act(a).unwrap_or_else(|| panic!("harness: no payload for {}", a));
                payload = Some(p.clone());
                if generic {
                    let mut av: Box<arrayvec::ArrayVec<[u8; 65536]>> = Box::new(arrayvec::ArrayVec::new());
                    if kind != "message" {
                        av.try_extend_from_slice(&p.raw).expect("harness: snapshot payload fits 64 KiB");
                    }
                    catch_unwind(AssertUnwindSafe(|| match kind {
                        "snapshot" => writer.write_chunk(RawChunk::Snapshot(&av)),
                        "delta" => writer.write_chunk(RawChunk::SnapshotDelta(&av)),
                        _ => writer.write_chunk(RawChunk::Message(&p.raw)),
                    }))
                } else {
                    catch_unwind(AssertUnwindSafe(|| match kind {
                        "snapshot" => writer.write_snapshot(&p.raw),
                        "delta" => writer.write_snapshot_delta(&p.raw),
                        _ => writer.write_message(&p.raw),
                    }))
                }
            }
            other => panic!("harness: unknown low-level act {}", other),
        };
        match r {
            Ok(Ok(())) => segs.push(Seg { start, end: wpos.get(), payload }),
            Ok(Err(e)) => {
                failed = Some(json!({"r":"err","e":variant_name(&e)}));
                break;
            }
            Err(p) => {
                failed = Some(panic_out(&p));
                break;
            }
        }
    }
    drop(writer);
    let bytes = file.contents();
    // read back
    let rfile = SharedFile::new(bytes.clone());
    let rpos = IoPos::new();
    let mut warns: Vec<libtw2_demo::Warning> = Vec::new();
    let rd = catch_unwind(AssertUnwindSafe(|| Reader::new(Source::new(rfile.clone(), pol, rpos.clone()), &mut warns)));
    let mut reader = match rd {
        Ok(Ok(r)) => Some(r),
        Ok(Err(e)) => {
            outs.push(json!({"r":"ok","version":0,"dataoff":dataoff,"same":false,"w":warn_names(&warns),"readerr":variant_name(&e)}));
            None
        }
        Err(p) => {
            outs.push(json!({"r":"ok","version":0,"dataoff":dataoff,"same":false,"w":[],"readerr":panic_text(&p)}));
            None
        }
    };
    if let Some(r) = reader.as_ref() {
        let same = r.net_version() == &h.nv[..]
            && r.map_name() == &h.mn[..]
            && r.timestamp() == &h.ts[..]
            && kind_name(r.kind()) == kind_name(h.kind)
            && r.map_sha256() == h.sha
            && r.map_data() == &h.map[..]
            && r.map_size() as usize == h.map.len()
            && r.map_crc() == h.crc
            && r.length() == h.length
            && r.timeline_markers().is_empty()
            && rpos.get() == dataoff;
        outs.push(json!({"r":"ok","version":r.version() as u8,"dataoff":dataoff,"same":same,"w":warn_names(&warns)}));
    }
    let mut dead: Option<String> = None;
    for (i, s) in segs.iter().enumerate() {
        let seg = &bytes[s.start..s.end];
        let (h, body): (Vec<u8>, i64) = match &s.payload {
            Some(p) => {
                if seg.len() >= p.comp.len() && seg[seg.len() - p.comp.len()..] == p.comp[..] {
                    (seg[..seg.len() - p.comp.len()].to_vec(), p.comp.len() as i64)
                } else {
                    (seg.to_vec(), -1)
                }
            }
            None => (seg.to_vec(), 0),
        };
        let mut o = json!({"r":"ok","h":h,"body":body});
        // the reader's answer for this segment
        let a = &plan[1 + i];
        if reader.is_none() || dead.is_some() {
            o["err"] = json!(dead.clone().unwrap_or("noreader".to_string()));
            o["chunk"] = json!({"k":"none"});
            o["w"] = json!([]);
        } else {
            let r = reader.as_mut().unwrap();
            let mut w: Vec<libtw2_demo::Warning> = Vec::new();
            let res = catch_unwind(AssertUnwindSafe(|| {
                r.read_chunk(&mut w).map(|c| {
                    c.map(|c| match c {
                        RawChunk::Tick { tick, keyframe } => json!({"k":"tick","t":tick,"kf":keyframe}),
                        RawChunk::Snapshot(d) => data_chunk("snapshot", &d[..], s.payload.as_deref(), a),
                        RawChunk::SnapshotDelta(d) => data_chunk("delta", &d[..], s.payload.as_deref(), a),
                        RawChunk::Message(d) => data_chunk("message", d, s.payload.as_deref(), a),
                        RawChunk::Unknown => json!({"k":"unknown"}),
                    })
                })
            }));
            match res {
                Ok(Ok(Some(c))) => {
                    let at_end = rpos.get() == s.end;
                    o["err"] = json!(if at_end { "none" } else { "Desync" });
                    o["chunk"] = c;
                }
                Ok(Ok(None)) => {
                    o["err"] = json!("EndOfFile");
                    o["chunk"] = json!({"k":"none"});
                    dead = Some("EndOfFile".to_string());
                }
                Ok(Err(e)) => {
                    o["err"] = json!(variant_name(&e));
                    o["chunk"] = json!({"k":"none"});
                    dead = Some("after-error".to_string());
                }
                Err(p) => {
                    o["err"] = json!(format!("panic: {}", panic_text(&p)));
                    o["chunk"] = json!({"k":"none"});
                    dead = Some("after-panic".to_string());
                }
            }
            o["w"] = json!(warn_names(&w));
        }
        outs.push(o);
    }
    if let Some(f) = failed {
        outs.push(f);
    }
    outs
}

fn data_chunk(kind: &str, got: &[u8], p: Option<&Payload>, a: &Value) -> Value {
    let (id, pad) = match p {
        Some(p) => {
            let n = p.raw.len();
            if got.len() >= n && got[..n] == p.raw[..] && got[n..].iter().all(|b| *b == 0) {
                (a["id"].as_i64().unwrap_or(0), (got.len() - n) as i64)
            } else {
                (-1, got.len() as i64 - n as i64)
            }
        }
        None => (-1, 0),
    };
    json!({"k":kind,"id":id,"pad":pad})
}

// ------------------------------------------------------------------ high level: DemoWriter / DemoReader

fn make_obj(ty: i64, id: i64, v: i64) -> Option<SnapObj> {
    let v32 = v as i32;
    Some(match ty {
        1 => SnapObj::Pickup(so::Pickup { x: 32 * id as i32 + v32, y: 7 - v32, type_: v32.rem_euclid(5), subtype: v32 }),
        2 => SnapObj::Flag(so::Flag { x: v32.wrapping_mul(3), y: -v32, team: v32.rem_euclid(2) }),
        3 => SnapObj::GameData(so::GameData { teamscore_red: v32, teamscore_blue: -v32, flag_carrier_red: (id % 100) as i32, flag_carrier_blue: 0 }),
        4 => SnapObj::DdnetPlayer(so::DdnetPlayer { flags: v32, auth_level: v32.rem_euclid(4) }),
        5 => SnapObj::MyOwnObject(so::MyOwnObject { test: v32 }),
        _ => return None,
    })
}
fn obj_back(o: &SnapObj, id: u16) -> Value {
    let (ty, v) = match o {
        SnapObj::Pickup(p) => (1, p.subtype as i64),
        SnapObj::Flag(f) => (2, -(f.y as i64)),
        SnapObj::GameData(g) => (3, g.teamscore_red as i64),
        SnapObj::DdnetPlayer(p) => (4, p.flags as i64),
        SnapObj::MyOwnObject(m) => (5, m.test as i64),
        _ => (-1, -1),
    };
    let same = make_obj(ty, id as i64, v).map(|m| m.obj_type_id() == o.obj_type_id() && m.encode() == o.encode()).unwrap_or(false);
    if same {
        json!({"ty":ty,"id":id,"v":v})
    } else {
        json!({"ty":ty,"id":id,"v":-1})
    }
}

const LONG_TEXT: &[u8] = b"Lorem ipsum dolor sit amet, consectetur adipiscing elit, sed do eiusmod tempor incididunt ut labore et dolore magna aliqua. Ut enim ad minim veniam, quis nostrud exercitation ullamco laboris nisi ut aliquip ex ea commodo consequat. Duis aute irure dolor in reprehenderit in voluptate velit esse cillum dolore eu fugiat nulla pariatur.";

fn make_msg(m: i64) -> Option<Game<'static>> {
    Some(match m {
        1 => Game::SvChat(gmsg::SvChat { team: 0, client_id: 3, message: b"hello" }),
        2 => Game::SvKillMsg(gmsg::SvKillMsg { killer: 1, victim: 2, weapon: 3, mode_special: 0 }),
        3 => Game::SvBroadcast(gmsg::SvBroadcast { message: LONG_TEXT }),
        4 => Game::SvMotd(gmsg::SvMotd { message: b"" }),
        5 => Game::SvChat(gmsg::SvChat { team: 1, client_id: 63, message: &LONG_TEXT[..30] }),
        6 => Game::SvReadyToEnter(gmsg::SvReadyToEnter),
        _ => {
            if m >= 100 && m < 100 + LONG_TEXT.len() as i64 {
                Game::SvBroadcast(gmsg::SvBroadcast { message: &LONG_TEXT[..(m - 100) as usize] })
            } else if m >= 100_000 && m < 300_000 {
                // a broadcast of (m - 100000) bytes: longer than the writer's 64 KiB buffer when large
                // one static text, allocated once (200 000 bytes), sliced to the requested length
                static LONG_A: std::sync::OnceLock<Vec<u8>> = std::sync::OnceLock::new();
                let text: &'static [u8] = &LONG_A.get_or_init(|| vec![b'a'; 200_000])[..(m - 100_000) as usize];
                Game::SvBroadcast(gmsg::SvBroadcast { message: text })
            } else {
                return None;
            }
        }
    })
}
fn msg_bytes(g: &Game) -> Vec<u8> {
    let mut buf: Vec<u8> = Vec::with_capacity(70_000);
    with_packer(&mut buf, |p| g.encode(p).map(|_| ())).expect("harness: message encode");
    buf
}

#[derive(Default)]
struct HiRead {
    file: Vec<Value>,
    read: Vec<Value>,
    w: Vec<String>,
}

/// Executes a high-level plan ([new, snap|msg ...]); returns the observed `out` per act.
fn exec_hi(plan: &[Value]) -> Vec<Value> {
    let mut outs: Vec<Value> = Vec::new();
    if plan.is_empty() {
        return outs;
    }
    let file = SharedFile::new(Vec::new());
    let w = catch_unwind(AssertUnwindSafe(|| {
        DemoWriter::<DDNet>::new(file.clone(), b"0.6 626fce9a778df4d4", b"dm1", Some(Sha256([7; 32])), 0xdead_beef, DemoKind::Server, 0, b"2026-01-01T00:00:00", b"")
    }));
    let mut writer = match w {
        Ok(Ok(w)) => w,
        Ok(Err(e)) => {
            outs.push(json!({"r":format!("err:{}", variant_name(&e))}));
            return outs;
        }
        Err(p) => {
            outs.push(panic_out(&p));
            return outs;
        }
    };
    outs.push(json!({"r":"ok"}));
    let mut ends: Vec<usize> = Vec::new(); // file length after each call
    let mut results: Vec<Value> = Vec::new();
    for a in &plan[1..] {
        let r = match a["a"].as_str().unwrap_or("") {
            "snap" => {
                let t = a["t"].as_i64().unwrap_or(0) as i32;
                let objs: Vec<(SnapObj, u16)> = a["world"]
                    .as_array()
                    .map(|w| {
                        w.iter()
                            .map(|o| {
                                let id = o["id"].as_i64().unwrap_or(0);
                                (make_obj(o["ty"].as_i64().unwrap_or(0), id, o["v"].as_i64().unwrap_or(0)).expect("harness: object type"), id as u16)
                            })
                            .collect()
                    })
                    .unwrap_or_default();
                catch_unwind(AssertUnwindSafe(|| writer.write_snap(t, objs.iter().map(|(o, id)| (o, *id)))))
            }
            "msg" => {
                let g = make_msg(a["m"].as_i64().unwrap_or(0)).expect("harness: message id");
                catch_unwind(AssertUnwindSafe(|| writer.write_msg(&g)))
            }
            other => panic!("harness: unknown high-level act {}", other),
        };
        ends.push(file.len());
        match r {
            Ok(Ok(())) => results.push(json!("ok")),
            Ok(Err(e)) => {
                let n = variant_name(&e);
                results.push(json!(if n == "TooLowTickNumber" { "refused".to_string() } else { format!("err:{}", n) }));
            }
            Err(p) => {
                results.push(panic_out(&p));
                break;
            }
        }
    }
    drop(writer);
    let bytes = file.contents();
    let ncalls = results.len();
    let mut per: Vec<HiRead> = (0..ncalls).map(|_| HiRead::default()).collect();
    let call_of = |pos: usize| -> usize {
        // the call whose segment ends at or after pos
        ends.iter().position(|e| pos <= *e).unwrap_or(ncalls.saturating_sub(1))
    };
    // (1) the file as the raw reader sees it
    {
        let rf = SharedFile::new(bytes.clone());
        let mut w: Vec<libtw2_demo::Warning> = Vec::new();
        if let Ok(Ok(mut r)) = catch_unwind(AssertUnwindSafe(|| Reader::new(rf.clone(), &mut w))) {
            loop {
                let mut w: Vec<libtw2_demo::Warning> = Vec::new();
                let res = catch_unwind(AssertUnwindSafe(|| {
                    r.read_chunk(&mut w).map(|c| {
                        c.map(|c| match c {
                            RawChunk::Tick { tick, keyframe } => json!({"k":"tick","t":tick,"kf":keyframe}),
                            RawChunk::Snapshot(_) => json!({"k":"snapshot"}),
                            RawChunk::SnapshotDelta(_) => json!({"k":"delta"}),
                            RawChunk::Message(_) => json!({"k":"message"}),
                            RawChunk::Unknown => json!({"k":"unknown"}),
                        })
                    })
                }));
                if ncalls == 0 {
                    break;
                }
                let i = call_of(rf.pos());
                match res {
                    Ok(Ok(Some(c))) => per[i].file.push(c),
                    Ok(Ok(None)) => break,
                    Ok(Err(e)) => {
                        per[i].file.push(json!({"k":"error","e":variant_name(&e)}));
                        break;
                    }
                    Err(p) => {
                        per[i].file.push(json!({"k":"panic","e":panic_text(&p)}));
                        break;
                    }
                }
            }
        }
    }
    // (2) the typed reader
    {
        let rf = SharedFile::new(bytes.clone());
        let mut w0: Vec<libtw2_demo::ddnet::Warning> = Vec::new();
        match catch_unwind(AssertUnwindSafe(|| DemoReader::<DDNet>::new(rf.clone(), &mut w0))) {
            Ok(Ok(mut r)) => loop {
                if ncalls == 0 {
                    break;
                }
                let mut w: Vec<libtw2_demo::ddnet::Warning> = Vec::new();
                let res = catch_unwind(AssertUnwindSafe(|| {
                    r.next_chunk(&mut w).map(|c| {
                        c.map(|c| match c {
                            Chunk::Tick(t) => json!({"k":"tick","t":t}),
                            Chunk::Snapshot(it) => {
                                let objs: Vec<Value> = it.map(|(o, id)| obj_back(o, *id)).collect();
                                json!({"k":"snap","world":objs})
                            }
                            Chunk::Message(m) => {
                                let b = msg_bytes(&m);
                                json!({"k":"msg","bytes":b})
                            }
                            Chunk::Invalid => json!({"k":"invalid"}),
                        })
                    })
                }));
                let i = call_of(rf.pos());
                per[i].w.extend(w.iter().map(|x| format!("{:?}", x)));
                match res {
                    Ok(Ok(Some(mut c))) => {
                        if c["k"] == "msg" {
                            // identify the message by its encoding
                            let want = plan.get(1 + i).and_then(|a| a["m"].as_i64());
                            let got = bytes_of(&c["bytes"]);
                            let m = match want.and_then(make_msg) {
                                Some(g) if msg_bytes(&g) == got => want.unwrap(),
                                _ => -1,
                            };
                            c = json!({"k":"msg","m":m});
                        }
                        per[i].read.push(c)
                    }
                    Ok(Ok(None)) => break,
                    Ok(Err(e)) => {
                        per[i].read.push(json!({"k":"error","e":variant_name(&e)}));
                        break;
                    }
                    Err(p) => {
                        per[i].read.push(json!({"k":"panic","e":panic_text(&p)}));
                        break;
                    }
                }
            },
            Ok(Err(e)) => {
                if ncalls > 0 {
                    per[0].read.push(json!({"k":"error","e":variant_name(&e)}));
                }
            }
            Err(p) => {
                if ncalls > 0 {
                    per[0].read.push(json!({"k":"panic","e":panic_text(&p)}));
                }
            }
        }
    }
    for (i, r) in results.into_iter().enumerate() {
        if r.is_object() {
            outs.push(r); // panic
            break;
        }
        let mut w = per[i].w.clone();
        w.sort();
        w.dedup();
        outs.push(json!({"r": r, "file": per[i].file, "read": per[i].read, "w": w}));
    }
    outs
}

fn bytes_of(v: &Value) -> Vec<u8> {
    v.as_array().map(|a| a.iter().map(|x| x.as_u64().unwrap_or(0) as u8).collect()).unwrap_or_default()
}

// ------------------------------------------------------------------ graph walk (direction A)

struct Edge {
    act: Value,
    out: Value,
    to: usize,
}
struct Graph {
    ids: HashMap<String, usize>,
    edges: Vec<Vec<Edge>>,
}
impl Graph {
    fn node(&mut self, st: &Value) -> usize {
        let key = vh_common::canon(st);
        if let Some(i) = self.ids.get(&key) {
            return *i;
        }
        let i = self.edges.len();
        self.ids.insert(key, i);
        self.edges.push(Vec::new());
        i
    }
}

/// canonical form for comparison: sets exported by TLC come as arrays in arbitrary order
fn norm(v: &Value, key: &str) -> Value {
    match v {
        Value::Array(a) => {
            let mut items: Vec<Value> = a.iter().map(|x| norm(x, "")).collect();
            if key == "w" || key == "world" || key == "del" || key == "upd" {
                items.sort_by_key(|x| vh_common::canon(x));
            }
            Value::Array(items)
        }
        Value::Object(m) => Value::Object(m.iter().map(|(k, x)| (k.clone(), norm(x, k))).collect()),
        other => other.clone(),
    }
}

fn first_diff(spec: &Value, obs: &Value) -> String {
    if let (Some(s), Some(o)) = (spec.as_object(), obs.as_object()) {
        for (k, sv) in s {
            if o.get(k) != Some(sv) {
                return k.clone();
            }
        }
        for k in o.keys() {
            if !s.contains_key(k) {
                return k.clone();
            }
        }
    }
    "?".to_string()
}

fn class_of(level: &str, act: &Value, exp: &Value, _prev: Option<&Value>) -> String {
    match (level, act["a"].as_str().unwrap_or("")) {
        ("lo", "tick") => {
            let hl = exp["h"].as_array().map(|h| h.len()).unwrap_or(0);
            format!("{}{}", if hl == 1 { "inline" } else { "absolute" }, if act["kf"].as_bool().unwrap_or(false) { "-keyframe" } else { "" })
        }
        ("lo", "data") => {
            let s = act["csize"].as_u64().unwrap_or(0);
            let w = act["w"].as_u64().unwrap_or(0);
            let wide = if w > 0 { format!("-width{}-{}", (w - 1) / 3 + 1, ["fill-max", "random-max", "random-1000"][((w - 1) % 3) as usize]) } else { String::new() };
            format!("{}-{}{}", act["kind"].as_str().unwrap_or(""), if s < 30 { "size<30" } else if s <= 255 { "size<=255" } else { "size>255" }, wide)
        }
        ("hi", "snap") => {
            let r = exp["r"].as_str().unwrap_or("");
            if r == "refused" {
                let same = exp.get("same_tick").and_then(|x| x.as_bool()).unwrap_or(false);
                format!("refused{}", if same { "-same-tick" } else { "" })
            } else {
                format!("ok-{}", exp["file"][1]["k"].as_str().unwrap_or(""))
            }
        }
        (_, other) => other.to_string(),
    }
}

struct Summary {
    paths: u64,
    steps: u64,
    nontrivial: u64,
    mismatch_count: u64,
    mismatch_keys: BTreeMap<String, u64>,
    mismatches: Vec<Value>,
    samples: Vec<Value>,
    covered: u64,
    drift_count: u64,
    drift_keys: BTreeMap<String, u64>,
    drift_examples: Vec<Value>,
}

fn cmd_graph(level: &str, args: &[String]) {
    let mut depth = 3usize;
    let mut report = 40usize;
    let mut threads = 1usize;
    let mut i = 0;
    while i < args.len() {
        match args[i].as_str() {
            "--depth" => {
                depth = args[i + 1].parse().unwrap();
                i += 1;
            }
            "--report" => {
                report = args[i + 1].parse().unwrap();
                i += 1;
            }
            "--threads" => {
                threads = args[i + 1].parse().unwrap();
                i += 1;
            }
            _ => {}
        }
        i += 1;
    }
    let mut g = Graph { ids: HashMap::new(), edges: Vec::new() };
    let mut cur: Option<usize> = None;
    let mut first: Option<usize> = None;
    let mut nedges = 0u64;
    let mut tlc_tail: Vec<String> = Vec::new();
    let stdin = io::stdin();
    for line in stdin.lock().lines() {
        let line = match line {
            Ok(l) => l,
            Err(_) => break,
        };
        if !line.starts_with("<<") {
            if !line.trim().is_empty() {
                tlc_tail.push(line);
                if tlc_tail.len() > 60 {
                    tlc_tail.remove(0);
                }
            }
            continue;
        }
        let t = match vh_common::parse_tlc_tuple(&line) {
            Some(t) => t,
            None => continue,
        };
        if t[0] == "S" && t.len() == 2 {
            let st: Value = serde_json::from_str(&t[1]).expect("state json");
            let n = g.node(&st);
            if first.is_none() {
                first = Some(n);
            }
            cur = Some(n);
        } else if t[0] == "T" && t.len() == 4 {
            let act: Value = serde_json::from_str(&t[1]).expect("act json");
            let out: Value = norm(&serde_json::from_str(&t[2]).expect("out json"), "");
            let st: Value = serde_json::from_str(&t[3]).expect("state json");
            let to = g.node(&st);
            let from = cur.expect("T before S");
            g.edges[from].push(Edge { act, out, to });
            nedges += 1;
        }
    }
    let mut summary = json!({"states": g.edges.len(), "edges": nedges, "tlc_tail": tlc_tail, "depth": depth});
    let root = match first {
        Some(r) => r,
        None => {
            summary["error"] = json!("empty export");
            println!("{}", summary);
            return;
        }
    };
    let covered: Vec<Vec<AtomicBool>> = g.edges.iter().map(|e| e.iter().map(|_| AtomicBool::new(false)).collect()).collect();
    // depth-first over all paths; leaves are executed
    fn dfs(g: &Graph, node: usize, d: usize, depth: usize, path: &mut Vec<(usize, usize)>, level: &str, ps: &mut Payloads,
           s: &mut Summary, covered: &Vec<Vec<AtomicBool>>, report: usize) {
        let leaf = g.edges[node].is_empty() || (d >= depth && !path.is_empty());
        if leaf {
            if path.is_empty() {
                return;
            }
            let plan: Vec<Value> = path.iter().map(|(n, j)| g.edges[*n][*j].act.clone()).collect();
            let obs = if level == "lo" { exec_lo(&plan, ps) } else { exec_hi(&plan) };
            s.paths += 1;
            s.steps += plan.len() as u64;
            if path.len() >= 3 {
                s.nontrivial += 1;
            }
            for (n, j) in path.iter() {
                if !covered[*n][*j].swap(true, Ordering::Relaxed) {
                    s.covered += 1;
                }
            }
            if s.samples.len() < 2 && s.paths % 211 == 7 {
                s.samples.push(json!({"plan": plan, "observed": obs}));
            }
            for (i, (n, j)) in path.iter().enumerate() {
                let e = &g.edges[*n][*j];
                let o = obs.get(i).map(|o| norm(o, "")).unwrap_or(json!({"r":"missing"}));
                if o != e.out {
                    // a difference only in the detailed field (header bytes / low-level chunk kinds) is
                    // judged by TLC afterwards (property level): candidate drift
                    let detailed = if level == "lo" { "h" } else { "file" };
                    let only_detailed = match (o.as_object(), e.out.as_object()) {
                        (Some(a), Some(b)) => a.len() == b.len() && b.iter().all(|(k, v)| k == detailed || a.get(k) == Some(v)),
                        _ => false,
                    };
                    if only_detailed {
                        s.drift_count += 1;
                        let key = format!("{}:{}:{}", level, e.act["a"].as_str().unwrap_or(""), class_of(level, &e.act, &e.out, None));
                        let c = s.drift_keys.entry(key.clone()).or_insert(0);
                        *c += 1;
                        if *c == 1 && s.drift_examples.len() < 8 {
                            s.drift_examples.push(json!({"key": key, "plan": plan, "step": i, "expected": e.out, "observed": o}));
                        }
                        continue;
                    }
                    s.mismatch_count += 1;
                    let what = if o["r"] == "panic" { "panic".to_string() } else if o["r"] != e.out["r"] { format!("r={}", o["r"].as_str().unwrap_or("?")) } else { format!("field={}", first_diff(&e.out, &o)) };
                    let mut key = format!("{}:{}:{}:{}", level, what, e.act["a"].as_str().unwrap_or(""), class_of(level, &e.act, &e.out, path.get(i.wrapping_sub(1)).map(|(n, j)| &g.edges[*n][*j].act)));
                    if o["r"] == "panic" {
                        key = format!("{}:at={}", key, o["loc"].as_str().unwrap_or(""));
                    }
                    let c = s.mismatch_keys.entry(key.clone()).or_insert(0);
                    *c += 1;
                    let rec = json!({"key": key, "plan": &plan[..=i.min(plan.len() - 1)], "step": i, "act": e.act, "expected": e.out, "observed": o});
                    match s.mismatches.iter_mut().find(|m| m["key"] == key.as_str()) {
                        Some(m) => {
                            if m["plan"].as_array().map(|p| p.len()).unwrap_or(0) > i + 1 {
                                *m = rec;
                            }
                        }
                        None => {
                            if s.mismatches.len() < report {
                                s.mismatches.push(rec);
                            }
                        }
                    }
                    break; // later steps of this path are judged on other paths
                }
            }
            return;
        }
        for j in 0..g.edges[node].len() {
            path.push((node, j));
            let nd = if path.len() == 1 { 0 } else { d + 1 };
            dfs(g, g.edges[node][j].to, nd, depth, path, level, ps, s, covered, report);
            path.pop();
        }
    }
    // tasks: the first two edges of a path
    let mut tasks: Vec<Vec<(usize, usize)>> = Vec::new();
    for (j, e) in g.edges[root].iter().enumerate() {
        if g.edges[e.to].is_empty() || depth == 0 {
            tasks.push(vec![(root, j)]);
        }
        for k in 0..g.edges[e.to].len() {
            if depth >= 1 {
                tasks.push(vec![(root, j), (e.to, k)]);
            }
        }
    }
    let next = AtomicUsize::new(0);
    let (gref, cref, tref, nref) = (&g, &covered, &tasks, &next);
    let mut parts: Vec<Summary> = Vec::new();
    std::thread::scope(|sc| {
        let hs: Vec<_> = (0..threads.max(1))
            .map(|_| {
                sc.spawn(move || {
                    let mut ps = Payloads::new();
                    let mut s = Summary { paths: 0, steps: 0, nontrivial: 0, mismatch_count: 0, mismatch_keys: BTreeMap::new(), mismatches: Vec::new(), samples: Vec::new(), covered: 0, drift_count: 0, drift_keys: BTreeMap::new(), drift_examples: Vec::new() };
                    loop {
                        let t = nref.fetch_add(1, Ordering::Relaxed);
                        if t >= tref.len() {
                            break;
                        }
                        let mut path = tref[t].clone();
                        let (n, j) = *path.last().unwrap();
                        let d = path.len() - 1;
                        dfs(gref, gref.edges[n][j].to, d, depth, &mut path, level, &mut ps, &mut s, cref, report);
                    }
                    s
                })
            })
            .collect();
        for h in hs {
            parts.push(h.join().expect("walker thread"));
        }
    });
    let mut s = Summary { paths: 0, steps: 0, nontrivial: 0, mismatch_count: 0, mismatch_keys: BTreeMap::new(), mismatches: Vec::new(), samples: Vec::new(), covered: 0, drift_count: 0, drift_keys: BTreeMap::new(), drift_examples: Vec::new() };
    for p in parts {
        s.paths += p.paths;
        s.steps += p.steps;
        s.nontrivial += p.nontrivial;
        s.mismatch_count += p.mismatch_count;
        s.covered += p.covered;
        for (k, v) in p.mismatch_keys {
            *s.mismatch_keys.entry(k).or_insert(0) += v;
        }
        for m in p.mismatches {
            match s.mismatches.iter_mut().find(|x| x["key"] == m["key"]) {
                Some(x) => {
                    if x["plan"].as_array().map(|p| p.len()).unwrap_or(0) > m["plan"].as_array().map(|p| p.len()).unwrap_or(0) {
                        *x = m;
                    }
                }
                None => s.mismatches.push(m),
            }
        }
        for x in p.samples {
            if s.samples.len() < 3 {
                s.samples.push(x);
            }
        }
        s.drift_count += p.drift_count;
        for (k, v) in p.drift_keys {
            *s.drift_keys.entry(k).or_insert(0) += v;
        }
        for x in p.drift_examples {
            if !s.drift_examples.iter().any(|y| y["key"] == x["key"]) && s.drift_examples.len() < 8 {
                s.drift_examples.push(x);
            }
        }
    }
    s.mismatches.truncate(report);
    summary["paths"] = json!(s.paths);
    summary["steps"] = json!(s.steps);
    summary["nontrivial_paths"] = json!(s.nontrivial);
    summary["edges_covered"] = json!(s.covered);
    summary["mismatch_count"] = json!(s.mismatch_count);
    summary["mismatch_keys"] = json!(s.mismatch_keys);
    summary["mismatches"] = json!(s.mismatches);
    summary["samples"] = json!(s.samples);
    summary["drift_count"] = json!(s.drift_count);
    summary["drift_keys"] = json!(s.drift_keys);
    summary["drift_examples"] = json!(s.drift_examples);
    println!("{}", summary);
}


// ------------------------------------------------------------------ payload library for DemoFile.tla

/// stdin: one JSON object per line: {"name":..,"raw":[..]} (bytes handed to Huffman), {"name":..,"msg":[..]} (message bytes:
/// packed in 4-byte groups, then Huffman) or {"name":..,"comp":[..]} (compressed bytes as found in a file).
/// stdout: per line the compressed bytes, what they decompress to and what the message unpacking makes of that --
/// computed with the huffman / packer crates only (not with the demo crate).
fn cmd_lib() {
    let stdin = io::stdin();
    for line in stdin.lock().lines() {
        let line = match line { Ok(l) => l, Err(_) => break };
        if line.trim().is_empty() { continue; }
        let v: Value = serde_json::from_str(&line).expect("lib json");
        let comp: Vec<u8> = if v.get("comp").is_some() {
            bytes_of(&v["comp"])
        } else if v.get("msg").is_some() {
            HUFFMAN.compress_into_vec(&msg_prep(&bytes_of(&v["msg"])).expect("packable"))
        } else if let Some(n) = v.get("csize").and_then(|x| x.as_u64()) {
            find_payload("snapshot", n as usize, 0).map(|p| p.comp.clone()).unwrap_or_default()
        } else {
            HUFFMAN.compress_into_vec(&bytes_of(&v["raw"]))
        };
        let mut out: Vec<u8> = Vec::with_capacity(65536);
        let (hok, raw) = match HUFFMAN.decompress(&comp, &mut out) {
            Ok(_) => (true, out.clone()),
            Err(_) => (false, Vec::new()),
        };
        // message unpacking as documented: variable-length integers -> 4-byte little-endian groups
        let mut mok = "ok";
        let mut msg: Vec<u8> = Vec::new();
        let mut mw: Vec<libtw2_packer::Warning> = Vec::new();
        if hok {
            let mut u = libtw2_packer::Unpacker::new(&raw);
            while !u.is_empty() {
                match u.read_int(&mut mw) {
                    Ok(n) => {
                        if msg.len() + 4 > 65536 { mok = "MessageVarIntTooLong"; break; }
                        msg.extend_from_slice(&n.to_le_bytes());
                    }
                    Err(_) => { mok = "MessageVarIntUnexpectedEnd"; break; }
                }
            }
        }
        println!("{}", json!({"name": v["name"], "comp": comp, "hok": hok, "raw": raw, "mok": mok, "msg": if mok == "ok" { msg } else { Vec::new() },
            "mw": warn_names(&mw)}));
    }
}


// ------------------------------------------------------------------ file level (DemoFile.tla)

fn read_error_class(e: &libtw2_demo::ReadError) -> String {
    use libtw2_demo::ReadError as E;
    match e {
        E::Io(io) => if io.kind() == io::ErrorKind::UnexpectedEof { "eof".to_string() } else { "io".to_string() },
        E::Binrw(b) => if b.is_eof() { "eof".to_string() } else { "bad".to_string() },
        other => variant_name(other),
    }
}
fn be4(x: u32) -> Vec<u8> {
    x.to_be_bytes().to_vec()
}

/// Reads `bytes` with the real Reader through the given source; everything it reports, in the vocabulary of
/// DemoFile!ReadFile. `typed`: how far DemoReader gets on the same bytes (only "ok" / "err" / "panic" / "hang").
fn read_file(bytes: &[u8], pol: u64, barrier: u64) -> Value {
    let rfile = SharedFile::new(bytes.to_vec());
    let rpos = IoPos::new();
    let mut warns: Vec<libtw2_demo::Warning> = Vec::new();
    let src = if pol == 7 { Source::with_barrier(rfile.clone(), barrier, rpos.clone()) } else { Source::new(rfile.clone(), pol, rpos.clone()) };
    let rd = catch_unwind(AssertUnwindSafe(|| Reader::new(src, &mut warns)));
    let mut out = json!({"r":"ok"});
    let mut reader = match rd {
        Ok(Ok(r)) => {
            out["hdr"] = json!({"ok": true, "err": "none", "off": rpos.get(), "w": warn_names(&warns), "io": false,
                "h": {"version": r.version() as u8, "nv": r.net_version(), "mn": r.map_name(), "ts": r.timestamp(),
                      "mapsize": r.map_size(), "crc": be4(r.map_crc()), "kind": kind_name(r.kind()), "length": r.length(),
                      "marks": r.timeline_markers(), "sha": r.map_sha256().map(|s| s.0.to_vec()).unwrap_or_default(),
                      "map": r.map_data()}});
            Some(r)
        }
        Ok(Err(e)) => {
            let class = read_error_class(&e);
            let io = e.io_error().is_ok();
            out["hdr"] = json!({"ok": false, "err": class, "off": 0, "w": [], "io": io, "h": {"version": 0}});
            None
        }
        Err(p) => return json!({"r":"panic","msg":panic_text(&p),"loc":last_panic_location(),"at":"Reader::new"}),
    };
    let mut items: Vec<Value> = Vec::new();
    let mut end = json!({"r":"nohdr","e":out["hdr"]["err"],"w":[],"io":out["hdr"]["io"]});
    if let Some(r) = reader.as_mut() {
        loop {
            if items.len() > bytes.len() + 8 {
                // every chunk takes at least one byte of the file
                return json!({"r":"hang","at":"read_chunk returns more chunks than the file has bytes"});
            }
            let mut w: Vec<libtw2_demo::Warning> = Vec::new();
            let res = catch_unwind(AssertUnwindSafe(|| {
                r.read_chunk(&mut w).map(|c| {
                    c.map(|c| match c {
                        RawChunk::Tick { tick, keyframe } => json!({"k":"tick","t":tick,"kf":keyframe,"data":[]}),
                        RawChunk::Snapshot(d) => json!({"k":"snapshot","t":0,"kf":false,"data":&d[..]}),
                        RawChunk::SnapshotDelta(d) => json!({"k":"delta","t":0,"kf":false,"data":&d[..]}),
                        RawChunk::Message(d) => json!({"k":"message","t":0,"kf":false,"data":d}),
                        RawChunk::Unknown => json!({"k":"unknown","t":0,"kf":false,"data":[]}),
                    })
                })
            }));
            match res {
                Ok(Ok(Some(mut c))) => {
                    c["w"] = json!(warn_names(&w));
                    items.push(c);
                }
                Ok(Ok(None)) => {
                    end = json!({"r":"end","e":"none","w":warn_names(&w),"io":false});
                    break;
                }
                Ok(Err(e)) => {
                    let class = read_error_class(&e);
                    let io = e.io_error().is_ok();
                    end = json!({"r":"err","e":class,"w":warn_names(&w),"io":io});
                    break;
                }
                Err(p) => return json!({"r":"panic","msg":panic_text(&p),"loc":last_panic_location(),"at":"read_chunk","after":items.len()}),
            }
        }
    }
    drop(reader);
    out["items"] = json!(items);
    out["end"] = end;
    // the typed reader on the same bytes
    let tf = SharedFile::new(bytes.to_vec());
    let mut w0: Vec<libtw2_demo::ddnet::Warning> = Vec::new();
    let typed = match catch_unwind(AssertUnwindSafe(|| DemoReader::<DDNet>::new(tf.clone(), &mut w0))) {
        Ok(Ok(mut r)) => {
            let mut n = 0usize;
            loop {
                n += 1;
                if n > bytes.len() + 8 {
                    break "hang";
                }
                let mut w: Vec<libtw2_demo::ddnet::Warning> = Vec::new();
                match catch_unwind(AssertUnwindSafe(|| r.next_chunk(&mut w).map(|c| c.map(|c| match c {
                    Chunk::Snapshot(it) => it.count(),
                    _ => 0,
                })))) {
                    Ok(Ok(Some(_))) => {}
                    Ok(Ok(None)) => break "ok",
                    Ok(Err(_)) => break "err",
                    Err(_) => break "panic",
                }
            }
        }
        Ok(Err(_)) => "err",
        Err(_) => "panic",
    };
    out["typed"] = json!(typed);
    if typed == "panic" {
        out["typed_loc"] = json!(last_panic_location());
    }
    out
}

/// what the compressed bytes of a payload mean (huffman / packer crates only): (hok, raw, mok, msg, mw)
fn payload_meaning(comp: &[u8]) -> Value {
    let mut out: Vec<u8> = Vec::with_capacity(65536);
    let (hok, raw) = match HUFFMAN.decompress(comp, &mut out) {
        Ok(_) => (true, out.clone()),
        Err(_) => (false, Vec::new()),
    };
    let mut mok = "ok";
    let mut msg: Vec<u8> = Vec::new();
    let mut mw: Vec<libtw2_packer::Warning> = Vec::new();
    if hok {
        let mut u = libtw2_packer::Unpacker::new(&raw);
        while !u.is_empty() {
            match u.read_int(&mut mw) {
                Ok(n) => {
                    if msg.len() + 4 > 65536 {
                        mok = "MessageVarIntTooLong";
                        break;
                    }
                    msg.extend_from_slice(&n.to_le_bytes());
                }
                Err(_) => {
                    mok = "MessageVarIntUnexpectedEnd";
                    break;
                }
            }
        }
    }
    let mw: Vec<String> = warn_names(&mw).into_iter().map(|w| format!("Message({})", w)).collect();
    json!({"comp": comp, "hok": hok, "raw": raw, "mok": mok, "msg": if mok == "ok" { msg } else { Vec::new() }, "mw": mw})
}

/// Writes the recording (H, cs) of DemoFile.tla with the real Writer; returns {"r":"ok","bytes":[..]}.
/// Payloads are handed over uncompressed (what `comp` decompresses to; messages as their 4-byte groups).
fn write_file(h: &Value, cs: &[Value], via_chunk: bool, pol: u64) -> Value {
    let file = SharedFile::new(Vec::new());
    let wpos = IoPos::new();
    let sha = if h["version"].as_u64() == Some(6) {
        let b = bytes_of(&h["sha"]);
        let mut a = [0u8; 32];
        a.copy_from_slice(&b[..32]);
        Some(Sha256(a))
    } else {
        None
    };
    let crc = { let b = bytes_of(&h["crc"]); u32::from_be_bytes([b[0], b[1], b[2], b[3]]) };
    let kind = if h["kind"] == "server" { DemoKind::Server } else { DemoKind::Client };
    let (nv, mn, ts, map) = (bytes_of(&h["nv"]), bytes_of(&h["mn"]), bytes_of(&h["ts"]), bytes_of(&h["map"]));
    let length = h["length"].as_i64().unwrap_or(0) as i32;
    let w = catch_unwind(AssertUnwindSafe(|| Writer::new(Sink::new(file.clone(), pol, wpos.clone()), &nv, &mn, sha, crc, kind, length, &ts, &map)));
    let mut writer = match w {
        Ok(Ok(w)) => w,
        Ok(Err(e)) => return json!({"r":"err","e":variant_name(&e),"bytes":[]}),
        Err(p) => return json!({"r":"panic","msg":panic_text(&p),"loc":last_panic_location(),"bytes":[]}),
    };
    for c in cs {
        let k = c["k"].as_str().unwrap_or("");
        let r = if k == "tick" {
            let (t, kf) = (c["t"].as_i64().unwrap_or(0) as i32, c["kf"].as_bool().unwrap_or(false));
            if via_chunk {
                catch_unwind(AssertUnwindSafe(|| writer.write_chunk(RawChunk::Tick { tick: t, keyframe: kf })))
            } else {
                catch_unwind(AssertUnwindSafe(|| writer.write_tick(kf, t)))
            }
        } else {
            let m = payload_meaning(&bytes_of(&c["comp"]));
            let raw = bytes_of(if k == "message" { &m["msg"] } else { &m["raw"] });
            if via_chunk {
                let mut av: Box<arrayvec::ArrayVec<[u8; 65536]>> = Box::new(arrayvec::ArrayVec::new());
                if k != "message" {
                    av.try_extend_from_slice(&raw).expect("harness: payload fits");
                }
                catch_unwind(AssertUnwindSafe(|| match k {
                    "snapshot" => writer.write_chunk(RawChunk::Snapshot(&av)),
                    "delta" => writer.write_chunk(RawChunk::SnapshotDelta(&av)),
                    _ => writer.write_chunk(RawChunk::Message(&raw)),
                }))
            } else {
                catch_unwind(AssertUnwindSafe(|| match k {
                    "snapshot" => writer.write_snapshot(&raw),
                    "delta" => writer.write_snapshot_delta(&raw),
                    _ => writer.write_message(&raw),
                }))
            }
        };
        match r {
            Ok(Ok(())) => {}
            Ok(Err(e)) => return json!({"r":"err","e":variant_name(&e),"bytes":file.contents()}),
            Err(p) => return json!({"r":"panic","msg":panic_text(&p),"loc":last_panic_location(),"bytes":file.contents()}),
        }
    }
    drop(writer);
    json!({"r":"ok","bytes":file.contents()})
}

/// stdin: TLC output of MC_DemoFile (lines <<"F", json>>); --out <path>: NDJSON events for DemoFileTrace;
/// stdout: one JSON summary.
fn cmd_files(args: &[String]) {
    let mut outp = String::new();
    let mut i = 0;
    while i < args.len() {
        if args[i] == "--out" {
            outp = args[i + 1].clone();
            i += 1;
        }
        i += 1;
    }
    let mut out = io::BufWriter::new(std::fs::File::create(&outp).expect("trace file"));
    let mut tlc_tail: Vec<String> = Vec::new();
    let (mut ncases, mut nwrites, mut nevents) = (0u64, 0u64, 0u64);
    let mut classes: BTreeMap<String, u64> = BTreeMap::new();
    let stdin = io::stdin();
    for line in stdin.lock().lines() {
        let line = match line { Ok(l) => l, Err(_) => break };
        if !line.starts_with("<<") {
            if !line.trim().is_empty() {
                tlc_tail.push(line);
                if tlc_tail.len() > 80 {
                    tlc_tail.remove(0);
                }
            }
            continue;
        }
        let t = match vh_common::parse_tlc_tuple(&line) { Some(t) => t, None => continue };
        if t[0] != "F" || t.len() != 2 {
            continue;
        }
        let c: Value = serde_json::from_str(&t[1]).expect("case json");
        let bytes = bytes_of(&c["bytes"]);
        let (pol, p) = (c["id"]["src"]["pol"].as_u64().unwrap_or(0), c["id"]["src"]["p"].as_u64().unwrap_or(0));
        vh_common::set_case(&c["id"].to_string());
        vh_common::arm(120_000);
        let o = read_file(&bytes, pol, p);
        vh_common::disarm();
        ncases += 1;
        nevents += 1;
        *classes.entry(format!("v{}-{}-{}", c["id"]["v"], c["id"]["mut"]["m"].as_str().unwrap_or(""), o["end"]["e"].as_str().unwrap_or(o["r"].as_str().unwrap_or("")))).or_insert(0) += 1;
        let _ = writeln!(out, "{}", json!({"act": {"a":"file","id":c["id"],"bytes":bytes,"src":c["id"]["src"]}, "out": o}));
        // the recording through the real writer: both entry points, three kinds of sink
        if c["writable"].as_bool().unwrap_or(false) && pol == 0 {
            let cs: Vec<Value> = c["cs"].as_array().cloned().unwrap_or_default();
            for (via, spol) in [(false, 0u64), (true, 1), (false, 4), (true, 5)] {
                vh_common::arm(120_000);
                let o = write_file(&c["H"], &cs, via, spol);
                vh_common::disarm();
                nwrites += 1;
                nevents += 1;
                let _ = writeln!(out, "{}", json!({"act": {"a":"write","id":c["id"],"H":c["H"],"cs":cs,"via":if via {"chunk"} else {"fn"},"src":spol}, "out": o}));
            }
        }
    }
    let _ = out.flush();
    println!("{}", json!({"cases": ncases, "writes": nwrites, "events": nevents, "classes": classes, "tlc_tail": tlc_tail}));
}


/// stdin: NDJSON events (or bare acts) of the file level; re-executes each act, prints the events with fresh `out`.
fn cmd_refile() {
    let stdin = io::stdin();
    for line in stdin.lock().lines() {
        let line = match line { Ok(l) => l, Err(_) => break };
        if line.trim().is_empty() {
            continue;
        }
        let v: Value = serde_json::from_str(&line).expect("event json");
        let a = if v.get("act").is_some() { v["act"].clone() } else { v };
        vh_common::set_case(&a["id"].to_string());
        vh_common::arm(120_000);
        let o = if a["a"] == "write" {
            let cs: Vec<Value> = a["cs"].as_array().cloned().unwrap_or_default();
            write_file(&a["H"], &cs, a["via"] == "chunk", a["src"].as_u64().unwrap_or(0))
        } else {
            read_file(&bytes_of(&a["bytes"]), a["src"]["pol"].as_u64().unwrap_or(0), a["src"]["p"].as_u64().unwrap_or(0))
        };
        vh_common::disarm();
        println!("{}", json!({"act": a, "out": o}));
    }
}

// ------------------------------------------------------------------ run / drive

fn print_events(plan: &[Value], outs: &[Value]) {
    let out = io::stdout();
    let mut out = out.lock();
    for (a, o) in plan.iter().zip(outs.iter()) {
        let _ = writeln!(out, "{}", json!({"act": a, "out": o}));
    }
}

fn cmd_run(level: &str) {
    let mut ps = Payloads::new();
    let stdin = io::stdin();
    for line in stdin.lock().lines() {
        let line = match line {
            Ok(l) => l,
            Err(_) => break,
        };
        if line.trim().is_empty() {
            continue;
        }
        let v: Value = serde_json::from_str(&line).expect("plan json");
        let plan: Vec<Value> = v.as_array().expect("plan array").clone();
        let outs = if level == "lo" { exec_lo(&plan, &mut ps) } else { exec_hi(&plan) };
        print_events(&plan, &outs);
    }
}

fn cmd_drive(level: &str, args: &[String]) {
    let seed: u64 = args[0].parse().unwrap();
    let runs: usize = args[1].parse().unwrap();
    let n: usize = args[2].parse().unwrap();
    let mut ps = Payloads::new();
    for r in 0..runs {
        let mut rng = StdRng::seed_from_u64(seed.wrapping_mul(7_000_003).wrapping_add(r as u64));
        let mut plan: Vec<Value> = Vec::new();
        if level == "lo" {
            let sha = rng.gen_bool(0.5);
            plan.push(json!({"a":"new","nv":rng.gen_range(0..64),"mn":rng.gen_range(0..64),"ts":rng.gen_range(0..20),
                "kind": if rng.gen_bool(0.5) {"client"} else {"server"}, "sha": sha, "map": rng.gen_range(0..2000),
                "crc": rng.gen_range(0..i32::MAX), "length": rng.gen_range(0..i32::MAX),
                "src": rng.gen_range(0..7), "mode": 3}));
            let mut t: i64 = match rng.gen_range(0..4) { 0 => 0, 1 => rng.gen_range(-1000..1000), 2 => i32::MIN as i64, _ => rng.gen_range(0..2_000_000_000) };
            let mut has = false;
            let mut id = 0;
            for _ in 0..n {
                id += 1;
                if rng.gen_range(0..3) == 0 {
                    let gap: i64 = match rng.gen_range(0..8) { 0 => 1, 1 => 31, 2 => 32, 3 => rng.gen_range(1..32), 4 => rng.gen_range(32..400), 5 => 250, 6 => rng.gen_range(1..100_000), _ => rng.gen_range(1..40) };
                    let nt = if has { t + gap } else { t };
                    if nt > i32::MAX as i64 {
                        continue;
                    }
                    t = nt;
                    has = true;
                    plan.push(json!({"a":"tick","t":t,"kf":rng.gen_range(0..4)==0,"via":if rng.gen_bool(0.5) {"fn"} else {"chunk"}}));
                } else {
                    let kind = ["snapshot", "delta", "message"][rng.gen_range(0..3)];
                    let csize: usize = match rng.gen_range(0..10) { 0 => 29, 1 => 30, 2 => 255, 3 => 256, 4 => rng.gen_range(1..40), 5 => rng.gen_range(200..300), 6 => rng.gen_range(1000..20000), _ => rng.gen_range(1..600) };
                    let m4 = if kind == "message" { rng.gen_range(0..4) } else { 0 };
                    if rng.gen_range(0..12) == 0 {
                        // a message by varint width class (long ones included)
                        let widx = rng.gen_range(1..=15usize);
                        if let Some(p) = ps.get_wide(widx) {
                            plan.push(json!({"a":"data","kind":"message","id":id,"csize":p.comp.len(),"m4":p.raw.len() % 4,"w":widx,
                                "via":if rng.gen_bool(0.5) {"fn"} else {"chunk"}}));
                        }
                        continue;
                    }
                    if ps.get(kind, csize, m4).is_none() {
                        continue;
                    }
                    plan.push(json!({"a":"data","kind":kind,"id":id,"csize":csize,"m4":m4,"w":0,"via":if rng.gen_bool(0.5) {"fn"} else {"chunk"}}));
                }
            }
            let outs = exec_lo(&plan, &mut ps);
            print_events(&plan, &outs);
        } else {
            plan.push(json!({"a":"new"}));
            let mut t: i64 = -1;
            let mut world: BTreeMap<(i64, i64), i64> = BTreeMap::new();
            for _ in 0..n {
                if rng.gen_range(0..5) == 0 {
                    let m = match rng.gen_range(0..4) { 0 => rng.gen_range(1..7), _ => rng.gen_range(100..(100 + LONG_TEXT.len() as i64)) };
                    plan.push(json!({"a":"msg","m":m}));
                    continue;
                }
                let gap: i64 = match rng.gen_range(0..12) { 0 => 0, 1 => -rng.gen_range(1..50), 2 => 250, 3 => 251, 4 => rng.gen_range(100..300), 5 => rng.gen_range(1..5000), _ => rng.gen_range(1..60) };
                let nt = t + gap;
                if nt > i32::MAX as i64 || nt < i32::MIN as i64 {
                    continue;
                }
                // evolve the world: objects appear, change, vanish
                let nchanges = rng.gen_range(0..6);
                let mut w2 = world.clone();
                for _ in 0..nchanges {
                    let key = (rng.gen_range(1..6), rng.gen_range(0..12) * if rng.gen_bool(0.1) { 5000 } else { 1 });
                    match rng.gen_range(0..3) {
                        0 => {
                            w2.remove(&key);
                        }
                        _ => {
                            w2.insert(key, rng.gen_range(0..100000));
                        }
                    }
                }
                if rng.gen_range(0..40) == 0 {
                    w2.clear();
                }
                let objs: Vec<Value> = w2.iter().map(|((ty, id), v)| json!({"ty":ty,"id":id,"v":v})).collect();
                plan.push(json!({"a":"snap","t":nt,"world":objs}));
                if nt > t {
                    t = nt;
                    world = w2;
                }
            }
            let outs = exec_hi(&plan);
            print_events(&plan, &outs);
        }
    }
}

fn main() {
    install_panic_hook();
    vh_common::start_watchdog();
    let args: Vec<String> = std::env::args().collect();
    let lvl = args.get(2).cloned().unwrap_or_default();
    match args.get(1).map(|s| s.as_str()) {
        Some("classes") => cmd_classes(&args[2..]),
        Some("graph") => cmd_graph(&lvl, &args[3..]),
        Some("run") => cmd_run(&lvl),
        Some("drive") => cmd_drive(&lvl, &args[3..]),
        Some("lib") => cmd_lib(),
        Some("files") => cmd_files(&args[2..]),
        Some("refile") => cmd_refile(),
        _ => {
            eprintln!("usage: vh-demo classes|graph|run|drive ...");
            std::process::exit(2);
        }
    }
}
