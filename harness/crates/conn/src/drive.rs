//! Direction B: seeded drivers that exercise two real Connections with real-size
//! constants and record every step (action with all arguments, result, complete
//! projected post-state) as one NDJSON line for ConnTrace.tla.
use crate::*;
use rand::rngs::StdRng;
use rand::Rng;
use rand::SeedableRng;
use serde_json::json;
use serde_json::Value;
use std::io::Write;

fn arg(args: &[String], name: &str, default: &str) -> String {
    args.iter()
        .position(|a| a == name)
        .and_then(|i| args.get(i + 1).cloned())
        .unwrap_or_else(|| default.to_string())
}

struct Driver {
    w: World,
    out: Vec<String>,
    next_id: [u32; 2],
    file: std::fs::File,
}

impl Driver {
    fn step(&mut self, act: Value) -> Outcome {
        vh_common::set_case(&act.to_string());
        vh_common::arm(5_000);
        let o = self.w.apply(&act);
        vh_common::disarm();
        let res = if o.res.starts_with("panic") { "panic".to_string() } else { o.res.clone() };
        let line = json!({"act": act, "out": {"res": res, "evs": o.evs, "outs": o.outs, "w": o.warn_class()}, "detail": o.res,
                          "st": self.w.proj(), "malformed": self.w.malformed.len()});
        // written at once: a later hang must not lose the prefix of the trace
        let _ = writeln!(self.file, "{}", line);
        let _ = self.file.flush();
        self.out.push(String::new());
        o
    }
    fn id_for(&mut self, e: usize, sz: usize) -> u32 {
        self.next_id[e] += 1;
        match sz {
            0 => 0,
            1 => self.next_id[e] % 256,
            _ => self.next_id[e] % 65536,
        }
    }
    fn send(&mut self, e: usize, v: bool, sz: usize) -> Outcome {
        self.send_k(e, v, sz, 0)
    }
    /// `k`: the send callback refuses the k-th datagram of this call (0: none)
    fn send_k(&mut self, e: usize, v: bool, sz: usize, k: u32) -> Outcome {
        if !self.online(e) {
            // callers only make calls the state permits
            return Outcome::default();
        }
        let id = self.id_for(e, sz);
        self.step(json!({"a": "send", "e": E[e], "v": v, "sz": sz, "id": id, "k": k}))
    }
    fn online(&self, e: usize) -> bool {
        self.w.proj_ep(e)["st"] == json!("Onl")
    }
    fn unacked(&self, e: usize) -> usize {
        self.w.proj_ep(e)["rq"].as_array().map(|a| a.len()).unwrap_or(0)
    }
    fn handshake(&mut self) {
        self.step(json!({"a": "connect", "e": "c"}));
        for _ in 0..6 {
            for e in 0..2 {
                if !self.w.net[e].is_empty() {
                    self.step(json!({"a": "deliver", "from": E[e], "i": 1}));
                }
            }
        }
        // the accepting side comes online with the first chunks packet
        self.send(0, false, 1);
        self.step(json!({"a": "flush", "e": "c"}));
        self.drain(3);
    }
    fn drain(&mut self, rounds: usize) {
        for _ in 0..rounds {
            let mut any = false;
            for e in 0..2 {
                while !self.w.net[e].is_empty() {
                    self.step(json!({"a": "deliver", "from": E[e], "i": 1}));
                    any = true;
                }
            }
            if !any {
                break;
            }
        }
    }
}

pub fn main(args: &[String]) -> i32 {
    let mode = Mode {
        v7: arg(args, "--v7", "0") == "1",
        token_mode: arg(args, "--token-mode", "1") == "1",
        seq_start: arg(args, "--seq-start", "0").parse().unwrap(),
        init_online: arg(args, "--init-online", "0") == "1",
    };
    let seed: u64 = arg(args, "--seed", "1").parse().unwrap();
    let n: usize = arg(args, "--events", "1000").parse().unwrap();
    let scenario = arg(args, "--scenario", "random");
    let outp = arg(args, "--out", "/dev/stdout");
    let mut rng = StdRng::seed_from_u64(seed);
    let file = std::fs::File::create(&outp).expect("out");
    let mut d = Driver { w: World::new(mode), out: Vec::new(), next_id: [0, 0], file };
    let max_sz: usize = if mode.v7 { 1387 } else { 1023 };
    let sizes: Vec<usize> = vec![0, 1, 2, 3, 16, 17, 63, 64, 100, 255, 256, 600, 1000, 1022, 1023, 1024, 1386, 1387, 1388, 1390, 1391, 2000];

    match scenario.as_str() {
        "random" | "sessions" => {
            // "sessions": the same, and the applications close, reset() and reconnect on the same objects while
            // datagrams of the old session are still in flight; the 0.6 acceptor sometimes replaces its pending
            // connection by Connection::new_accept_token
            let sessions = scenario == "sessions";
            let loss: f64 = arg(args, "--loss", "0.15").parse().unwrap();
            // the send callback refuses the k-th datagram of some calls
            let pfail: f64 = arg(args, "--pfail", "0.08").parse().unwrap();
            if !mode.init_online {
                d.step(json!({"a": "connect", "e": "c", "k": 0}));
            }
            let mut guard = 0usize;
            while d.out.len() < n && guard < 50 * n + 1000 {
                guard += 1;
                let e = rng.gen_range(0..2usize);
                let inflight = d.w.net[0].len() + d.w.net[1].len();
                let r: f64 = rng.gen();
                let k: u32 = if rng.gen::<f64>() < pfail { rng.gen_range(1..=2u32) } else { 0 };
                if sessions && rng.gen::<f64>() < 0.06 {
                    let st = d.w.proj_ep(e)["st"].as_str().unwrap_or("").to_string();
                    let nsess = d.w.bnd[e].len();
                    if st == "Disc" {
                        if nsess < 7 {
                            d.step(json!({"a": "creset", "e": E[e]}));
                        }
                    } else if st == "Unc" && e == 0 {
                        d.step(json!({"a": "connect", "e": "c", "k": k}));
                    } else if st == "Pend" && e == 1 && !mode.v7 && d.w.proj_ep(1)["tok"] != json!("no") && rng.gen::<f64>() < 0.5 {
                        d.step(json!({"a": "accepttoken", "e": "s"}));
                    } else if st != "Unc" && rng.gen::<f64>() < 0.4 {
                        d.step(json!({"a": "disconnect", "e": E[e], "r": rng.gen_range(0..20usize), "k": k}));
                    }
                    continue;
                }
                if inflight > 8 || (inflight > 0 && r < 0.35) {
                    let from = if d.w.net[0].is_empty() { 1 } else if d.w.net[1].is_empty() { 0 } else { rng.gen_range(0..2usize) };
                    let len = d.w.net[from].len();
                    let i = if rng.gen::<f64>() < 0.7 { 1 } else { rng.gen_range(1..=len) };
                    let x: f64 = rng.gen();
                    let a = if x < loss { "drop" } else if x < loss + 0.08 { "dup" } else { "deliver" };
                    if a == "drop" {
                        d.step(json!({"a": a, "from": E[from], "i": i}));
                    } else {
                        d.step(json!({"a": a, "from": E[from], "i": i, "k": k}));
                    }
                } else if r < 0.60 {
                    if d.online(e) && d.unacked(e) < 400 {
                        let v = rng.gen::<f64>() < 0.7;
                        let sz = if rng.gen::<f64>() < 0.5 { sizes[rng.gen_range(0..sizes.len())] } else { rng.gen_range(0..=max_sz) };
                        d.send_k(e, v, sz, k);
                    }
                } else if r < 0.68 {
                    if d.online(e) {
                        d.step(json!({"a": "flush", "e": E[e], "k": k}));
                    }
                } else if r < 0.86 {
                    // tick: mostly when due
                    let due = d.w.needs_tick_ms(e) == 0;
                    if due || rng.gen::<f64>() < 0.2 {
                        d.step(json!({"a": "tick", "e": E[e], "k": k}));
                    }
                } else if r < 0.97 {
                    // advance: to the next deadline, or a random amount
                    let nt: Vec<i64> = (0..2).map(|e| d.w.needs_tick_ms(e)).filter(|&t| t > 0).collect();
                    let dms = if !nt.is_empty() && rng.gen::<f64>() < 0.6 { *nt.iter().min().unwrap() as u64 } else { rng.gen_range(1..1500u64) };
                    d.step(json!({"a": "advance", "d": dms}));
                } else if r < 0.985 {
                    if d.online(e) {
                        let sz = sizes[rng.gen_range(0..sizes.len())];
                        let id = d.id_for(e, sz);
                        d.step(json!({"a": "connless", "e": E[e], "sz": sz, "id": id, "k": k}));
                    }
                } else {
                    // a forged datagram with a foreign token (only once the token is fixed)
                    let p = d.w.proj_ep(e);
                    let st = p["st"].as_str().unwrap_or("");
                    let fixed = if mode.v7 { st != "Unc" && st != "Disc" } else { (st == "Pend" || st == "Onl") && p["tok"] != json!("no") };
                    if fixed {
                        let toks = ["W", "FF", "Z0"];
                        let t = toks[rng.gen_range(0..3)];
                        let kinds = ["KeepAlive", "Connect", "Accept", "Close"];
                        let f = if rng.gen::<bool>() {
                            json!({"k": "chunks", "tok": t, "ack": p["seq"], "rr": rng.gen::<bool>(),
                                   "chunks": [{"v": true, "seq": (p["ack"].as_u64().unwrap() + 1) % 1024, "rs": false, "id": 999, "sz": 5}]})
                        } else {
                            let c = kinds[rng.gen_range(0..4)];
                            json!({"k": "ctrl", "c": c, "tok": t, "rt": if mode.v7 && c == "Connect" { "W" } else { "-" }, "ack": p["seq"], "r": if c == "Close" { 3 } else { -1 }})
                        };
                        d.step(json!({"a": "forge", "e": E[e], "f": f}));
                    }
                }
            }
        }
        "smallchunks" => {
            // hundreds of zero/one-byte chunks queued without a flush, then loss: the resend spans datagrams
            if !mode.init_online {
                d.handshake();
            }
            let k: usize = arg(args, "--chunks", "420").parse().unwrap();
            for i in 0..k {
                let v = i % 5 != 4;
                d.send(0, v, i % 2);
                if i % 97 == 96 {
                    d.send(1, true, 1);
                }
            }
            d.step(json!({"a": "flush", "e": "c"}));
            // lose everything in flight from c, let the resend timers fire
            while !d.w.net[0].is_empty() {
                d.step(json!({"a": "drop", "from": "c", "i": 1}));
            }
            d.step(json!({"a": "advance", "d": 1000}));
            d.step(json!({"a": "tick", "e": "c"}));
            d.step(json!({"a": "tick", "e": "s"}));
            d.step(json!({"a": "advance", "d": 500}));
            d.step(json!({"a": "tick", "e": "c"}));
            d.drain(10);
            d.step(json!({"a": "advance", "d": 500}));
            d.step(json!({"a": "tick", "e": "c"}));
            d.step(json!({"a": "tick", "e": "s"}));
            d.drain(10);
        }
        "bigchunks" => {
            // largest accepted chunks, sizes around every limit (refusals included), resends spanning several datagrams
            if !mode.init_online {
                d.handshake();
            }
            for &sz in &sizes {
                for v in [true, false] {
                    d.send(0, v, sz);
                    d.send(1, v, sz);
                }
            }
            for _ in 0..6 {
                d.send(0, true, max_sz);
            }
            d.step(json!({"a": "flush", "e": "c"}));
            d.step(json!({"a": "flush", "e": "s"}));
            while !d.w.net[0].is_empty() {
                d.step(json!({"a": "drop", "from": "c", "i": 1}));
            }
            d.drain(4);
            d.step(json!({"a": "advance", "d": 1000}));
            d.step(json!({"a": "tick", "e": "c"}));
            d.step(json!({"a": "tick", "e": "s"}));
            d.drain(6);
            d.step(json!({"a": "advance", "d": 500}));
            d.step(json!({"a": "tick", "e": "c"}));
            d.step(json!({"a": "tick", "e": "s"}));
            d.drain(6);
            for r in [0usize, 1, 126, 127] {
                let _ = r;
            }
            d.step(json!({"a": "disconnect", "e": "c", "r": 127}));
            d.drain(3);
        }
        "repack" => {
            // resends re-pack unacknowledged chunks into other datagram groupings than the first transmission;
            // first transmissions and resends are then delivered in permuted orders (delay/reordering, no loss)
            if !mode.init_online {
                d.handshake();
            }
            let pool = [600usize, 450, 300, 700, 520, 1, 0];
            for round in 0..14usize {
                let k = 3 + round % 2;
                for j in 0..k {
                    // every other round: equal large chunks, two per datagram, so that the resend splits between
                    // chunks that travelled together the first time (and the other way round)
                    let sz = if round % 2 == 0 { 600 } else { pool[(round * 3 + j) % pool.len()] };
                    d.send(0, true, sz.min(max_sz));
                    // flush after the first chunk, and at the end: the first transmission groups differently
                    if j == 0 || j + 1 == k {
                        d.step(json!({"a": "flush", "e": "c"}));
                    }
                }
                if round % 2 == 1 {
                    d.send(1, true, 300);
                    d.step(json!({"a": "flush", "e": "s"}));
                }
                // nothing is delivered for a second: the resend timer fires and everything is packed again
                d.step(json!({"a": "advance", "d": 1000}));
                d.step(json!({"a": "tick", "e": "c"}));
                d.step(json!({"a": "advance", "d": 500}));
                d.step(json!({"a": "tick", "e": "c"}));
                // deliver what is in flight from c in a seeded permutation (newest first, oldest first, shuffled)
                while !d.w.net[0].is_empty() {
                    let len = d.w.net[0].len();
                    let i = match round % 3 {
                        0 => len,
                        1 => 1,
                        _ => rng.gen_range(1..=len),
                    };
                    d.step(json!({"a": "deliver", "from": "c", "i": i}));
                }
                d.step(json!({"a": "flush", "e": "s"}));
                d.drain(6);
                d.step(json!({"a": "advance", "d": 500}));
                d.step(json!({"a": "tick", "e": "c"}));
                d.step(json!({"a": "tick", "e": "s"}));
                d.drain(6);
            }
        }
        "cbfail" => {
            // the send callback refuses datagrams at every stage: connect request, handshake answers, the flush inside
            // send(), explicit flushes, keep-alives, every position of a resend that spans several datagrams, connless,
            // the close message -- and the connection must carry on (each refused datagram is a lost datagram)
            d.step(json!({"a": "connect", "e": "c", "k": 1}));
            d.step(json!({"a": "advance", "d": 500}));
            d.step(json!({"a": "tick", "e": "c", "k": 1}));
            d.step(json!({"a": "advance", "d": 500}));
            d.step(json!({"a": "tick", "e": "c", "k": 0}));
            // every answer of the handshake is refused once, then repeated by the timer
            for _ in 0..8 {
                for e in 0..2 {
                    while !d.w.net[e].is_empty() {
                        d.step(json!({"a": "deliver", "from": E[e], "i": 1, "k": 1}));
                    }
                }
                d.step(json!({"a": "advance", "d": 500}));
                for e in 0..2 {
                    d.step(json!({"a": "tick", "e": E[e], "k": 0}));
                }
                if d.online(0) {
                    break;
                }
            }
            d.drain(3);
            // the accepting side comes online with the first chunks packet: the first one is refused
            d.send(0, false, 1);
            d.step(json!({"a": "flush", "e": "c", "k": 1}));
            d.send(0, true, 1);
            d.step(json!({"a": "flush", "e": "c", "k": 0}));
            d.drain(3);
            for round in 0..3u32 {
                // largest chunks: every send() flushes the previous one; every other flush is refused
                for j in 0..6u32 {
                    d.send_k(0, true, max_sz, (j + round) % 2);
                    d.send_k(1, j % 3 == 0, 600, j % 2);
                }
                d.step(json!({"a": "flush", "e": "c", "k": 1}));
                d.step(json!({"a": "flush", "e": "s", "k": round % 2}));
                while !d.w.net[0].is_empty() {
                    d.step(json!({"a": "drop", "from": "c", "i": 1}));
                }
                // the resend spans six datagrams; the callback refuses the 2nd, then the 4th, then the 1st, then none
                for k in [2u32, 4, 1, 0] {
                    d.step(json!({"a": "advance", "d": 1000}));
                    d.step(json!({"a": "tick", "e": "c", "k": k}));
                    d.step(json!({"a": "tick", "e": "s", "k": if k == 4 { 1 } else { 0 }}));
                }
                d.step(json!({"a": "advance", "d": 500}));
                d.step(json!({"a": "tick", "e": "c", "k": 0}));
                // deliveries that trigger answers (resend requests): some of the answers are refused
                for i in 0..4u32 {
                    for e in 0..2 {
                        let mut n = 0u32;
                        while !d.w.net[e].is_empty() {
                            n += 1;
                            d.step(json!({"a": "deliver", "from": E[e], "i": 1, "k": if (n + i) % 3 == 0 { 1 } else { 0 }}));
                        }
                    }
                    d.step(json!({"a": "advance", "d": 500}));
                    d.step(json!({"a": "tick", "e": "c", "k": if i == 1 { 1 } else { 0 }}));
                    d.step(json!({"a": "tick", "e": "s", "k": 0}));
                }
                let id = d.id_for(0, 9);
                d.step(json!({"a": "connless", "e": "c", "sz": 9, "id": id, "k": 1}));
                let id = d.id_for(0, 9);
                d.step(json!({"a": "connless", "e": "c", "sz": 9, "id": id, "k": 0}));
                d.drain(4);
            }
            // fair end: everything gets through
            for _ in 0..6 {
                d.step(json!({"a": "advance", "d": 1000}));
                d.step(json!({"a": "tick", "e": "c", "k": 0}));
                d.step(json!({"a": "tick", "e": "s", "k": 0}));
                d.drain(6);
            }
            d.step(json!({"a": "disconnect", "e": "c", "r": 5, "k": 1}));
            d.drain(2);
        }
        "fill" => {
            // packets filled to every total around the payload limit (1380..1400 queued bytes incl. chunk
            // headers), by two or three chunks, vital and not, sent and then resent after total loss
            if !mode.init_online {
                d.handshake();
            }
            for total in 1383usize..=1399 {
                for kind in 0..3 {
                    let (a, b, va, vb) = match kind {
                        0 => (600usize, total - 600 - 6, true, true),
                        1 => (300, total - 300 - 5, true, false),
                        _ => (total - 7 - 6, 7, true, true),
                    };
                    if a > max_sz || b > max_sz {
                        continue;
                    }
                    d.send(0, va, a);
                    d.send(0, vb, b);
                    d.step(json!({"a": "flush", "e": "c"}));
                    if total % 4 == 0 {
                        // lose it: the resend has to rebuild the same packet
                        while !d.w.net[0].is_empty() {
                            d.step(json!({"a": "drop", "from": "c", "i": 1}));
                        }
                        d.step(json!({"a": "advance", "d": 1000}));
                        d.step(json!({"a": "tick", "e": "c"}));
                        d.step(json!({"a": "advance", "d": 500}));
                        d.step(json!({"a": "tick", "e": "c"}));
                    }
                    d.drain(6);
                    d.step(json!({"a": "flush", "e": "s"}));
                    d.drain(6);
                }
            }
        }
        _ => {
            eprintln!("unknown scenario");
            return 2;
        }
    }
    0
}
