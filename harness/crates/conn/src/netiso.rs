//! Observable traces of the real Net<u8> next to per-address *shadow* Connections driven by the
//! projected sub-history (C20: "behaves, for each address, exactly like an independent single
//! connection").  Judged by spec/conn/NetIso.tla.
use crate::net::*;
use crate::*;
use libtw2_net::net::PeerId;
use rand::rngs::StdRng;
use rand::Rng;
use rand::SeedableRng;
use std::collections::BTreeMap;

struct Shadow {
    conn: c6::Connection,
    token_ext: bool,
}

fn kind_of(bytes: &[u8]) -> &'static str {
    let mut buf = [0u8; 2048];
    let mut w: Vec<p6::Warning> = Vec::new();
    match catch(|| match p6::Packet::read(&mut w, bytes, None, &mut buf[..]) {
        Err(_) => "unreadable",
        Ok(p6::Packet::Connless(_)) => "connless",
        Ok(p6::Packet::Connected(c)) => match c.type_ {
            p6::ConnectedPacketType::Control(p6::ControlPacket::Connect) => {
                if c.token.is_some() {
                    "connect+token"
                } else {
                    "connect"
                }
            }
            _ => "other",
        },
    }) {
        Ok(k) => k,
        Err(_) => "unreadable",
    }
}

fn ms(now: u64, t: Option<u64>) -> i64 {
    match t {
        None => -1,
        Some(t) if t > now => ((t - now) / 1000) as i64,
        Some(_) => 0,
    }
}

pub struct Iso {
    pub w: NetWorld,
    shadows: BTreeMap<u8, Shadow>,
    accepting: bool,
}

impl Iso {
    pub fn new(accepting: bool, naddrs: u8) -> Iso {
        Iso { w: NetWorld::new(accepting, naddrs), shadows: BTreeMap::new(), accepting }
    }
    fn peers(&self) -> Vec<(u32, u8)> {
        let mut v: Vec<(u32, u8)> = self.w.net.verif_peers().iter().map(|p| (p.pid.0, p.addr)).collect();
        v.sort();
        v
    }
    /// One step on the real Net and on the shadows; returns the log record.
    pub fn step(&mut self, act: &Value) -> Value {
        let a = act["a"].as_str().unwrap_or("").to_string();
        let pre_peers = self.peers();
        let addr_of_pid = |pid: u32| pre_peers.iter().find(|p| p.0 == pid).map(|p| p.1);
        let pid_of_addr = |addr: u8| pre_peers.iter().filter(|p| p.1 == addr).map(|p| p.0).min();
        // concrete bytes of a feed (kept in the log so that a replay is exact)
        let mut act = act.clone();
        let mut bytes: Vec<u8> = Vec::new();
        if a == "feed" {
            bytes = if let Some(h) = act["bytes"].as_str() { vh_common::unhex(h) } else { self.w.dg_bytes(&act["d"]) };
            act["bytes"] = json!(vh_common::hex(&bytes));
        }
        // abstract form of an incoming datagram, for the strict trace specification NetTrace
        let (d_abs, d_clean) = if a == "feed" { self.w.proj_in(addr_of(act["addr"].as_str().unwrap()), &bytes) } else { (Value::Null, true) };
        let o = self.w.apply(&act);
        let now = self.w.now_us;
        let raw_sends: Vec<(u8, Vec<u8>)> = Vec::new();
        let _ = raw_sends;
        // ---- shadows
        let mut sh_evs: Vec<Value> = Vec::new();
        let mut sh_sends: BTreeMap<u8, Vec<String>> = BTreeMap::new();
        let mut sh_res = "ok".to_string();
        let mut scb = Cb { now_us: now, token: tok_bytes("T").unwrap(), fail_sends: act["fail"].as_bool().unwrap_or(false), ..Default::default() };
        let mut run = |sh: &mut Shadow, addr: u8, pid: u32, f: &mut dyn FnMut(&mut c6::Connection, &mut Cb) -> Vec<Value>,
                       sh_evs: &mut Vec<Value>, sh_sends: &mut BTreeMap<u8, Vec<String>>, sh_res: &mut String| {
            scb.out.clear();
            let r = catch(|| f(&mut sh.conn, &mut scb));
            match r {
                Ok(evs) => {
                    for mut ev in evs {
                        ev["pid"] = json!(pid);
                        sh_evs.push(ev);
                    }
                }
                Err(m) => *sh_res = format!("panic: {}", m),
            }
            for b in scb.out.drain(..) {
                sh_sends.entry(addr).or_default().push(vh_common::hex(&b));
            }
        };
        let feed = |bytes: Vec<u8>| {
            move |c: &mut c6::Connection, cb: &mut Cb| -> Vec<Value> {
                let mut buf = [0u8; 2048];
                let mut w: Vec<c6::Warning> = Vec::new();
                let (pkt, _) = c.feed(cb, &mut w, &bytes, &mut buf[..]);
                pkt.map(|ch| match ch {
                    c6::ReceiveChunk::Connless(d) => json!({"e": "connless", "id": id_of(1, d), "sz": d.len()}),
                    c6::ReceiveChunk::Connected(d, v) => json!({"e": "chunk", "id": id_of(1, d), "sz": d.len(), "v": v}),
                    c6::ReceiveChunk::Ready => json!({"e": "ready"}),
                    c6::ReceiveChunk::Disconnect(r) => json!({"e": "disc", "r": if r == &reason(r.len())[..] { r.len() as i64 } else { -2 }}),
                })
                .collect()
            }
        };
        let kind = if a == "feed" { kind_of(&bytes) } else { "" };
        match a.as_str() {
            "connect" => {
                let addr = addr_of(act["addr"].as_str().unwrap());
                let mut sh = Shadow { conn: c6::Connection::new(), token_ext: false };
                let pid = o.pid.unwrap_or(u32::MAX);
                run(&mut sh, addr, pid, &mut |c, cb| {
                    let _ = c.connect(cb);
                    vec![]
                }, &mut sh_evs, &mut sh_sends, &mut sh_res);
                self.shadows.insert(addr, sh);
            }
            "feed" => {
                let addr = addr_of(act["addr"].as_str().unwrap());
                if let (Some(pid), Some(sh)) = (pid_of_addr(addr), self.shadows.get_mut(&addr)) {
                    let mut f = feed(bytes.clone());
                    run(sh, addr, pid, &mut f, &mut sh_evs, &mut sh_sends, &mut sh_res);
                }
            }
            "accept" | "reject" | "disconnect" | "send" | "flush" => {
                let pid = act["pid"].as_u64().unwrap_or(0) as u32;
                if let Some(addr) = addr_of_pid(pid) {
                    if let Some(sh) = self.shadows.get_mut(&addr) {
                        let te = sh.token_ext;
                        let rs = reason(act["r"].as_u64().unwrap_or(0) as usize);
                        let data = if a == "send" { content(0, act["id"].as_u64().unwrap() as u32, act["sz"].as_u64().unwrap() as usize) } else { vec![] };
                        let vital = act["v"].as_bool().unwrap_or(false);
                        let aa = a.clone();
                        let mut res_send = "ok".to_string();
                        run(sh, addr, pid, &mut |c, cb| {
                            match aa.as_str() {
                                "accept" => {
                                    let pkt: &[u8] = if te { b"\x10\x00\x00\x01TKEN\xff\xff\xff\xff" } else { b"\x10\x00\x00\x01" };
                                    let mut f = feed(pkt.to_vec());
                                    return f(c, cb);
                                }
                                "reject" | "disconnect" => {
                                    let _ = c.disconnect(cb, &rs);
                                }
                                "send" => {
                                    res_send = match c.send(cb, &data, vital) {
                                        Ok(()) => "ok".to_string(),
                                        Err(c6::Error::TooLongData) => "TooLongData".to_string(),
                                        Err(_) => "callback".to_string(),
                                    };
                                }
                                _ => {
                                    let _ = c.flush(cb);
                                }
                            }
                            vec![]
                        }, &mut sh_evs, &mut sh_sends, &mut sh_res);
                        if sh_res == "ok" {
                            sh_res = res_send;
                        }
                    }
                }
            }
            "connless" => {
                let addr = addr_of(act["addr"].as_str().unwrap());
                let data = content(0, act["id"].as_u64().unwrap() as u32, act["sz"].as_u64().unwrap() as usize);
                let mut buf = [0u8; 2048];
                match p6::Packet::Connless(&data).write(&mut buf[..]) {
                    Ok(b) => sh_sends.entry(addr).or_default().push(vh_common::hex(b)),
                    Err(_) => sh_res = "TooLongData".to_string(),
                }
            }
            "tick" => {
                let addrs: Vec<u8> = self.shadows.keys().cloned().collect();
                let failaddr = act["failaddr"].as_str().map(addr_of);
                for addr in addrs {
                    let pid = pid_of_addr(addr).unwrap_or(u32::MAX);
                    let sh = self.shadows.get_mut(&addr).unwrap();
                    let fail_this = failaddr == Some(addr);
                    run(sh, addr, pid, &mut |c, cb| {
                        let saved = cb.fail_sends;
                        cb.fail_sends = saved || fail_this;
                        let _ = c.tick(cb);
                        cb.fail_sends = saved;
                        vec![]
                    }, &mut sh_evs, &mut sh_sends, &mut sh_res);
                }
            }
            _ => {}
        }
        // ---- the shadow set follows the real peer set
        let post_peers = self.peers();
        for (_, addr) in post_peers.iter() {
            if !self.shadows.contains_key(addr) {
                self.shadows.insert(*addr, Shadow { conn: c6::Connection::new(), token_ext: kind == "connect+token" });
            }
        }
        let live: Vec<u8> = post_peers.iter().map(|p| p.1).collect();
        self.shadows.retain(|a, _| live.contains(a));
        let sh_nt = self
            .shadows
            .values()
            .filter_map(|s| s.conn.needs_tick().to_opt().map(|t| t.as_usecs_since_epoch()))
            .min();
        // raw bytes the real Net sent, per address: re-derive from the projected outcome is lossy, so
        // the real sends are compared as hex through a second capture in NetWorld
        let net_sends = std::mem::take(&mut self.w.last_raw);
        let mut ns: BTreeMap<String, Vec<String>> = BTreeMap::new();
        let mut ss: BTreeMap<String, Vec<String>> = BTreeMap::new();
        for i in 0..self.w.naddrs {
            ns.insert(addr_name(i), Vec::new());
            ss.insert(addr_name(i), sh_sends.get(&i).cloned().unwrap_or_default());
        }
        for (addr, b) in net_sends {
            ns.entry(addr_name(addr)).or_default().push(vh_common::hex(&b));
        }
        let newm: Vec<String> = std::mem::take(&mut self.w.malformed);
        let mut tout = json!({"res": if o.res.starts_with("panic") { "panic".to_string() } else { o.res.clone() }, "evs": o.evs, "sends": o.sends});
        if let Some(p) = o.pid {
            tout["pid"] = json!(p);
        }
        let mut rec = json!({"a": a, "act": act, "res": if o.res.starts_with("panic") { "panic".to_string() } else { o.res.clone() }, "detail": o.res,
               "clean": d_clean && newm.is_empty(), "out": tout, "st": self.w.proj(),
               "evs": o.evs, "sends": ns, "nt": self.w.needs_tick_ms(), "malformed": newm,
               "kind": kind, "accepting": self.accepting,
               "pre": pre_peers.iter().map(|p| json!({"pid": p.0, "addr": addr_name(p.1)})).collect::<Vec<_>>(),
               "post": post_peers.iter().map(|p| json!({"pid": p.0, "addr": addr_name(p.1)})).collect::<Vec<_>>(),
               "sh": {"res": if sh_res.starts_with("panic") { "panic".to_string() } else { sh_res }, "evs": sh_evs, "sends": ss, "nt": ms(now, sh_nt)}});
        if a == "feed" {
            rec["d"] = d_abs;
        }
        rec
    }
}

pub fn observe(accepting: bool, naddrs: u8, path: &[Value]) -> Vec<Value> {
    let mut iso = Iso::new(accepting, naddrs);
    let mut out = vec![json!({"a": "reset"})];
    for act in path {
        out.push(iso.step(act));
    }
    out
}

fn arg(args: &[String], name: &str, default: &str) -> String {
    args.iter()
        .position(|a| a == name)
        .and_then(|i| args.get(i + 1).cloned())
        .unwrap_or_else(|| default.to_string())
}

/// Direction B for C20: random interleavings over several addresses. Remote sides are real
/// Connections (one per address) whose datagrams travel over a lossy wire to the Net under test,
/// plus garbage and stray datagrams from unknown addresses. Prints the NetIso trace.
pub fn drive(args: &[String]) -> i32 {
    use std::io::Write;
    let accepting = arg(args, "--accepting", "1") == "1";
    let naddrs: u8 = arg(args, "--addrs", "8").parse().unwrap();
    let seed: u64 = arg(args, "--seed", "1").parse().unwrap();
    let n: usize = arg(args, "--events", "600").parse().unwrap();
    let outp = arg(args, "--out", "/dev/stdout");
    let mut f = std::fs::File::create(&outp).expect("out");
    let mut rng = StdRng::seed_from_u64(seed);
    let mut iso = Iso::new(accepting, naddrs);
    // remote endpoints and the wire towards the Net
    let mut remotes: Vec<c6::Connection> = (0..naddrs).map(|_| c6::Connection::new()).collect();
    let mut rcb: Vec<Cb> = (0..naddrs).map(|_| Cb { token: tok_bytes("T").unwrap(), ..Default::default() }).collect();
    let mut to_net: Vec<(u8, Vec<u8>)> = Vec::new();
    let mut count = 0usize;
    let mut next_id = 1u32;
    writeln!(f, "{}", json!({"a": "reset"})).unwrap();
    let mut log = |iso: &mut Iso, act: Value, f: &mut std::fs::File, remotes: &mut Vec<c6::Connection>, rcb: &mut Vec<Cb>, to_net: &mut Vec<(u8, Vec<u8>)>| {
        vh_common::set_case(&act.to_string());
        vh_common::arm(5000);
        let rec = iso.step(&act);
        vh_common::disarm();
        // what the Net sent goes to the remotes at once (perfect wire in this direction, sometimes lost)
        if let Some(s) = rec["sends"].as_object() {
            for (an, list) in s {
                let a = addr_of(an) as usize;
                for h in list.as_array().unwrap() {
                    let bytes = vh_common::unhex(h.as_str().unwrap());
                    let mut buf = [0u8; 2048];
                    rcb[a].now_us = iso.w.now_us;
                    let cb = &mut rcb[a];
                    let c = &mut remotes[a];
                    let _ = catch(|| {
                        let mut w: Vec<c6::Warning> = Vec::new();
                        let (pkt, _) = c.feed(cb, &mut w, &bytes, &mut buf[..]);
                        for _ in pkt {}
                    });
                    for b in rcb[a].out.drain(..) {
                        to_net.push((a as u8, b));
                    }
                }
            }
        }
        writeln!(f, "{}", rec).unwrap();
    };
    // deterministic preamble: three peers with armed timers, then ticks during which the send callback fails
    // for one address at a time (the other peers must be ticked and served all the same)
    for a in 0..naddrs.min(3) {
        if accepting {
            let c = &mut remotes[a as usize];
            rcb[a as usize].now_us = iso.w.now_us;
            let cb = &mut rcb[a as usize];
            let _ = catch(|| { let _ = c.connect(cb); });
            for b in rcb[a as usize].out.drain(..) {
                to_net.push((a, b));
            }
        } else {
            log(&mut iso, json!({"a": "connect", "addr": addr_name(a)}), &mut f, &mut remotes, &mut rcb, &mut to_net);
        }
    }
    if accepting {
        while !to_net.is_empty() {
            let (addr, bytes) = to_net.remove(0);
            log(&mut iso, json!({"a": "feed", "addr": addr_name(addr), "bytes": vh_common::hex(&bytes)}), &mut f, &mut remotes, &mut rcb, &mut to_net);
        }
        for (pid, _) in iso.peers() {
            log(&mut iso, json!({"a": "accept", "pid": pid}), &mut f, &mut remotes, &mut rcb, &mut to_net);
        }
        to_net.clear();
    }
    for a in 0..naddrs.min(3) {
        log(&mut iso, json!({"a": "advance", "d": 500}), &mut f, &mut remotes, &mut rcb, &mut to_net);
        log(&mut iso, json!({"a": "tick", "failaddr": addr_name(a)}), &mut f, &mut remotes, &mut rcb, &mut to_net);
    }
    to_net.clear();
    while count < n {
        count += 1;
        let r: f64 = rng.gen();
        let a = rng.gen_range(0..naddrs);
        let peers = iso.peers();
        let pid_at = |addr: u8| peers.iter().find(|p| p.1 == addr).map(|p| p.0);
        let state_of = |iso: &Iso, pid: u32| -> String {
            iso.w.net.verif_peers().iter().find(|p| p.pid == PeerId(pid)).map(|p| p.conn.state.to_string()).unwrap_or_default()
        };
        if !to_net.is_empty() && r < 0.40 {
            let i = if rng.gen::<f64>() < 0.7 { 0 } else { rng.gen_range(0..to_net.len()) };
            let (addr, bytes) = to_net.remove(i);
            if rng.gen::<f64>() < 0.1 {
                continue; // lost
            }
            if rng.gen::<f64>() < 0.08 {
                to_net.push((addr, bytes.clone())); // duplicated
            }
            // some feeds find the send callback failing: the answer (accept, resend, ...) is refused, the events must still come
            let fail = rng.gen::<f64>() < 0.08;
            log(&mut iso, json!({"a": "feed", "addr": addr_name(addr), "bytes": vh_common::hex(&bytes), "fail": fail}), &mut f, &mut remotes, &mut rcb, &mut to_net);
        } else if r < 0.50 {
            // a remote starts to connect / sends data / closes
            let c = &mut remotes[a as usize];
            rcb[a as usize].now_us = iso.w.now_us;
            let cb = &mut rcb[a as usize];
            let x: f64 = rng.gen();
            let _ = catch(|| {
                if c.is_unconnected() {
                    let _ = c.connect(cb);
                } else if x < 0.7 {
                    let data = content(1, next_id % 250, (next_id % 7) as usize + 1);
                    let _ = c.send(cb, &data, x < 0.5);
                    let _ = c.flush(cb);
                } else if x < 0.8 {
                    let _ = c.disconnect(cb, b"bye");
                    c.reset();
                } else {
                    let _ = c.tick(cb);
                }
            });
            next_id += 1;
            for b in rcb[a as usize].out.drain(..) {
                to_net.push((a, b));
            }
        } else if r < 0.56 {
            // garbage / stray datagrams
            let len = rng.gen_range(0..40);
            let bytes: Vec<u8> = (0..len).map(|_| rng.gen()).collect();
            log(&mut iso, json!({"a": "feed", "addr": addr_name(a), "bytes": vh_common::hex(&bytes)}), &mut f, &mut remotes, &mut rcb, &mut to_net);
        } else if r < 0.62 {
            if pid_at(a).is_none() && !accepting {
                log(&mut iso, json!({"a": "connect", "addr": addr_name(a)}), &mut f, &mut remotes, &mut rcb, &mut to_net);
            }
        } else if r < 0.80 {
            if let Some(&(pid, _)) = peers.get(rng.gen_range(0..peers.len().max(1))) {
                let st = state_of(&iso, pid);
                let act = match st.as_str() {
                    "unconnected" => {
                        let x: f64 = rng.gen();
                        if x < 0.7 { json!({"a": "accept", "pid": pid, "fail": x < 0.07}) } else if x < 0.85 { json!({"a": "reject", "pid": pid, "r": 3, "fail": x < 0.74}) } else { json!({"a": "ignore", "pid": pid}) }
                    }
                    "online" => {
                        let x: f64 = rng.gen();
                        next_id += 1;
                        if x < 0.6 { json!({"a": "send", "pid": pid, "v": x < 0.4, "sz": (next_id % 50) + 1, "id": next_id % 250}) }
                        else if x < 0.9 { json!({"a": "flush", "pid": pid}) }
                        else { json!({"a": "disconnect", "pid": pid, "r": 3, "fail": x > 0.97}) }
                    }
                    "disconnected" => json!({"a": "ignore", "pid": pid}),
                    _ => if rng.gen::<f64>() < 0.1 { json!({"a": "disconnect", "pid": pid, "r": 3}) } else { json!({"a": "tick"}) },
                };
                log(&mut iso, act, &mut f, &mut remotes, &mut rcb, &mut to_net);
            }
        } else if r < 0.85 {
            next_id += 1;
            log(&mut iso, json!({"a": "connless", "addr": addr_name(a), "id": next_id % 250, "sz": (next_id % 9) + 1}), &mut f, &mut remotes, &mut rcb, &mut to_net);
        } else if r < 0.93 {
            let act = if rng.gen::<f64>() < 0.15 { json!({"a": "tick", "failaddr": addr_name(a)}) } else { json!({"a": "tick"}) };
            log(&mut iso, act, &mut f, &mut remotes, &mut rcb, &mut to_net);
        } else {
            let d = if rng.gen::<bool>() { 500 } else { rng.gen_range(1..1200) };
            log(&mut iso, json!({"a": "advance", "d": d}), &mut f, &mut remotes, &mut rcb, &mut to_net);
            // remotes tick as well
            for i in 0..naddrs as usize {
                rcb[i].now_us = iso.w.now_us;
                let cb = &mut rcb[i];
                let c = &mut remotes[i];
                let _ = catch(|| {
                    let _ = c.tick(cb);
                });
                for b in rcb[i].out.drain(..) {
                    to_net.push((i as u8, b));
                }
            }
        }
    }
    0
}
