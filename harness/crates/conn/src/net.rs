//! The real `Net<u8>` driven by the actions of spec/conn/Net.tla and its projection.
use crate::*;
use libtw2_net::net as n6;
use libtw2_net::net::PeerId;

#[derive(Default)]
pub struct NCb {
    pub now_us: u64,
    pub out: Vec<(u8, Vec<u8>)>,
    /// fault injection: the send callback reports an error (nothing is sent)
    pub fail_sends: bool,
    /// fault injection: sends to this address fail
    pub fail_addr: Option<u8>,
}
impl n6::Callback<u8> for NCb {
    type Error = Never;
    fn secure_random(&mut self, buffer: &mut [u8]) {
        let t = tok_bytes("T").unwrap();
        for (i, b) in buffer.iter_mut().enumerate() {
            *b = t[i % 4];
        }
    }
    fn send(&mut self, addr: u8, data: &[u8]) -> Result<(), Never> {
        if self.fail_sends || self.fail_addr == Some(addr) {
            return Err(Never);
        }
        self.out.push((addr, data.to_vec()));
        Ok(())
    }
    fn time(&mut self) -> Timestamp {
        Timestamp::from_usecs_since_epoch(self.now_us)
    }
}

pub fn addr_name(a: u8) -> String {
    ((b'a' + a) as char).to_string()
}
pub fn addr_of(s: &str) -> u8 {
    s.as_bytes()[0] - b'a'
}

fn ms(now: u64, t: Option<u64>) -> i64 {
    match t {
        None => -1,
        Some(t) if t > now => ((t - now) / 1000) as i64,
        Some(_) => 0,
    }
}

/// Conn.tla endpoint record for a 0.6 connection state (local chunks have sender index 0).
pub fn proj_state6(s: &c6::verif::VerifState, now: u64) -> Value {
    let st = match s.state {
        "unconnected" => "Unc",
        "connecting" => "Cing",
        "pending" => "Pend",
        "online" => "Onl",
        "disconnected" => "Disc",
        x => x,
    };
    let tok = match s.token {
        None => "no".to_string(),
        Some(t) => tok_name(t),
    };
    let pkt = |n: u8, d: &[u8]| {
        let mut probs = Vec::new();
        let v = World::chunks6(0, d, n, &mut probs);
        if probs.is_empty() {
            Value::Array(v)
        } else {
            json!({"bad": probs, "chunks": v})
        }
    };
    json!({"st": st, "tok": tok, "own": "no", "their": "no", "ack": s.ack, "seq": s.sequence, "rr": s.request_resend,
        "pkt": pkt(s.packet.0, &s.packet.1), "pnv": pkt(s.packet_nonvital.0, &s.packet_nonvital.1),
        "rq": s.resend_queue.iter().map(|(seq, t, d)| json!({"seq": seq, "id": id_of(0, d), "sz": d.len(), "t": ms(now, *t)})).collect::<Vec<_>>(),
        "sendT": ms(now, s.send)})
}

pub struct NetWorld {
    pub net: n6::Net<u8>,
    pub cb: NCb,
    pub now_us: u64,
    pub naddrs: u8,
    pub malformed: Vec<String>,
    /// raw datagrams sent during the last `apply` (address, bytes)
    pub last_raw: Vec<(u8, Vec<u8>)>,
    helper: World,
}

#[derive(Clone, Debug, Default)]
pub struct NOutcome {
    pub res: String,
    pub evs: Vec<Value>,
    pub sends: Value,
    pub pid: Option<u32>,
}

impl NetWorld {
    pub fn new(accepting: bool, naddrs: u8) -> NetWorld {
        NetWorld {
            net: if accepting { n6::Net::server() } else { n6::Net::client() },
            cb: NCb::default(),
            now_us: 1_000_000_000,
            naddrs,
            malformed: Vec::new(),
            last_raw: Vec::new(),
            helper: World::new(Mode { v7: false, token_mode: true, seq_start: 0, init_online: false }),
        }
    }
    fn peer_states(&self) -> Vec<(u32, u8, bool, Value)> {
        let mut v: Vec<(u32, u8, bool, Value)> = self
            .net
            .verif_peers()
            .into_iter()
            .map(|p| (p.pid.0, p.addr, p.token, proj_state6(&p.conn, self.now_us)))
            .collect();
        v.sort_by_key(|p| p.0);
        v
    }
    pub fn proj(&self) -> Value {
        let peers: Vec<Value> = self
            .peer_states()
            .into_iter()
            .map(|(pid, addr, tf, x)| json!({"pid": pid, "addr": addr_name(addr), "tf": tf, "x": x}))
            .collect();
        json!({"peers": peers, "nextPid": self.net.verif_next_peer_id().0})
    }
    pub fn needs_tick_ms(&self) -> i64 {
        ms(self.now_us, self.net.needs_tick().to_opt().map(|t| t.as_usecs_since_epoch()))
    }
    fn state_of(states: &[(u32, u8, bool, Value)], addr: u8) -> Option<Value> {
        states.iter().find(|p| p.1 == addr).map(|p| p.3.clone())
    }
    /// Project what the callback collected, per address (the reader is told the true token mode).
    fn collect(&mut self, pre: &[(u32, u8, bool, Value)]) -> Value {
        let post = self.peer_states();
        let outs = std::mem::take(&mut self.cb.out);
        self.last_raw = outs.clone();
        let mut per: Vec<Vec<Value>> = vec![Vec::new(); self.naddrs as usize];
        for (addr, bytes) in outs {
            let mut has_token = false;
            let mut decided = false;
            for st in [Self::state_of(&post, addr), Self::state_of(pre, addr)].into_iter().flatten() {
                let s = st["st"].as_str().unwrap_or("");
                if s == "Pend" || s == "Onl" {
                    has_token = st["tok"] != json!("no");
                    decided = true;
                    break;
                }
                if s == "Cing" {
                    has_token = true;
                    decided = true;
                    break;
                }
            }
            let _ = decided;
            let dg = Dg { bytes, has_token, from: 0 };
            let (v, problems) = self.helper.proj_dg(&dg);
            for p in problems {
                self.malformed.push(format!("{} in datagram {}", p, vh_common::hex(&dg.bytes)));
            }
            if (addr as usize) < per.len() {
                per[addr as usize].push(v);
            } else {
                self.malformed.push(format!("datagram sent to unknown address {}", addr));
            }
        }
        let mut m = serde_json::Map::new();
        for (i, v) in per.into_iter().enumerate() {
            m.insert(addr_name(i as u8), Value::Array(v));
        }
        Value::Object(m)
    }

    /// Abstract form of a datagram arriving from `addr` (direction B), read the way the endpoint reads it: the
    /// token hint comes from the peer's state. Returns the letter and whether it is inside the modelled alphabet
    /// (no reader finding of any kind).
    pub fn proj_in(&self, addr: u8, bytes: &[u8]) -> (Value, bool) {
        let pre = self.peer_states();
        let hint = match Self::state_of(&pre, addr) {
            Some(st) if st["st"] == json!("Pend") || st["st"] == json!("Onl") => Some(st["tok"] != json!("no")),
            _ => None,
        };
        let dg = Dg { bytes: bytes.to_vec(), has_token: hint.unwrap_or(false), from: 1 };
        let (v, problems) = self.helper.proj_dg_hint(&dg, hint);
        if v["k"] == json!("unreadable") {
            return (v, problems.iter().all(|p| p.starts_with("unreadable:")));
        }
        let clean = problems.is_empty() && !v.to_string().contains("\"?") && !v.to_string().contains("\"id\":-1") && !v.to_string().contains("\"r\":-2");
        (v, clean)
    }

    /// Concrete bytes of an abstract datagram arriving from a remote (sender index 1).
    pub fn dg_bytes(&self, d: &Value) -> Vec<u8> {
        if d["k"] == json!("garbage") {
            return vec![0x42, 0x13];
        }
        if d["k"] == json!("connless") {
            let data = content(1, d["id"].as_u64().unwrap() as u32, d["sz"].as_u64().unwrap() as usize);
            let mut buf = [0u8; 2048];
            return p6::Packet::Connless(&data).write(&mut buf[..]).unwrap().to_vec();
        }
        self.helper.forge_bytes(0, d)
    }

    pub fn apply(&mut self, act: &Value) -> NOutcome {
        let a = act["a"].as_str().unwrap_or("");
        self.cb.now_us = self.now_us;
        let pre = self.peer_states();
        let pid = || PeerId(act["pid"].as_u64().unwrap_or(0) as u32);
        let mut out = NOutcome { res: "ok".into(), ..Default::default() };
        let feed_bytes: Vec<u8> = if a == "feed" {
            if let Some(h) = act["bytes"].as_str() { vh_common::unhex(h) } else { self.dg_bytes(&act["d"]) }
        } else {
            Vec::new()
        };
        // a schedule step that names a peer the real endpoint does not have cannot be executed
        if matches!(a, "accept" | "reject" | "disconnect" | "ignore" | "send" | "flush" | "rewind")
            && !pre.iter().any(|p| p.0 == act["pid"].as_u64().unwrap_or(u64::MAX) as u32)
        {
            out.res = "skipped".into();
            out.sends = self.collect(&pre);
            return out;
        }
        if matches!(a, "accept" | "reject") && pre.iter().any(|p| p.0 == act["pid"].as_u64().unwrap_or(0) as u32 && p.3["st"] != json!("Unc")) {
            out.res = "skipped".into();
            out.sends = self.collect(&pre);
            return out;
        }
        if matches!(a, "send" | "flush") && pre.iter().any(|p| p.0 == act["pid"].as_u64().unwrap_or(0) as u32 && p.3["st"] != json!("Onl")) {
            out.res = "skipped".into();
            out.sends = self.collect(&pre);
            return out;
        }
        if a == "disconnect" && pre.iter().any(|p| p.0 == act["pid"].as_u64().unwrap_or(0) as u32 && (p.3["st"] == json!("Unc") || p.3["st"] == json!("Disc"))) {
            out.res = "skipped".into();
            out.sends = self.collect(&pre);
            return out;
        }
        self.cb.fail_sends = act["fail"].as_bool().unwrap_or(false);
        self.cb.fail_addr = act["failaddr"].as_str().map(addr_of);
        let net = &mut self.net;
        let cb = &mut self.cb;
        let r: Result<(String, Vec<Value>, Option<u32>), String> = match a {
            "connect" => {
                let addr = addr_of(act["addr"].as_str().unwrap());
                catch(|| {
                    let (pid, _) = net.connect(cb, addr);
                    ("ok".to_string(), vec![], Some(pid.0))
                })
            }
            "feed" => {
                let addr = addr_of(act["addr"].as_str().unwrap());
                let bytes = feed_bytes;
                let mut buf = [0u8; 2048];
                catch(|| {
                    let mut w: Vec<n6::Warning<u8>> = Vec::new();
                    let (pkt, fres) = net.feed(cb, &mut w, addr, &bytes, &mut buf[..]);
                    let cb_ok = fres.is_ok();
                    let evs: Vec<Value> = pkt
                        .map(|ev| match ev {
                            n6::ChunkOrEvent::Chunk(c) => json!({"e": "chunk", "id": id_of(1, c.data), "sz": c.data.len(), "v": c.vital, "pid": c.pid.0}),
                            n6::ChunkOrEvent::Connless(c) => match c.pid {
                                Some(p) => json!({"e": "connless", "id": id_of(1, c.data), "sz": c.data.len(), "pid": p.0}),
                                None => json!({"e": "connless", "id": id_of(1, c.data), "sz": c.data.len(), "pid": -1, "addr": addr_name(c.addr)}),
                            },
                            n6::ChunkOrEvent::Connect(p) => json!({"e": "connect", "pid": p.0}),
                            n6::ChunkOrEvent::Ready(p) => json!({"e": "ready", "pid": p.0}),
                            n6::ChunkOrEvent::Disconnect(p, r) => json!({"e": "disc", "r": if r == &reason(r.len())[..] { r.len() as i64 } else { -2 }, "pid": p.0}),
                        })
                        .collect();
                    ((if cb_ok { "ok" } else { "callback" }).to_string(), evs, None)
                })
            }
            "accept" => catch(|| {
                let r = net.accept(cb, pid());
                ((if r.is_ok() { "ok" } else { "callback" }).to_string(), vec![], None)
            }),
            "reject" => {
                let rs = reason(act["r"].as_u64().unwrap_or(0) as usize);
                catch(|| {
                    let r = net.reject(cb, pid(), &rs);
                    ((if r.is_ok() { "ok" } else { "callback" }).to_string(), vec![], None)
                })
            }
            "disconnect" => {
                let rs = reason(act["r"].as_u64().unwrap_or(0) as usize);
                catch(|| {
                    let r = net.disconnect(cb, pid(), &rs);
                    ((if r.is_ok() { "ok" } else { "callback" }).to_string(), vec![], None)
                })
            }
            "ignore" => catch(|| {
                net.ignore(pid());
                ("ok".to_string(), vec![], None)
            }),
            "send" => {
                let data = content(0, act["id"].as_u64().unwrap() as u32, act["sz"].as_u64().unwrap() as usize);
                let vital = act["v"].as_bool().unwrap();
                catch(|| {
                    let r = match net.send(cb, n6::Chunk { pid: pid(), vital, data: &data }) {
                        Ok(()) => "ok",
                        Err(n6::Error::TooLongData) => "TooLongData",
                        Err(_) => "callback",
                    };
                    (r.to_string(), vec![], None)
                })
            }
            "flush" => catch(|| {
                let _ = net.flush(cb, pid());
                ("ok".to_string(), vec![], None)
            }),
            "connless" => {
                let addr = addr_of(act["addr"].as_str().unwrap());
                let data = content(0, act["id"].as_u64().unwrap() as u32, act["sz"].as_u64().unwrap() as usize);
                catch(|| {
                    let r = match net.send_connless(cb, addr, &data) {
                        Ok(()) => "ok",
                        Err(n6::Error::TooLongData) => "TooLongData",
                        Err(_) => "callback",
                    };
                    (r.to_string(), vec![], None)
                })
            }
            "tick" => catch(|| {
                for _ in net.tick(cb) {}
                ("ok".to_string(), vec![], None)
            }),
            "advance" => {
                self.now_us += act["d"].as_u64().unwrap() * 1000;
                Ok(("ok".to_string(), vec![], None))
            }
            "rewind" => catch(|| {
                net.verif_set_next_peer_id(pid());
                ("ok".to_string(), vec![], None)
            }),
            _ => Ok((format!("unknown action {}", a), vec![], None)),
        };
        match r {
            Ok((res, evs, p)) => {
                out.res = res;
                out.evs = evs;
                out.pid = p;
            }
            Err(m) => out.res = format!("panic: {} @ {}", m, vh_common::last_panic_location()),
        }
        self.cb.fail_sends = false;
        self.cb.fail_addr = None;
        out.sends = self.collect(&pre);
        out
    }
    fn dg_bytes_static(&self, d: &Value) -> Vec<u8> {
        self.dg_bytes(d)
    }
}
