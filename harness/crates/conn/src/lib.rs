//! Two real `Connection`s (0.6 or 0.7) over a simulated wire, driven by the
//! operational actions of spec/conn/ConnSys.tla, and the projection of the real
//! state into the vocabulary of that specification.
use libtw2_net::connection as c6;
use libtw2_net::connection7 as c7;
use libtw2_net::protocol as p6;
use libtw2_net::protocol7 as p7;
use libtw2_net::Timestamp;
use serde_json::json;
use serde_json::Value;
use vh_common::catch;

#[derive(Clone, Copy, Debug, Eq, PartialEq)]
pub struct Mode {
    pub v7: bool,
    pub token_mode: bool,
    pub seq_start: u16,
    pub init_online: bool,
}

pub const E: [&str; 2] = ["c", "s"];
pub fn eidx(e: &str) -> usize {
    if e == "c" {
        0
    } else {
        1
    }
}

// ---------------------------------------------------------------- tokens
/// Token names of the specification.  "T" / "C" / "S" are the tokens drawn by the 0.6 acceptor / the 0.7 client /
/// the 0.7 server in their first session, "T2", "C3", ... those of later sessions (Draw(e) of ConnSys.tla).
pub fn tok_bytes(name: &str) -> Option<[u8; 4]> {
    Some(match name {
        "FF" => [0xff; 4],
        "Z0" => [0; 4],
        "W" => [0x57, 0x0b, 0xad, 0x01],
        _ => {
            let b = name.as_bytes();
            if b.is_empty() || !matches!(b[0], b'T' | b'C' | b'S') {
                return None;
            }
            let n: u8 = if b.len() == 1 { 1 } else { name[1..].parse().ok().filter(|&n| n >= 2 && n <= 9)? };
            [b[0], 0x10 + n, 0x22, 0x33]
        }
    })
}
pub fn session_token(letter: &str, session: usize) -> [u8; 4] {
    let name = if session <= 1 { letter.to_string() } else { format!("{}{}", letter, session) };
    tok_bytes(&name).unwrap_or([letter.as_bytes()[0], 0x1f, 0x22, 0x33])
}
pub fn tok_name(t: Option<[u8; 4]>) -> String {
    match t {
        None => "no".into(),
        Some(b) => {
            for n in ["FF", "Z0", "W"] {
                if tok_bytes(n) == Some(b) {
                    return n.into();
                }
            }
            if matches!(b[0], b'T' | b'C' | b'S') && b[2] == 0x22 && b[3] == 0x33 && (0x11..=0x19).contains(&b[1]) {
                let l = (b[0] as char).to_string();
                return if b[1] == 0x11 { l } else { format!("{}{}", l, b[1] - 0x10) };
            }
            format!("?{}", vh_common::hex(&b))
        }
    }
}

// ---------------------------------------------------------------- payload identity
/// Deterministic content of the chunk `id` of size `sz` sent by endpoint `e`:
/// the first bytes carry the id, the rest alternates between highly compressible
/// (even ids) and incompressible (odd ids) so that both branches of the writer's
/// compression choice occur.
pub fn content(e: usize, id: u32, sz: usize) -> Vec<u8> {
    let mut v = Vec::with_capacity(sz);
    let mut x: u32 = 0x9e37_79b9 ^ id.wrapping_mul(0x85eb_ca6b) ^ ((e as u32) << 31);
    for i in 0..sz {
        let b = match i {
            0 => (id & 0xff) as u8,
            1 => ((id >> 8) & 0xff) as u8,
            _ => {
                // even sizes: highly compressible filler, odd sizes: incompressible filler
                if sz % 2 == 0 {
                    (e as u8) * 3
                } else {
                    x ^= x << 13;
                    x ^= x >> 17;
                    x ^= x << 5;
                    (x >> 7) as u8
                }
            }
        };
        v.push(b);
    }
    v
}
/// Recovers the id from received bytes sent by `e`; -1 if the content is not
/// what `content` produces for that id (corrupted).
pub fn id_of(e: usize, data: &[u8]) -> i64 {
    let id = match data.len() {
        0 => 0,
        1 => data[0] as u32,
        _ => data[0] as u32 | (data[1] as u32) << 8,
    };
    if content(e, id, data.len()) == data {
        id as i64
    } else {
        -1
    }
}
pub fn reason(r: usize) -> Vec<u8> {
    (0..r).map(|i| b'a' + (i % 26) as u8).collect()
}

// ---------------------------------------------------------------- callbacks
#[derive(Clone, Default)]
pub struct Cb {
    pub now_us: u64,
    pub out: Vec<Vec<u8>>,
    /// token the endpoint's random source will produce, after `bad_draws` reserved values
    pub token: [u8; 4],
    pub bad_draws: u32,
    pub draws: u32,
    /// fault injection: the send callback reports an error (nothing is sent)
    pub fail_sends: bool,
    /// fault injection: the `fail_at`-th datagram handed to the callback since `calls` was reset is refused (0: none)
    pub fail_at: u32,
    pub calls: u32,
}
impl Cb {
    fn draw(&mut self, buffer: &mut [u8]) {
        let v: [u8; 4] = if self.draws < self.bad_draws {
            if self.draws % 2 == 0 {
                [0xff; 4]
            } else {
                [0; 4]
            }
        } else {
            // successive good draws differ in the last byte: a token that is drawn again shows
            let k = (self.draws - self.bad_draws.min(self.draws)) as u8;
            [self.token[0], self.token[1], self.token[2], self.token[3].wrapping_add(k)]
        };
        self.draws += 1;
        for (i, b) in buffer.iter_mut().enumerate() {
            *b = v[i % 4];
        }
    }
}
#[derive(Debug)]
pub struct Never;
impl c6::Callback for Cb {
    type Error = Never;
    fn secure_random(&mut self, buffer: &mut [u8]) {
        self.draw(buffer)
    }
    fn send(&mut self, buffer: &[u8]) -> Result<(), Never> {
        self.calls += 1;
        if self.fail_sends || self.calls == self.fail_at {
            return Err(Never);
        }
        self.out.push(buffer.to_vec());
        Ok(())
    }
    fn time(&mut self) -> Timestamp {
        Timestamp::from_usecs_since_epoch(self.now_us)
    }
}
impl c7::Callback for Cb {
    type Error = Never;
    fn secure_random(&mut self, buffer: &mut [u8]) {
        self.draw(buffer)
    }
    fn send(&mut self, buffer: &[u8]) -> Result<(), Never> {
        self.calls += 1;
        if self.fail_sends || self.calls == self.fail_at {
            return Err(Never);
        }
        self.out.push(buffer.to_vec());
        Ok(())
    }
    fn time(&mut self) -> Timestamp {
        Timestamp::from_usecs_since_epoch(self.now_us)
    }
}

pub enum Conn {
    V6(c6::Connection),
    V7(c7::Connection),
}
impl Conn {
    pub fn new(v7: bool) -> Conn {
        if v7 {
            Conn::V7(c7::Connection::new())
        } else {
            Conn::V6(c6::Connection::new())
        }
    }
    pub fn vclone(&self) -> Conn {
        match self {
            Conn::V6(c) => Conn::V6(c.verif_clone()),
            Conn::V7(c) => Conn::V7(c.verif_clone()),
        }
    }
    pub fn needs_tick_us(&self) -> Option<u64> {
        match self {
            Conn::V6(c) => c.needs_tick().to_opt().map(|t| t.as_usecs_since_epoch()),
            Conn::V7(c) => c.needs_tick().to_opt().map(|t| t.as_usecs_since_epoch()),
        }
    }
}

/// A datagram in flight together with what the sender knew about its token.
#[derive(Clone, Debug)]
pub struct Dg {
    pub bytes: Vec<u8>,
    /// 0.6: does it carry a token (the reader is told the true token mode)
    pub has_token: bool,
    pub from: usize,
}

#[derive(Clone, Debug, Default)]
pub struct Outcome {
    pub res: String,
    pub evs: Vec<Value>,
    pub outs: Vec<Value>,
    pub warnings: Vec<String>,
}
impl Outcome {
    /// Class of the warning(s) the call reported, in the vocabulary of Conn.tla ("-": none).
    pub fn warn_class(&self) -> String {
        // findings of the packet reader on non-canonical input (forged datagrams) are not modelled
        let ws: Vec<&String> = self.warnings.iter().filter(|w| !w.starts_with("Packet(")).collect();
        match ws.len() {
            0 => "-".to_string(),
            1 => {
                let w = ws[0];
                for k in ["ConnlessTokenMismatch", "ConnlessResponseTokenMismatch", "TokenMismatch", "Unexpected"] {
                    if w == k {
                        return k.to_string();
                    }
                }
                if w.starts_with("Read(") {
                    "Read".to_string()
                } else {
                    format!("other: {}", w)
                }
            }
            n => format!("{} warnings: {}", n, ws.iter().map(|w| w.as_str()).collect::<Vec<_>>().join(", ")),
        }
    }
}

static ESTABLISHED: std::sync::Mutex<Option<(Mode, World)>> = std::sync::Mutex::new(None);

pub struct World {
    pub mode: Mode,
    pub ep: [Conn; 2],
    pub cb: [Cb; 2],
    pub net: [Vec<Dg>; 2],
    pub now_us: u64,
    pub sub: [Vec<i64>; 2],
    pub snv: [Vec<i64>; 2],
    pub scl: [Vec<i64>; 2],
    pub del: [Vec<Value>; 2],
    pub ready: i64,
    pub answered: bool,
    pub stable: bool,
    /// well-formedness problems of anything ever sent (C04), as (what, hex)
    pub malformed: Vec<String>,
    /// session boundaries: lengths of sub[e] / del[e] at every reset() of e
    pub bnd: [Vec<(usize, usize)>; 2],
}

fn ms(now: u64, t: Option<u64>) -> i64 {
    match t {
        None => -1,
        Some(t) => {
            if t > now {
                ((t - now) / 1000) as i64
            } else {
                0
            }
        }
    }
}

impl World {
    pub fn new(mode: Mode) -> World {
        let mut w = World {
            mode,
            ep: [Conn::new(mode.v7), Conn::new(mode.v7)],
            cb: [Cb::default(), Cb::default()],
            net: [Vec::new(), Vec::new()],
            now_us: 1_000_000_000,
            sub: Default::default(),
            snv: Default::default(),
            scl: Default::default(),
            del: Default::default(),
            ready: 0,
            answered: false,
            stable: false,
            malformed: Vec::new(),
            bnd: Default::default(),
        };
        for e in 0..2 {
            // the random source yields the two reserved values first: the library must redraw
            // (0.6/DDNet reserves ffffffff and 00000000, 0.7 only ffffffff)
            w.cb[e].bad_draws = if mode.v7 { 1 } else { 2 };
            w.cb[e].token = if mode.v7 {
                tok_bytes(if e == 0 { "C" } else { "S" }).unwrap()
            } else {
                tok_bytes("T").unwrap()
            };
        }
        if mode.init_online {
            // the warm-up is expensive (seq_start acknowledged chunks each way): do it once
            let mut g = ESTABLISHED.lock().unwrap();
            if let Some((m, base)) = g.as_ref() {
                if *m == mode {
                    return base.vclone();
                }
            }
            w.establish();
            *g = Some((mode, w.vclone()));
        }
        w
    }
    pub fn vclone(&self) -> World {
        World {
            mode: self.mode,
            ep: [self.ep[0].vclone(), self.ep[1].vclone()],
            cb: self.cb.clone(),
            net: self.net.clone(),
            now_us: self.now_us,
            sub: self.sub.clone(),
            snv: self.snv.clone(),
            scl: self.scl.clone(),
            del: self.del.clone(),
            ready: self.ready,
            answered: self.answered,
            stable: self.stable,
            malformed: self.malformed.clone(),
            bnd: self.bnd.clone(),
        }
    }

    /// Handshake over a perfect wire, then `seq_start` acknowledged vital chunks in
    /// both directions, then both sides flush at the same instant (InitOnline of the spec).
    fn establish(&mut self) {
        self.connect(0);
        let mut guard = 0;
        while (!self.net[0].is_empty() || !self.net[1].is_empty()) && guard < 100 {
            for e in 0..2 {
                if !self.net[e].is_empty() {
                    self.deliver(e, 0, false);
                }
            }
            guard += 1;
        }
        // the acceptor comes online with the first chunks packet
        self.raw_send(0, &[0u8], false);
        self.flush(0);
        while !self.net[0].is_empty() {
            self.deliver(0, 0, false);
        }
        let n = self.mode.seq_start as u32;
        for k in 0..std::cmp::max(n, 1) {
            for e in 0..2 {
                if k < n {
                    let data = [0u8];
                    self.raw_send(e, &data, true);
                }
                self.flush(e);
            }
            for _ in 0..3 {
                for e in 0..2 {
                    while !self.net[e].is_empty() {
                        self.deliver(e, 0, false);
                    }
                }
            }
        }
        // final exchange so that everything is acknowledged, then synchronise timers
        for _ in 0..3 {
            for e in 0..2 {
                self.flush(e);
                while !self.net[e].is_empty() {
                    self.deliver(e, 0, false);
                }
            }
        }
        // keep-alives carry the final acks
        self.advance(500);
        for e in 0..2 {
            self.tick(e);
        }
        for e in 0..2 {
            while !self.net[e].is_empty() {
                self.deliver(e, 0, false);
            }
        }
        self.advance(100);
        for e in 0..2 {
            self.flush(e);
        }
        for e in 0..2 {
            self.net[e].clear();
            self.sub[e].clear();
            self.snv[e].clear();
            self.scl[e].clear();
            self.del[e].clear();
        }
        self.ready = 1;
        self.answered = true;
        self.malformed.clear();
    }

    fn raw_send(&mut self, e: usize, data: &[u8], vital: bool) -> String {
        self.cb[e].now_us = self.now_us;
        let cb = &mut self.cb[e];
        let r = match &mut self.ep[e] {
            Conn::V6(c) => catch(|| match c.send(cb, data, vital) {
                Ok(()) => "ok",
                Err(c6::Error::TooLongData) => "TooLongData",
                Err(c6::Error::Callback(_)) => "callback",
            }),
            Conn::V7(c) => catch(|| match c.send(cb, data, vital) {
                Ok(()) => "ok",
                Err(c7::Error::TooLongData) => "TooLongData",
                Err(c7::Error::Callback(_)) => "callback",
            }),
        };
        match r {
            Ok(s) => s.to_string(),
            Err(m) => format!("panic: {} @ {}", m, vh_common::last_panic_location()),
        }
    }

    /// Does a datagram sent by `e` now carry a 0.6 token? (pre: state before the call)
    fn has_token6(&self, e: usize, pre: &Value) -> bool {
        if self.mode.v7 {
            return true;
        }
        let post = self.proj_ep(e);
        for st in [&post, pre] {
            let s = st["st"].as_str().unwrap_or("");
            if s == "Pend" || s == "Onl" {
                return st["tok"] != json!("no");
            }
            if s == "Cing" {
                return true;
            }
        }
        false
    }

    /// Move what the callback collected onto the wire and project it.
    fn collect(&mut self, e: usize, pre: &Value) -> Vec<Value> {
        let outs: Vec<Vec<u8>> = std::mem::take(&mut self.cb[e].out);
        let ht = self.has_token6(e, pre);
        let mut res = Vec::new();
        for bytes in outs {
            let dg = Dg {
                bytes,
                has_token: ht,
                from: e,
            };
            let (v, problems) = self.proj_dg(&dg);
            for p in problems {
                self.malformed
                    .push(format!("{} in datagram {}", p, vh_common::hex(&dg.bytes)));
            }
            if e == 1 && v["k"] == json!("ctrl") && v["c"] == json!(if self.mode.v7 { "Accept" } else { "ConnectAccept" })
            {
                self.answered = true;
            }
            res.push(v);
            self.net[e].push(dg);
        }
        res
    }

    /// `r`: Ok(true) the call returned Ok, Ok(false) it returned the error of the send callback, Err: it panicked
    fn finish(&mut self, e: usize, pre: &Value, r: Result<bool, String>) -> Outcome {
        let outs = self.collect(e, pre);
        Outcome {
            res: match r {
                Ok(true) => "ok".to_string(),
                Ok(false) => "callback".to_string(),
                Err(m) => format!("panic: {} @ {}", m, vh_common::last_panic_location()),
            },
            evs: vec![],
            outs,
            warnings: vec![],
        }
    }

    pub fn connect(&mut self, e: usize) -> Outcome {
        let pre = self.proj_ep(e);
        self.cb[e].now_us = self.now_us;
        let cb = &mut self.cb[e];
        let r = match &mut self.ep[e] {
            Conn::V6(c) => catch(|| c.connect(cb).is_ok()),
            Conn::V7(c) => catch(|| c.connect(cb).is_ok()),
        };
        self.finish(e, &pre, r)
    }
    pub fn send(&mut self, e: usize, v: bool, sz: usize, id: u32) -> Outcome {
        let pre = self.proj_ep(e);
        let data = content(e, id, sz);
        let res = self.raw_send(e, &data, v);
        // a send whose flush failed ("callback") has queued the chunk all the same: it counts as submitted
        if res == "ok" || res == "callback" {
            if v {
                self.sub[e].push(id as i64);
            } else if !self.snv[e].contains(&(id as i64)) {
                self.snv[e].push(id as i64);
            }
        }
        let mut o = self.finish(e, &pre, Ok(true));
        o.res = res;
        o
    }
    pub fn connless(&mut self, e: usize, sz: usize, id: u32) -> Outcome {
        let pre = self.proj_ep(e);
        let data = content(e, id, sz);
        self.cb[e].now_us = self.now_us;
        let cb = &mut self.cb[e];
        let r = match &mut self.ep[e] {
            Conn::V6(c) => catch(|| match c.send_connless(cb, &data) {
                Ok(()) => "ok",
                Err(c6::Error::TooLongData) => "TooLongData",
                Err(_) => "callback",
            }),
            Conn::V7(c) => catch(|| match c.send_connless(cb, &data) {
                Ok(()) => "ok",
                Err(c7::Error::TooLongData) => "TooLongData",
                Err(_) => "callback",
            }),
        };
        let res = match r {
            Ok(s) => s.to_string(),
            Err(m) => format!("panic: {} @ {}", m, vh_common::last_panic_location()),
        };
        if res == "ok" && !self.scl[e].contains(&(id as i64)) {
            self.scl[e].push(id as i64);
        }
        let mut o = self.finish(e, &pre, Ok(true));
        o.res = res;
        o
    }
    pub fn flush(&mut self, e: usize) -> Outcome {
        let pre = self.proj_ep(e);
        self.cb[e].now_us = self.now_us;
        let cb = &mut self.cb[e];
        let r = match &mut self.ep[e] {
            Conn::V6(c) => catch(|| c.flush(cb).is_ok()),
            Conn::V7(c) => catch(|| c.flush(cb).is_ok()),
        };
        self.finish(e, &pre, r)
    }
    pub fn tick(&mut self, e: usize) -> Outcome {
        let pre = self.proj_ep(e);
        self.cb[e].now_us = self.now_us;
        let cb = &mut self.cb[e];
        let r = match &mut self.ep[e] {
            Conn::V6(c) => catch(|| c.tick(cb).is_ok()),
            Conn::V7(c) => catch(|| c.tick(cb).is_ok()),
        };
        self.finish(e, &pre, r)
    }
    pub fn disconnect(&mut self, e: usize, r: usize) -> Outcome {
        let pre = self.proj_ep(e);
        let reason = reason(r);
        self.cb[e].now_us = self.now_us;
        let cb = &mut self.cb[e];
        let res = match &mut self.ep[e] {
            Conn::V6(c) => catch(|| c.disconnect(cb, &reason).is_ok()),
            Conn::V7(c) => catch(|| c.disconnect(cb, &reason).is_ok()),
        };
        self.finish(e, &pre, res)
    }
    /// Connection::reset on a closed endpoint: the same object starts a new session (new tokens will be drawn).
    pub fn creset(&mut self, e: usize) -> Outcome {
        let r = match &mut self.ep[e] {
            Conn::V6(c) => catch(|| c.reset()),
            Conn::V7(c) => catch(|| c.reset()),
        };
        self.bnd[e].push((self.sub[e].len(), self.del[e].len()));
        if e == 0 {
            self.ready = 0;
        }
        let session = self.bnd[e].len() + 1;
        let letter = if self.mode.v7 { if e == 0 { "C" } else { "S" } } else { "T" };
        self.cb[e].token = session_token(letter, session);
        self.cb[e].draws = 0;
        Outcome {
            res: match r {
                Ok(()) => "ok".to_string(),
                Err(m) => format!("panic: {} @ {}", m, vh_common::last_panic_location()),
            },
            ..Default::default()
        }
    }
    /// The accepting application replaces its (throw-away) pending connection by Connection::new_accept_token
    /// with the token that connection handed out (0.6).
    pub fn accept_token(&mut self, e: usize) -> Outcome {
        self.cb[e].now_us = self.now_us;
        let tok = match &self.ep[e] {
            Conn::V6(c) => c.verif_state().token.flatten(),
            Conn::V7(_) => None,
        };
        let tok = match tok {
            Some(t) => t,
            None => return Outcome { res: "skipped".into(), ..Default::default() },
        };
        let cb = &mut self.cb[e];
        let r = catch(|| c6::Connection::new_accept_token(cb, p6::Token(tok)));
        Outcome {
            res: match r {
                Ok(c) => {
                    self.ep[e] = Conn::V6(c);
                    "ok".to_string()
                }
                Err(m) => format!("panic: {} @ {}", m, vh_common::last_panic_location()),
            },
            ..Default::default()
        }
    }
    pub fn advance(&mut self, d_ms: u64) -> Outcome {
        self.now_us += d_ms * 1000;
        Outcome {
            res: "ok".into(),
            ..Default::default()
        }
    }
    pub fn drop_dg(&mut self, from: usize, i: usize) -> Outcome {
        if i < self.net[from].len() {
            self.net[from].remove(i);
        }
        Outcome {
            res: "ok".into(),
            ..Default::default()
        }
    }
    /// Datagram `i` in flight from `from` reaches the peer (`keep`: a copy stays in flight).
    pub fn deliver(&mut self, from: usize, i: usize, keep: bool) -> Outcome {
        if i >= self.net[from].len() {
            return Outcome {
                res: "skipped".into(),
                ..Default::default()
            };
        }
        let dg = if keep {
            self.net[from][i].clone()
        } else {
            self.net[from].remove(i)
        };
        let mut bytes = dg.bytes.clone();
        // a vanilla peer / path: the token extension of the connect request is dropped
        if !self.mode.v7 && !self.mode.token_mode && bytes.len() == 12 && bytes[..4] == [0x10, 0, 0, 1] && &bytes[4..8] == b"TKEN"
        {
            bytes.truncate(4);
        }
        self.feed(1 - from, &bytes)
    }
    /// Feed raw bytes to endpoint `p` as if sent by its peer.
    pub fn feed(&mut self, p: usize, bytes: &[u8]) -> Outcome {
        let pre = self.proj_ep(p);
        self.cb[p].now_us = self.now_us;
        let from = 1 - p;
        let mut buf = [0u8; 2048];
        let cb = &mut self.cb[p];
        let mut warnings: Vec<String> = Vec::new();
        let r = match &mut self.ep[p] {
            Conn::V6(c) => catch(|| {
                let mut w: Vec<c6::Warning> = Vec::new();
                let (pkt, res) = c.feed(cb, &mut w, bytes, &mut buf[..]);
                let cb_ok = res.is_ok();
                let evs: Vec<Value> = pkt
                    .map(|ch| match ch {
                        c6::ReceiveChunk::Connless(d) => json!({"e": "connless", "id": id_of(from, d), "sz": d.len()}),
                        c6::ReceiveChunk::Connected(d, v) => json!({"e": "chunk", "id": id_of(from, d), "sz": d.len(), "v": v}),
                        c6::ReceiveChunk::Ready => json!({"e": "ready"}),
                        c6::ReceiveChunk::Disconnect(r) => json!({"e": "disc", "r": if r == &reason(r.len())[..] { r.len() as i64 } else { -2 }}),
                    })
                    .collect();
                (evs, w.iter().map(|x| format!("{:?}", x)).collect::<Vec<_>>(), cb_ok)
            }),
            Conn::V7(c) => catch(|| {
                let mut w: Vec<c7::Warning> = Vec::new();
                let (pkt, res) = c.feed(cb, &mut w, bytes, &mut buf[..]);
                let cb_ok = res.is_ok();
                let evs: Vec<Value> = pkt
                    .map(|ch| match ch {
                        c7::ReceiveChunk::Connless(d) => json!({"e": "connless", "id": id_of(from, d), "sz": d.len()}),
                        c7::ReceiveChunk::Connected(d, v) => json!({"e": "chunk", "id": id_of(from, d), "sz": d.len(), "v": v}),
                        c7::ReceiveChunk::Ready => json!({"e": "ready"}),
                        c7::ReceiveChunk::Disconnect(r) => json!({"e": "disc", "r": if r == &reason(r.len())[..] { r.len() as i64 } else { -2 }}),
                    })
                    .collect();
                (evs, w.iter().map(|x| format!("{:?}", x)).collect::<Vec<_>>(), cb_ok)
            }),
        };
        let (evs, res) = match r {
            Ok((evs, w, cb_ok)) => {
                warnings = w;
                (evs, if cb_ok { "ok".to_string() } else { "callback".to_string() })
            }
            Err(m) => (vec![], format!("panic: {} @ {}", m, vh_common::last_panic_location())),
        };
        for ev in &evs {
            if ev["e"] == json!("ready") {
                self.ready += 1;
            }
            self.del[p].push(ev.clone());
        }
        let outs = self.collect(p, &pre);
        Outcome {
            res,
            evs,
            outs,
            warnings,
        }
    }

    // ------------------------------------------------------------ projection
    pub fn chunks6(e_from: usize, payload: &[u8], n: u8, problems: &mut Vec<String>) -> Vec<Value> {
        let mut w: Vec<p6::Warning> = Vec::new();
        let mut it = p6::ChunksIter::new(payload, n);
        let mut out = Vec::new();
        while let Some(c) = it.next_warn(&mut w) {
            let id = id_of(e_from, c.data);
            if id < 0 {
                problems.push("chunk content altered".into());
            }
            out.push(match c.vital {
                Some((seq, rs)) => json!({"v": true, "seq": seq, "rs": rs, "id": id, "sz": c.data.len()}),
                None => json!({"v": false, "seq": 0, "rs": false, "id": id, "sz": c.data.len()}),
            });
        }
        for x in w {
            problems.push(format!("warning {:?}", x));
        }
        if out.len() != n as usize {
            problems.push(format!("header says {} chunks, carries {}", n, out.len()));
        }
        out
    }
    fn chunks7(e_from: usize, payload: &[u8], n: u8, problems: &mut Vec<String>) -> Vec<Value> {
        let mut w: Vec<p7::Warning> = Vec::new();
        let mut it = p7::ChunksIter::new(payload, n);
        let mut out = Vec::new();
        while let Some(c) = it.next_warn(&mut w) {
            let id = id_of(e_from, c.data);
            if id < 0 {
                problems.push("chunk content altered".into());
            }
            out.push(match c.vital {
                Some((seq, rs)) => json!({"v": true, "seq": seq, "rs": rs, "id": id, "sz": c.data.len()}),
                None => json!({"v": false, "seq": 0, "rs": false, "id": id, "sz": c.data.len()}),
            });
        }
        for x in w {
            problems.push(format!("warning {:?}", x));
        }
        if out.len() != n as usize {
            problems.push(format!("header says {} chunks, carries {}", n, out.len()));
        }
        out
    }

    /// A captured datagram as the abstract record of the spec, obtained with the
    /// library's own reader told the true token mode, plus well-formedness problems (C04).
    pub fn proj_dg(&self, dg: &Dg) -> (Value, Vec<String>) {
        self.proj_dg_hint(dg, Some(dg.has_token))
    }
    /// `hint`: what the 0.6 reader is told about the presence of a token (None: auto-detect, as an endpoint
    /// without an agreed token mode does)
    pub fn proj_dg_hint(&self, dg: &Dg, hint: Option<bool>) -> (Value, Vec<String>) {
        let mut problems = Vec::new();
        if dg.bytes.len() > 1400 {
            problems.push(format!("datagram of {} bytes", dg.bytes.len()));
        }
        let mut buf = [0u8; 2048];
        let bytes = &dg.bytes[..];
        let from = dg.from;
        let v = if self.mode.v7 {
            let r = catch(|| {
                let mut w: Vec<p7::Warning> = Vec::new();
                let mut probs = Vec::new();
                let v = match p7::Packet::read(&mut w, bytes, &mut buf[..]) {
                    Err(e) => {
                        probs.push(format!("unreadable: {:?}", e));
                        json!({"k": "unreadable"})
                    }
                    Ok(p7::Packet::Connless(c)) => json!({"k": "connless", "id": id_of(from, c.payload), "sz": c.payload.len(),
                        "tok": tok_name(Some(c.token.0)), "rt": tok_name(Some(c.response_token.0))}),
                    Ok(p7::Packet::Connected(c)) => {
                        let tok = tok_name(Some(c.token.0));
                        match c.type_ {
                            p7::ConnectedPacketType::Chunks(rr, n, payload) => {
                                let chunks = Self::chunks7(from, payload, n, &mut probs);
                                json!({"k": "chunks", "tok": tok, "ack": c.ack, "rr": rr, "chunks": chunks})
                            }
                            p7::ConnectedPacketType::Control(ctrl) => {
                                let (name, rt, r) = match ctrl {
                                    p7::ControlPacket::KeepAlive => ("KeepAlive", "-".to_string(), -1),
                                    p7::ControlPacket::Connect(t) => ("Connect", tok_name(Some(t.0)), -1),
                                    p7::ControlPacket::Accept => ("Accept", "-".to_string(), -1),
                                    p7::ControlPacket::Close(r) => ("Close", "-".to_string(), if r == &reason(r.len())[..] { r.len() as i64 } else { -2 }),
                                    p7::ControlPacket::Token(t) => ("Token", tok_name(Some(t.0)), -1),
                                };
                                json!({"k": "ctrl", "c": name, "tok": tok, "rt": rt, "ack": c.ack, "r": r})
                            }
                        }
                    }
                };
                for x in w {
                    probs.push(format!("warning {:?}", x));
                }
                (v, probs)
            });
            match r {
                Ok((v, p)) => {
                    problems.extend(p);
                    v
                }
                Err(m) => {
                    problems.push(format!("reader panicked: {}", m));
                    json!({"k": "unreadable"})
                }
            }
        } else {
            let r = catch(|| {
                let mut w: Vec<p6::Warning> = Vec::new();
                let mut probs = Vec::new();
                let v = match p6::Packet::read(&mut w, bytes, hint, &mut buf[..]) {
                    Err(e) => {
                        probs.push(format!("unreadable: {:?}", e));
                        json!({"k": "unreadable"})
                    }
                    Ok(p6::Packet::Connless(d)) => json!({"k": "connless", "id": id_of(from, d), "sz": d.len(), "tok": "no", "rt": "-"}),
                    Ok(p6::Packet::Connected(c)) => {
                        let tok = tok_name(c.token.map(|t| t.0));
                        match c.type_ {
                            p6::ConnectedPacketType::Chunks(rr, n, payload) => {
                                let chunks = Self::chunks6(from, payload, n, &mut probs);
                                json!({"k": "chunks", "tok": tok, "ack": c.ack, "rr": rr, "chunks": chunks})
                            }
                            p6::ConnectedPacketType::Control(ctrl) => {
                                let (name, r) = match ctrl {
                                    p6::ControlPacket::KeepAlive => ("KeepAlive", -1),
                                    p6::ControlPacket::Connect => ("Connect", -1),
                                    p6::ControlPacket::ConnectAccept => ("ConnectAccept", -1),
                                    p6::ControlPacket::Accept => ("Accept", -1),
                                    p6::ControlPacket::Close(r) => ("Close", if r == &reason(r.len())[..] { r.len() as i64 } else { -2 }),
                                };
                                json!({"k": "ctrl", "c": name, "tok": tok, "rt": "-", "ack": c.ack, "r": r})
                            }
                        }
                    }
                };
                for x in w {
                    probs.push(format!("warning {:?}", x));
                }
                (v, probs)
            });
            match r {
                Ok((v, p)) => {
                    problems.extend(p);
                    v
                }
                Err(m) => {
                    problems.push(format!("reader panicked: {}", m));
                    json!({"k": "unreadable"})
                }
            }
        };
        (v, problems)
    }

    fn proj_pkt(&self, e: usize, n: u8, data: &[u8]) -> Value {
        let mut probs = Vec::new();
        let v = if self.mode.v7 {
            Self::chunks7(e, data, n, &mut probs)
        } else {
            Self::chunks6(e, data, n, &mut probs)
        };
        if probs.is_empty() {
            Value::Array(v)
        } else {
            json!({"bad": probs, "chunks": v})
        }
    }

    /// The endpoint record of Conn.tla for the real object (through the verif hook).
    pub fn proj_ep(&self, e: usize) -> Value {
        let now = self.now_us;
        match &self.ep[e] {
            Conn::V6(c) => {
                let s = c.verif_state();
                let st = match s.state {
                    "unconnected" => "Unc",
                    "connecting" => "Cing",
                    "pending" => "Pend",
                    "online" => "Onl",
                    "disconnected" => "Disc",
                    x => x,
                };
                let tok = match s.token {
                    None => "no".to_string(),
                    Some(t) => tok_name(t),
                };
                json!({"st": st, "tok": tok, "own": "no", "their": "no", "ack": s.ack, "seq": s.sequence, "rr": s.request_resend,
                    "pkt": self.proj_pkt(e, s.packet.0, &s.packet.1), "pnv": self.proj_pkt(e, s.packet_nonvital.0, &s.packet_nonvital.1),
                    "rq": s.resend_queue.iter().map(|(seq, t, d)| json!({"seq": seq, "id": id_of(e, d), "sz": d.len(), "t": ms(now, *t)})).collect::<Vec<_>>(),
                    "sendT": ms(now, s.send)})
            }
            Conn::V7(c) => {
                let s = c.verif_state();
                let st = match s.state {
                    "unconnected" => "Unc",
                    "token" => "Tok",
                    "pending_connect" => "PCon",
                    "connecting" => "Cing",
                    "pending" => "Pend",
                    "online" => "Onl",
                    "disconnected" => "Disc",
                    x => x,
                };
                json!({"st": st, "tok": "no", "own": tok_name(s.own_token).replace("no", "no"), "their": tok_name(s.their_token), "ack": s.ack, "seq": s.sequence, "rr": s.request_resend,
                    "pkt": self.proj_pkt(e, s.packet.0, &s.packet.1), "pnv": self.proj_pkt(e, s.packet_nonvital.0, &s.packet_nonvital.1),
                    "rq": s.resend_queue.iter().map(|(seq, t, d)| json!({"seq": seq, "id": id_of(e, d), "sz": d.len(), "t": ms(now, *t)})).collect::<Vec<_>>(),
                    "sendT": ms(now, s.send)})
            }
        }
    }
    pub fn needs_tick_ms(&self, e: usize) -> i64 {
        ms(self.now_us, self.ep[e].needs_tick_us())
    }

    /// Projection of the whole system (same shape as `St` of ConnExp.tla, minus counters).
    pub fn proj(&self) -> Value {
        let net: Vec<Vec<Value>> = (0..2)
            .map(|e| self.net[e].iter().map(|d| self.proj_dg(d).0).collect())
            .collect();
        let sorted = |v: &Vec<i64>| {
            let mut v = v.clone();
            v.sort();
            v
        };
        json!({
            "ep": {"c": self.proj_ep(0), "s": self.proj_ep(1)},
            "net": {"c": net[0], "s": net[1]},
            "sub": {"c": self.sub[0], "s": self.sub[1]},
            "snv": {"c": sorted(&self.snv[0]), "s": sorted(&self.snv[1])},
            "scl": {"c": sorted(&self.scl[0]), "s": sorted(&self.scl[1])},
            "del": {"c": self.del[0], "s": self.del[1]},
            "ready": self.ready,
            "answered": self.answered,
            "bnd": {"c": self.bnd[0].iter().map(|b| json!({"s": b.0, "d": b.1})).collect::<Vec<_>>(),
                    "s": self.bnd[1].iter().map(|b| json!({"s": b.0, "d": b.1})).collect::<Vec<_>>()},
            "stable": self.stable,
            "nt": {"c": self.needs_tick_ms(0), "s": self.needs_tick_ms(1)},
        })
    }

    // ------------------------------------------------------------ forged datagrams (C03)
    /// Concrete datagrams for the abstract forged record `f` aimed at endpoint `e`
    /// (built with the library's own writer; `variant` selects a mutation).
    /// Bytes of a token name; "near-*" names are derived from the token endpoint `e` insists on.
    fn tok_for(&self, e: usize, name: &str) -> Option<[u8; 4]> {
        if let Some(kind) = name.strip_prefix("near-") {
            let p = self.proj_ep(e);
            let agreed = if self.mode.v7 { p["own"].as_str().unwrap_or("") } else { p["tok"].as_str().unwrap_or("") };
            let t = tok_bytes(agreed).unwrap_or([0x54, 0x11, 0x22, 0x33]);
            return Some(match kind {
                "bit" => [t[0] ^ 1, t[1], t[2], t[3]],
                "xor" => [t[0] ^ 1, t[1] ^ 1, t[2], t[3]],
                "swap" => [t[1], t[0], t[2], t[3]],
                _ => [t[1], t[2], t[3], t[0]],
            });
        }
        tok_bytes(name)
    }

    pub fn forge_bytes(&self, e: usize, f: &Value) -> Vec<u8> {
        let from = 1 - e;
        let mut buf = [0u8; 2048];
        let tokname = f["tok"].as_str().unwrap_or("no");
        let ack = f["ack"].as_u64().unwrap_or(0) as u16;
        let mut payload: Vec<u8> = Vec::new();
        let mut n = 0u8;
        if let Some(cs) = f["chunks"].as_array() {
            for c in cs {
                let data = content(from, c["id"].as_u64().unwrap() as u32, c["sz"].as_u64().unwrap() as usize);
                let vital = if c["v"].as_bool().unwrap() {
                    Some((c["seq"].as_u64().unwrap() as u16, c["rs"].as_bool().unwrap()))
                } else {
                    None
                };
                let mut cb = [0u8; 2048];
                let w = if self.mode.v7 {
                    p7::write_chunk(&data, vital, &mut cb[..]).unwrap().to_vec()
                } else {
                    p6::write_chunk(&data, vital, &mut cb[..]).unwrap().to_vec()
                };
                payload.extend(w);
                n += 1;
            }
        }
        let rsn = reason(f["r"].as_i64().unwrap_or(0).max(0) as usize);
        if self.mode.v7 {
            let token = p7::Token(self.tok_for(e, tokname).unwrap_or([9, 9, 9, 9]));
            let rt = p7::Token(self.tok_for(e, f["rt"].as_str().unwrap_or("W")).unwrap_or([0x57, 0x0b, 0xad, 0x01]));
            let pkt = match f["k"].as_str().unwrap() {
                "connless" => {
                    let data = content(from, f["id"].as_u64().unwrap() as u32, f["sz"].as_u64().unwrap() as usize);
                    return p7::Packet::Connless(p7::ConnlessPacket { payload: &data, token, response_token: rt })
                        .write(&mut buf[..])
                        .unwrap()
                        .to_vec();
                }
                "chunks" => p7::ConnectedPacketType::Chunks(f["rr"].as_bool().unwrap(), n, &payload),
                _ => p7::ConnectedPacketType::Control(match f["c"].as_str().unwrap() {
                    "KeepAlive" => p7::ControlPacket::KeepAlive,
                    "Connect" => p7::ControlPacket::Connect(rt),
                    "Accept" => p7::ControlPacket::Accept,
                    "Close" => p7::ControlPacket::Close(&rsn),
                    _ => p7::ControlPacket::Token(rt),
                }),
            };
            p7::Packet::Connected(p7::ConnectedPacket { ack, token, type_: pkt })
                .write(&mut buf[..])
                .unwrap()
                .to_vec()
        } else {
            let token = if tokname == "no" { None } else { Some(p6::Token(self.tok_for(e, tokname).unwrap_or([9, 9, 9, 9]))) };
            let pkt = match f["k"].as_str().unwrap() {
                "chunks" => p6::ConnectedPacketType::Chunks(f["rr"].as_bool().unwrap(), n, &payload),
                _ => p6::ConnectedPacketType::Control(match f["c"].as_str().unwrap() {
                    "KeepAlive" => p6::ControlPacket::KeepAlive,
                    "Connect" => p6::ControlPacket::Connect,
                    "ConnectAccept" => p6::ControlPacket::ConnectAccept,
                    "Accept" => p6::ControlPacket::Accept,
                    _ => p6::ControlPacket::Close(&rsn),
                }),
            };
            p6::Packet::Connected(p6::ConnectedPacket { ack, token, type_: pkt })
                .write(&mut buf[..])
                .unwrap()
                .to_vec()
        }
    }

    // ------------------------------------------------------------ dispatch of a spec action
    pub fn apply(&mut self, act: &Value) -> Outcome {
        let a = act["a"].as_str().unwrap_or("");
        let e = || eidx(act["e"].as_str().unwrap_or("c"));
        // "callers only make calls the state permits": a schedule step whose precondition does not hold on
        // the real object (the code deviated earlier) is skipped, not executed
        if matches!(a, "connect" | "send" | "connless" | "flush" | "disconnect" | "creset" | "accepttoken") {
            let p = self.proj_ep(e());
            let st = p["st"].as_str().unwrap_or("").to_string();
            let ok = match a {
                "connect" => st == "Unc",
                "disconnect" => st != "Disc" && (self.mode.v7 || st != "Unc"),
                "creset" => st == "Disc",
                "accepttoken" => !self.mode.v7 && st == "Pend" && p["tok"] != json!("no"),
                _ => st == "Onl",
            };
            if !ok {
                return Outcome { res: "skipped".into(), ..Default::default() };
            }
        }
        let from = || eidx(act["from"].as_str().unwrap_or("c"));
        // fault injection: the k-th datagram this call hands to the send callback of the endpoint concerned is refused
        let k = act["k"].as_u64().unwrap_or(0) as u32;
        let target = match a {
            "deliver" | "dup" => Some(1 - from()),
            "connect" | "send" | "connless" | "flush" | "tick" | "disconnect" => Some(e()),
            _ => None,
        };
        if let Some(t) = target {
            self.cb[t].calls = 0;
            self.cb[t].fail_at = k;
        }
        let o = self.apply_inner(act);
        if let Some(t) = target {
            self.cb[t].fail_at = 0;
        }
        o
    }
    fn apply_inner(&mut self, act: &Value) -> Outcome {
        let a = act["a"].as_str().unwrap_or("");
        let e = || eidx(act["e"].as_str().unwrap_or("c"));
        let from = || eidx(act["from"].as_str().unwrap_or("c"));
        match a {
            "connect" => self.connect(e()),
            "send" => self.send(e(), act["v"].as_bool().unwrap(), act["sz"].as_u64().unwrap() as usize, act["id"].as_u64().unwrap() as u32),
            "connless" => self.connless(e(), act["sz"].as_u64().unwrap() as usize, act["id"].as_u64().unwrap() as u32),
            "flush" => self.flush(e()),
            "tick" => self.tick(e()),
            "disconnect" => self.disconnect(e(), act["r"].as_u64().unwrap() as usize),
            "creset" => self.creset(e()),
            "accepttoken" => self.accept_token(e()),
            "advance" => self.advance(act["d"].as_u64().unwrap()),
            "deliver" => self.deliver(from(), act["i"].as_u64().unwrap() as usize - 1, false),
            "dup" => self.deliver(from(), act["i"].as_u64().unwrap() as usize - 1, true),
            "drop" => self.drop_dg(from(), act["i"].as_u64().unwrap() as usize - 1),
            "forge" => {
                let bytes = self.forge_bytes(e(), &act["f"]);
                self.feed(e(), &bytes)
            }
            "stabilize" => {
                self.stable = true;
                Outcome { res: "ok".into(), ..Default::default() }
            }
            _ => Outcome { res: format!("unknown action {}", a), ..Default::default() },
        }
    }
}

pub mod drive;

pub mod net;
pub mod netiso;
