//! vh-net replay ...   direction A for spec/conn/Net.tla: every transition replayed on a real Net<u8>.
//! vh-net observe ...  observable trace of schedules, with per-address shadow Connections (NetIso.tla).
//! vh-net drive ...    direction B: random interleavings over several addresses.
use serde_json::json;
use serde_json::Value;
use std::collections::HashMap;
use std::io::BufRead;
use std::io::Write;
use vh_common::canon;
use vh_common::parse_tlc_tuple;
use vh_conn::net::*;
use vh_conn::netiso;

fn arg(args: &[String], name: &str, default: &str) -> String {
    args.iter()
        .position(|a| a == name)
        .and_then(|i| args.get(i + 1).cloned())
        .unwrap_or_else(|| default.to_string())
}

fn outcome_json(w: &NetWorld, o: &NOutcome) -> Value {
    let mut v = json!({"res": if o.res.starts_with("panic") { "panic".to_string() } else { o.res.clone() },
                       "evs": o.evs, "sends": o.sends, "nt": w.needs_tick_ms()});
    if let Some(p) = o.pid {
        v["pid"] = json!(p);
    }
    v
}

fn compare(w: &NetWorld, o: &NOutcome, exp_out: &Value, exp_st: &Value) -> Option<(String, String, Value, Value)> {
    if o.res.starts_with("panic") {
        return Some(("panic".into(), "res".into(), exp_out["res"].clone(), json!(o.res)));
    }
    let got = outcome_json(w, o);
    for (class, f) in [("res", "res"), ("events", "evs"), ("sends", "sends"), ("deadline", "nt")] {
        if canon(&got[f]) != canon(&exp_out[f]) {
            return Some((class.into(), f.into(), exp_out[f].clone(), got[f].clone()));
        }
    }
    if exp_out.get("pid").is_some() && canon(&got["pid"]) != canon(&exp_out["pid"]) {
        return Some(("pid".into(), "pid".into(), exp_out["pid"].clone(), got["pid"].clone()));
    }
    if !w.malformed.is_empty() {
        return Some(("malformed".into(), "malformed".into(), json!([]), json!(w.malformed)));
    }
    let st = w.proj();
    // the export prints peers as a set: compare sorted by pid
    let mut exp_peers: Vec<Value> = exp_st["peers"].as_array().cloned().unwrap_or_default();
    exp_peers.sort_by_key(|p| p["pid"].as_i64().unwrap_or(0));
    if canon(&st["peers"]) != canon(&Value::Array(exp_peers.clone())) {
        return Some(("internal".into(), "peers".into(), Value::Array(exp_peers), st["peers"].clone()));
    }
    if canon(&st["nextPid"]) != canon(&exp_st["nextPid"]) {
        return Some(("internal".into(), "nextPid".into(), exp_st["nextPid"].clone(), st["nextPid"].clone()));
    }
    None
}

fn replay(args: &[String]) -> i32 {
    let accepting = arg(args, "--accepting", "1") == "1";
    let naddrs: u8 = arg(args, "--addrs", "2").parse().unwrap();
    let cand_out = arg(args, "--cand-out", "");
    let max_cand: usize = arg(args, "--max-cand", "40").parse().unwrap();
    let mut paths: Vec<(usize, Value)> = vec![(0, Value::Null)];
    let mut index: HashMap<String, usize> = HashMap::new();
    let mut cur: Option<usize> = None;
    let mut transitions: u64 = 0;
    let mut mismatches: HashMap<String, u64> = HashMap::new();
    let mut cands: Vec<Value> = Vec::new();
    let mut cand_per_class: HashMap<String, usize> = HashMap::new();
    let mut samples: Vec<Value> = Vec::new();
    let mut tlc_tail: Vec<String> = Vec::new();
    let mut act_counts: HashMap<String, u64> = HashMap::new();
    let path_of = |paths: &Vec<(usize, Value)>, mut i: usize| -> Vec<Value> {
        let mut v = Vec::new();
        while i != 0 {
            v.push(paths[i].1.clone());
            i = paths[i].0;
        }
        v.reverse();
        v
    };
    let stdin = std::io::stdin();
    for line in stdin.lock().lines() {
        let line = match line {
            Ok(l) => l,
            Err(_) => break,
        };
        let t = match parse_tlc_tuple(&line) {
            Some(t) if !t.is_empty() && (t[0] == "S" || t[0] == "T") => t,
            _ => {
                if !line.trim().is_empty() {
                    tlc_tail.push(line);
                    if tlc_tail.len() > 40 {
                        tlc_tail.remove(0);
                    }
                }
                continue;
            }
        };
        if t[0] == "S" {
            let st: Value = serde_json::from_str(&t[1]).expect("state json");
            let key = canon(&st);
            let idx = if index.is_empty() {
                index.insert(key, 0);
                0
            } else {
                match index.get(&key) {
                    Some(&i) => i,
                    None => {
                        eprintln!("replay: expanded state was never reached");
                        return 2;
                    }
                }
            };
            cur = Some(idx);
            continue;
        }
        let act: Value = serde_json::from_str(&t[1]).expect("act json");
        let exp_out: Value = serde_json::from_str(&t[2]).expect("out json");
        let exp_st: Value = serde_json::from_str(&t[3]).expect("state json");
        let from_idx = match cur {
            Some(i) => i,
            None => return 2,
        };
        transitions += 1;
        *act_counts.entry(act["a"].as_str().unwrap_or("?").to_string()).or_insert(0) += 1;
        let mut path = path_of(&paths, from_idx);
        path.push(act.clone());
        vh_common::set_case(&json!({"path": path}).to_string());
        vh_common::arm(10_000);
        let mut w = NetWorld::new(accepting, naddrs);
        let mut o = NOutcome::default();
        for a in &path {
            o = w.apply(a);
        }
        vh_common::disarm();
        let key = canon(&exp_st);
        if !index.contains_key(&key) {
            paths.push((from_idx, act.clone()));
            index.insert(key, paths.len() - 1);
        }
        if samples.len() < 3 && transitions % 500 == 17 {
            samples.push(json!({"schedule": path, "result": outcome_json(&w, &o)}));
        }
        if let Some((class, field, exp, got)) = compare(&w, &o, &exp_out, &exp_st) {
            *mismatches.entry(class.clone()).or_insert(0) += 1;
            let n = cand_per_class.entry(class.clone()).or_insert(0);
            if *n < max_cand {
                *n += 1;
                cands.push(json!({"class": class, "field": field, "expected": exp, "got": got, "path": path}));
            }
        }
    }
    if !cand_out.is_empty() {
        let mut f = std::fs::File::create(&cand_out).expect("cand-out");
        for c in &cands {
            let path: Vec<Value> = c["path"].as_array().unwrap().clone();
            vh_common::set_case(&json!({"path": path}).to_string());
            vh_common::arm(20_000);
            for ev in netiso::observe(accepting, naddrs, &path) {
                writeln!(f, "{}", ev).unwrap();
            }
            vh_common::disarm();
        }
    }
    let total: u64 = mismatches.values().sum();
    println!("{}", json!({"transitions": transitions, "states": index.len(), "mismatches": mismatches, "mismatch_total": total,
                          "candidates": cands, "samples": samples, "actions": act_counts, "tlc_tail": tlc_tail}));
    0
}

fn observe_cmd(args: &[String]) -> i32 {
    let accepting = arg(args, "--accepting", "1") == "1";
    let naddrs: u8 = arg(args, "--addrs", "2").parse().unwrap();
    let file = arg(args, "--file", "");
    let v: Value = serde_json::from_str(&std::fs::read_to_string(&file).expect("read")).expect("json");
    let path: Vec<Value> = v["path"].as_array().cloned().unwrap_or_default();
    vh_common::set_case(&json!({"path": path}).to_string());
    vh_common::arm(30_000);
    for ev in netiso::observe(accepting, naddrs, &path) {
        println!("{}", ev);
    }
    vh_common::disarm();
    0
}

fn main() {
    vh_common::quiet_panics();
    vh_common::start_watchdog();
    let args: Vec<String> = std::env::args().collect();
    let rc = match args.get(1).map(|s| s.as_str()) {
        Some("replay") => replay(&args),
        Some("observe") => observe_cmd(&args),
        Some("drive") => netiso::drive(&args),
        _ => {
            eprintln!("usage: vh-net replay|observe|drive ...");
            2
        }
    };
    std::process::exit(rc);
}
