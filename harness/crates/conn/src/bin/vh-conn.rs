//! vh-conn replay ...   direction A: reads the ConnExp export of TLC on stdin, replays every
//!                      transition on two real Connections, compares with the spec's post-state.
//! vh-conn drive ...    direction B: seeded random / structured driver, records an NDJSON trace.
//! vh-conn schedule ... re-executes one schedule (replay file) and prints its observable trace.
use serde_json::json;
use serde_json::Value;
use std::collections::HashMap;
use std::io::BufRead;
use std::io::Write;
use vh_common::canon;
use vh_common::parse_tlc_tuple;
use vh_conn::*;

fn arg(args: &[String], name: &str, default: &str) -> String {
    args.iter()
        .position(|a| a == name)
        .and_then(|i| args.get(i + 1).cloned())
        .unwrap_or_else(|| default.to_string())
}

fn mode_from(args: &[String]) -> Mode {
    Mode {
        v7: arg(args, "--v7", "0") == "1",
        token_mode: arg(args, "--token-mode", "1") == "1",
        seq_start: arg(args, "--seq-start", "0").parse().unwrap(),
        init_online: arg(args, "--init-online", "0") == "1",
    }
}

/// The part of a spec state that identifies it (the VIEW of ConnSys).
fn state_key(st: &Value) -> String {
    canon(st)
}

fn outcome_json(o: &Outcome) -> Value {
    json!({"res": o.res, "evs": o.evs, "outs": o.outs, "w": o.warn_class()})
}

/// Compare the real world with the spec's post-state; returns (class, field, expected, got).
fn compare(w: &World, o: &Outcome, exp_out: &Value, exp_st: &Value) -> Option<(String, String, Value, Value)> {
    if o.res.starts_with("panic") {
        return Some(("panic".into(), "res".into(), exp_out["res"].clone(), json!(o.res)));
    }
    let got_out = outcome_json(o);
    if canon(&got_out["res"]) != canon(&exp_out["res"]) {
        return Some(("res".into(), "res".into(), exp_out["res"].clone(), got_out["res"].clone()));
    }
    if canon(&got_out["evs"]) != canon(&exp_out["evs"]) {
        return Some(("events".into(), "evs".into(), exp_out["evs"].clone(), got_out["evs"].clone()));
    }
    if canon(&got_out["outs"]) != canon(&exp_out["outs"]) {
        return Some(("sends".into(), "outs".into(), exp_out["outs"].clone(), got_out["outs"].clone()));
    }
    if !w.malformed.is_empty() {
        return Some(("malformed".into(), "malformed".into(), json!([]), json!(w.malformed)));
    }
    // the class of warning the call reported (no property speaks about warnings: a deviation here is drift)
    // (a datagram without token at an endpoint that insists on one is cut short by the reader, which may then fail to
    // parse it at all: "Read" stands for "TokenMismatch" there -- rejected before anything is touched, either way)
    let got_w = if exp_out["w"] == json!("TokenMismatch") && got_out["w"] == json!("Read") { json!("TokenMismatch") } else { got_out["w"].clone() };
    if !exp_out["w"].is_null() && canon(&got_w) != canon(&exp_out["w"]) {
        return Some(("warning".into(), "w".into(), exp_out["w"].clone(), got_out["w"].clone()));
    }
    let got = w.proj();
    // the public deadline Connection::needs_tick() of both endpoints
    if canon(&got["nt"]) != canon(&exp_out["nt"]) {
        return Some(("deadline".into(), "nt".into(), exp_out["nt"].clone(), got["nt"].clone()));
    }
    for f in ["del", "ready", "answered", "net", "sub", "snv", "scl", "bnd"] {
        if canon(&got[f]) != canon(&exp_st[f]) {
            return Some(("observable".into(), f.into(), exp_st[f].clone(), got[f].clone()));
        }
    }
    for e in E {
        if canon(&got["ep"][e]) != canon(&exp_st["ep"][e]) {
            // which field?
            let mut field = format!("ep.{}", e);
            if let (Some(a), Some(b)) = (got["ep"][e].as_object(), exp_st["ep"][e].as_object()) {
                for (k, v) in b {
                    if a.get(k).map(canon) != Some(canon(v)) {
                        field = format!("ep.{}.{}", e, k);
                        break;
                    }
                }
            }
            return Some(("internal".into(), field, exp_st["ep"][e].clone(), got["ep"][e].clone()));
        }
    }
    None
}

/// Observable trace of one schedule (for the property-level spec ChannelTrace.tla).
fn observe(mode: Mode, path: &[Value], suffix_rounds: usize) -> Vec<Value> {
    let mut w = World::new(mode);
    let mut out = Vec::new();
    out.push(json!({"a": "reset", "v7": mode.v7, "online": mode.init_online}));
    let mut seen_malformed = 0;
    let mut log = |w: &World, act: &Value, o: &Outcome, seen: &mut usize| {
        let newm: Vec<String> = w.malformed[*seen..].to_vec();
        *seen = w.malformed.len();
        let busy: Vec<bool> = (0..2)
            .map(|e| {
                let p = w.proj_ep(e);
                let st = p["st"].as_str().unwrap_or("");
                matches!(st, "Tok" | "Cing" | "Pend")
                    || (st == "Onl"
                        && (p["rq"].as_array().map(|a| !a.is_empty()).unwrap_or(true)
                            || p["pkt"].as_array().map(|a| !a.is_empty()).unwrap_or(true)
                            || p["rr"] == json!(true)))
            })
            .collect();
        let idle: Vec<bool> = (0..2)
            .map(|e| {
                let p = w.proj_ep(e);
                p["rq"].as_array().map(|a| a.is_empty()).unwrap_or(false)
                    && p["pkt"].as_array().map(|a| a.is_empty()).unwrap_or(false)
                    && p["rr"] == json!(false)
            })
            .collect();
        // the token each endpoint has handed out / insists on ("-" while none is fixed)
        let tokens: Vec<String> = (0..2)
            .map(|e| {
                let p = w.proj_ep(e);
                let st = p["st"].as_str().unwrap_or("");
                if w.mode.v7 {
                    if st == "Unc" || st == "Disc" { "-".to_string() } else { p["own"].as_str().unwrap_or("-").to_string() }
                } else if st == "Pend" || st == "Onl" {
                    p["tok"].as_str().unwrap_or("-").to_string()
                } else {
                    "-".to_string()
                }
            })
            .collect();
        let st: Vec<String> = (0..2).map(|e| w.proj_ep(e)["st"].as_str().unwrap_or("").to_string()).collect();
        json!({"a": act["a"], "act": act, "res": if o.res.starts_with("panic") { "panic".to_string() } else { o.res.clone() },
               "detail": o.res, "evs": o.evs, "nouts": o.outs.len(), "malformed": newm,
               "nt": [w.needs_tick_ms(0), w.needs_tick_ms(1)], "busy": busy, "idle": idle, "st": st, "answered": w.answered, "tokens": tokens,
               "inflight": w.net[0].len() + w.net[1].len()})
    };
    for act in path {
        let o = w.apply(act);
        let rec = log(&w, act, &o, &mut seen_malformed);
        out.push(rec);
    }
    // fair suffix on the real objects: deliver everything oldest first, tick whoever is due,
    // otherwise advance the clock to the earliest reported deadline
    if suffix_rounds > 0 {
        // usability probe: every endpoint that is online submits one more vital chunk; the fair suffix must deliver
        // it (a connection that silently lost a sequence number or a queue entry earlier fails here)
        for e in 0..2 {
            if w.proj_ep(e)["st"] == json!("Onl") {
                for act in [json!({"a": "send", "e": E[e], "id": 60001 + e, "sz": 8, "v": true}), json!({"a": "flush", "e": E[e]})] {
                    let o = w.apply(&act);
                    let rec = log(&w, &act, &o, &mut seen_malformed);
                    out.push(rec);
                }
            }
        }
        out.push(json!({"a": "fair"}));
        for _ in 0..suffix_rounds {
            let act;
            if !w.net[0].is_empty() {
                act = json!({"a": "deliver", "from": "c", "i": 1});
            } else if !w.net[1].is_empty() {
                act = json!({"a": "deliver", "from": "s", "i": 1});
            } else {
                let due: Vec<usize> = (0..2).filter(|&e| w.needs_tick_ms(e) == 0).collect();
                if let Some(&e) = due.first() {
                    act = json!({"a": "tick", "e": E[e]});
                } else {
                    let d: Vec<i64> = (0..2).map(|e| w.needs_tick_ms(e)).filter(|&t| t > 0).collect();
                    match d.iter().min() {
                        Some(&d) => act = json!({"a": "advance", "d": d}),
                        None => break,
                    }
                }
            }
            let o = w.apply(&act);
            let rec = log(&w, &act, &o, &mut seen_malformed);
            out.push(rec);
        }
        out.push(json!({"a": "end"}));
    }
    out
}

fn replay(args: &[String]) -> i32 {
    let mode = mode_from(args);
    let cand_out = arg(args, "--cand-out", "");
    let max_cand: usize = arg(args, "--max-cand", "300").parse().unwrap();
    let suffix: usize = arg(args, "--suffix", "60").parse().unwrap();
    // state key -> (parent index, act); index 0 = initial
    let mut paths: Vec<(usize, Value)> = vec![(0, Value::Null)];
    let mut index: HashMap<String, usize> = HashMap::new();
    let mut cur: Option<(usize, World)> = None;
    let mut transitions: u64 = 0;
    let mut mismatches: HashMap<String, u64> = HashMap::new();
    let mut cands: Vec<Value> = Vec::new();
    let mut cand_per_class: HashMap<String, usize> = HashMap::new();
    let mut samples: Vec<Value> = Vec::new();
    let mut tlc_tail: Vec<String> = Vec::new();
    let mut act_counts: HashMap<String, u64> = HashMap::new();
    let stdin = std::io::stdin();

    let path_of = |paths: &Vec<(usize, Value)>, mut i: usize| -> Vec<Value> {
        let mut v = Vec::new();
        while i != 0 {
            v.push(paths[i].1.clone());
            i = paths[i].0;
        }
        v.reverse();
        v
    };

    for line in stdin.lock().lines() {
        let line = match line {
            Ok(l) => l,
            Err(_) => break,
        };
        let t = match parse_tlc_tuple(&line) {
            Some(t) if !t.is_empty() && (t[0] == "S" || t[0] == "T") => t,
            _ => {
                if !line.trim().is_empty() {
                    tlc_tail.push(line);
                    if tlc_tail.len() > 40 {
                        tlc_tail.remove(0);
                    }
                }
                continue;
            }
        };
        if t[0] == "S" {
            let st: Value = serde_json::from_str(&t[1]).expect("state json");
            let key = state_key(&st);
            let idx = if index.is_empty() {
                index.insert(key, 0);
                0
            } else {
                match index.get(&key) {
                    Some(&i) => i,
                    None => {
                        eprintln!("replay: expanded state was never reached: {}", &t[1][..t[1].len().min(300)]);
                        return 2;
                    }
                }
            };
            let path = path_of(&paths, idx);
            vh_common::set_case(&json!({"path": path}).to_string());
            vh_common::arm(20_000);
            let mut w = World::new(mode);
            for a in &path {
                w.apply(a);
            }
            vh_common::disarm();
            cur = Some((idx, w));
            continue;
        }
        // T line
        let act: Value = serde_json::from_str(&t[1]).expect("act json");
        let exp_out: Value = serde_json::from_str(&t[2]).expect("out json");
        let exp_st: Value = serde_json::from_str(&t[3]).expect("state json");
        let (from_idx, base) = match &cur {
            Some((i, w)) => (*i, w),
            None => {
                eprintln!("replay: transition before any state");
                return 2;
            }
        };
        transitions += 1;
        *act_counts.entry(act["a"].as_str().unwrap_or("?").to_string()).or_insert(0) += 1;
        if act["k"].as_u64().unwrap_or(0) != 0 {
            // calls during which the send callback refused a datagram
            *act_counts.entry(format!("{}!callback", act["a"].as_str().unwrap_or("?"))).or_insert(0) += 1;
        }
        let mut w = base.vclone();
        vh_common::set_case(&json!({"path": path_of(&paths, from_idx), "act": act}).to_string());
        vh_common::arm(5_000);
        let o = w.apply(&act);
        vh_common::disarm();
        let key = state_key(&exp_st);
        if !index.contains_key(&key) {
            paths.push((from_idx, act.clone()));
            index.insert(key, paths.len() - 1);
        }
        if samples.len() < 3 && transitions % 1000 == 17 {
            let mut p = path_of(&paths, from_idx);
            p.push(act.clone());
            samples.push(json!({"schedule": p, "result": outcome_json(&o)}));
        }
        if let Some((class, field, exp, got)) = compare(&w, &o, &exp_out, &exp_st) {
            *mismatches.entry(class.clone()).or_insert(0) += 1;
            let n = cand_per_class.entry(class.clone()).or_insert(0);
            if *n < max_cand {
                *n += 1;
                let mut p = path_of(&paths, from_idx);
                p.push(act.clone());
                cands.push(json!({"class": class, "field": field, "expected": exp, "got": got, "path": p}));
            }
        }
    }
    // candidates: observable traces for the property-level spec
    if !cand_out.is_empty() {
        let mut f = std::fs::File::create(&cand_out).expect("cand-out");
        for c in &cands {
            let path: Vec<Value> = c["path"].as_array().unwrap().clone();
            vh_common::set_case(&json!({"path": path}).to_string());
            vh_common::arm(20_000);
            let tr = observe(mode, &path, suffix);
            vh_common::disarm();
            for ev in tr {
                writeln!(f, "{}", ev).unwrap();
            }
        }
    }
    let total_mismatch: u64 = mismatches.values().sum();
    let summary = json!({
        "transitions": transitions,
        "states": index.len(),
        "mismatches": mismatches,
        "mismatch_total": total_mismatch,
        "candidates": cands,
        "samples": samples,
        "actions": act_counts,
        "tlc_tail": tlc_tail,
    });
    println!("{}", summary);
    0
}

fn schedule(args: &[String]) -> i32 {
    let mode = mode_from(args);
    let file = arg(args, "--file", "");
    let suffix: usize = arg(args, "--suffix", "60").parse().unwrap();
    let v: Value = serde_json::from_str(&std::fs::read_to_string(&file).expect("read")).expect("json");
    let path: Vec<Value> = v["path"].as_array().cloned().unwrap_or_default();
    vh_common::set_case(&json!({"path": path}).to_string());
    vh_common::arm(30_000);
    let tr = observe(mode, &path, suffix);
    vh_common::disarm();
    for ev in tr {
        println!("{}", ev);
    }
    0
}

fn main() {
    vh_common::quiet_panics();
    vh_common::start_watchdog();
    let args: Vec<String> = std::env::args().collect();
    let rc = match args.get(1).map(|s| s.as_str()) {
        Some("replay") => replay(&args),
        Some("schedule") => schedule(&args),
        Some("drive") => vh_conn::drive::main(&args),
        _ => {
            eprintln!("usage: vh-conn replay|drive|schedule ...");
            2
        }
    };
    std::process::exit(rc);
}
