fn main() { let c = libtw2_net::Connection::new(); println!("{:?}", c.verif_state()); }
