//! Harness for property C16 (datafile and map readers are total; accepted files are fully
//! traversable).
//!
//! Sub-commands
//!   replay <workdir>            direction A: reads TLC's output of DatafileMC (`<<"C", json>>`
//!                               lines) on stdin; for each case writes the file with the
//!                               independent writer below, opens it with the real readers, calls
//!                               everything and compares with the verdict the spec computed.
//!   replay-one <workdir> <file> the same for one stored case (`./check C16 --replay`)
//!   drive <workdir> <seed> <n> <profile> <out.ndjson>
//!                               direction B: seeded generator of real-size files + mutations;
//!                               records one NDJSON event per file for DatafileTrace.tla
//!   buffer-replay <workdir>     datafile::buffer::Buffer: reads DfBuffer cases (histories of add_item /
//!                               add_data) from stdin, replays them, reads everything out, lays the
//!                               content out and reads it back with the real readers
//!   map-replay <workdir> <out.ndjson>
//!                               map layer: reads MapGen cases from stdin, calls every accessor of
//!                               map::Reader, records one event per case for MapTrace.tla
//!
//! Rust only builds files, calls the API and projects results / panics / hangs into JSON.
use libtw2_datafile as df;
use serde_json::{json, Map, Value};
use std::cell::RefCell;
use std::collections::HashSet;
use std::io::{BufRead, Write};
use std::path::{Path, PathBuf};
use vh_common::{canon, guarded, last_panic_location};

mod bufobs;
mod mapobs;

// ------------------------------------------------------------------ independent writer

pub fn put_i32(out: &mut Vec<u8>, x: i64) {
    out.extend_from_slice(&(x as i32).to_le_bytes());
}

pub fn adler32(b: &[u8]) -> u32 {
    let (mut a, mut s) = (1u32, 0u32);
    for &x in b {
        a = (a + x as u32) % 65521;
        s = (s + a) % 65521;
    }
    (s << 16) | a
}

/// zlib stream with one final stored block (payload < 64 KiB)
pub fn zstored(p: &[u8]) -> Vec<u8> {
    assert!(p.len() < 65536);
    let n = p.len() as u16;
    let mut o = vec![0x78, 0x01, 0x01];
    o.extend_from_slice(&n.to_le_bytes());
    o.extend_from_slice(&(!n).to_le_bytes());
    o.extend_from_slice(p);
    o.extend_from_slice(&adler32(p).to_be_bytes());
    o
}

pub fn geti(v: &Value, k: &str) -> i64 {
    v[k].as_i64().unwrap_or_else(|| panic!("harness: field {} missing in {}", k, v))
}

fn ints(v: &Value) -> Vec<i64> {
    v.as_array().map(|a| a.iter().map(|x| x.as_i64().unwrap()).collect()).unwrap_or_default()
}

pub fn bytes_of(v: &Value) -> Vec<u8> {
    ints(v).into_iter().map(|x| x as u8).collect()
}

/// Serialises the field record `L` (as printed by TLC) following doc/datafile.md.
pub fn write_layout(l: &Value) -> Vec<u8> {
    let mut o = Vec::new();
    for k in ["magic", "version", "size", "swaplen", "nit", "ni", "nd", "si", "sd"] {
        put_i32(&mut o, geti(l, k));
    }
    for t in l["types"].as_array().unwrap() {
        put_i32(&mut o, geti(t, "type_id"));
        put_i32(&mut o, geti(t, "start"));
        put_i32(&mut o, geti(t, "num"));
    }
    for k in ["ioffs", "doffs", "dsizes"] {
        for x in ints(&l[k]) {
            put_i32(&mut o, x);
        }
    }
    for it in l["items"].as_array().unwrap() {
        let tid = geti(it, "tid") as u32;
        let id = geti(it, "id") as u32;
        put_i32(&mut o, (((tid << 16) | id) as i32) as i64);
        put_i32(&mut o, geti(it, "size"));
        for x in ints(&it["w"]) {
            put_i32(&mut o, x);
        }
    }
    for d in l["data"].as_array().unwrap() {
        o.extend_from_slice(&bytes_of(d));
    }
    o
}

// ------------------------------------------------------------------ observation of the readers

thread_local! {
    static STAGE: RefCell<String> = RefCell::new(String::new());
}
fn stage(s: &str) {
    STAGE.with(|c| *c.borrow_mut() = s.to_string());
}
fn cur_stage() -> String {
    STAGE.with(|c| c.borrow().clone())
}

fn kind_of_debug(s: String) -> String {
    // "WrongMagic([0, 0, 0, 0])" -> "WrongMagic"; "CompressionError(InvalidInput)" -> "CompressionError"
    s.split(|c| c == '(' || c == ' ' || c == '{').next().unwrap_or("").to_string()
}

fn file_err_kind(e: &df::Error) -> String {
    match e {
        df::Error::Df(e) => kind_of_debug(format!("{:?}", e)),
        df::Error::Io(_) => "Io".to_string(),
    }
}

fn raw_err_kind(e: &df::raw::Error) -> String {
    match e {
        df::raw::Error::Df(e) => kind_of_debug(format!("{:?}", e)),
        df::raw::Error::Callback => "Callback".to_string(),
    }
}

fn item_json(it: &df::ItemView) -> Value {
    json!({"t": it.type_id, "id": it.id, "w": it.data})
}

fn probes_of(exp: &Value) -> Vec<(u16, u16)> {
    exp["probes"]
        .as_array()
        .map(|a| {
            a.iter()
                .map(|p| (p[0].as_i64().unwrap() as u16, p[1].as_i64().unwrap() as u16))
                .collect()
        })
        .unwrap_or_default()
}

pub fn err_verdict(kind: String) -> Value {
    json!({"open": kind, "ver": "-", "types": [], "ranges": [], "items": [], "data": [], "data_iter": [],
           "by_type": [], "absent": [], "find": []})
}

/// Everything `datafile::Reader` (file.rs) exposes, on the file at `path`.
pub fn observe_file(path: &Path, probes: &[(u16, u16)]) -> Value {
    stage("open");
    observe_reader(df::Reader::open(path), probes)
}

/// The same through `datafile::Reader::new(File)`: the datafile starts at the current offset of
/// the handle (`prefix` bytes of other content precede it in the file at `path`).
pub fn observe_file_at(path: &Path, prefix: u64, probes: &[(u16, u16)]) -> Value {
    use std::io::{Seek, SeekFrom};
    stage("open");
    let mut f = std::fs::File::open(path).expect("harness: open scratch file");
    f.seek(SeekFrom::Start(prefix)).expect("harness: seek");
    observe_reader(df::Reader::new(f), probes)
}

fn observe_reader(r: Result<df::Reader, df::Error>, probes: &[(u16, u16)]) -> Value {
    let mut r = match r {
        Ok(r) => r,
        Err(e) => return err_verdict(file_err_kind(&e)),
    };
    stage("version");
    let ver = format!("{:?}", r.version());
    stage("item_types");
    let types: Vec<u16> = r.item_types().collect();
    let types2: Vec<u16> = (0..r.num_item_types()).map(|i| r.item_type(i)).collect();
    stage("items");
    let items: Vec<Value> = r.items().map(|it| item_json(&it)).collect();
    let items2: Vec<Value> = (0..r.num_items()).map(|i| item_json(&r.item(i))).collect();
    stage("item_type_items");
    let by_type: Vec<Value> = types
        .iter()
        .map(|&t| Value::Array(r.item_type_items(t).map(|it| item_json(&it)).collect()))
        .collect();
    let ranges: Vec<Value> = types
        .iter()
        .map(|&t| {
            let x = r.item_type_indices(t);
            json!({"start": x.start, "num": x.end.saturating_sub(x.start)})
        })
        .collect();
    let absent: Vec<Value> = r.item_type_items(9).map(|it| item_json(&it)).collect();
    stage("find_item");
    let find: Vec<Value> = probes
        .iter()
        .map(|&(t, id)| match r.find_item(t, id) {
            Some(it) => json!({"found": true, "w": it.data}),
            None => json!({"found": false, "w": []}),
        })
        .collect();
    stage("read_data");
    let data: Vec<Value> = (0..r.num_data())
        .map(|k| match r.read_data(k) {
            Ok(b) => json!({"r": "ok", "b": b}),
            Err(e) => json!({"r": file_err_kind(&e), "b": []}),
        })
        .collect();
    stage("data_iter");
    let data_iter: Vec<Value> = r
        .data_iter()
        .map(|x| match x {
            Ok(b) => json!({"r": "ok", "b": b}),
            Err(e) => json!({"r": file_err_kind(&e), "b": []}),
        })
        .collect();
    stage("debug_dump");
    let dump = r.debug_dump().is_ok();
    stage("done");
    json!({"open": "ok", "ver": ver, "types": types, "types2": types2, "ranges": ranges, "items": items,
           "items2": items2, "by_type": by_type, "absent": absent, "find": find, "data": data,
           "data_iter": data_iter, "dump_ok": dump})
}

// in-memory callbacks for raw::Reader (the same contract file.rs implements on a File)
struct MemNew<'a> {
    b: &'a [u8],
    pos: usize,
    seek_base: Option<usize>,
}
impl<'a> df::raw::CallbackNew for MemNew<'a> {
    fn read(&mut self, buffer: &mut [u8]) -> Result<usize, df::raw::CallbackError> {
        let n = buffer.len().min(self.b.len() - self.pos);
        buffer[..n].copy_from_slice(&self.b[self.pos..self.pos + n]);
        self.pos += n;
        Ok(n)
    }
    fn set_seek_base(&mut self) -> Result<(), df::raw::CallbackError> {
        self.seek_base = Some(self.pos);
        Ok(())
    }
    fn ensure_filesize(&mut self, filesize: u32) -> Result<Result<(), ()>, df::raw::CallbackError> {
        Ok(if self.b.len() as u64 >= filesize as u64 { Ok(()) } else { Err(()) })
    }
}
struct MemData<'a> {
    b: &'a [u8],
    seek_base: usize,
    buf: Vec<u8>,
}
impl<'a> df::raw::CallbackReadData for MemData<'a> {
    fn seek_read(&mut self, start: u32, buffer: &mut [u8]) -> Result<usize, df::raw::CallbackError> {
        let from = (self.seek_base as u64 + start as u64).min(self.b.len() as u64) as usize;
        let n = buffer.len().min(self.b.len() - from);
        buffer[..n].copy_from_slice(&self.b[from..from + n]);
        Ok(n)
    }
    fn alloc_data_buffer(&mut self, length: usize) -> Result<(), df::raw::CallbackError> {
        // zero-initialised (calloc): large declared sizes stay untouched virtual memory
        self.buf = vec![0u8; length];
        Ok(())
    }
    fn data_buffer(&mut self) -> &mut [u8] {
        &mut self.buf
    }
}

/// Everything `datafile::raw::Reader` exposes, on an in-memory image.
pub fn observe_raw(bytes: &[u8], probes: &[(u16, u16)]) -> Value {
    observe_raw_opt(bytes, probes, true)
}

pub fn observe_raw_opt(bytes: &[u8], probes: &[(u16, u16)], with_data: bool) -> Value {
    stage("raw:new");
    let mut cb = MemNew { b: bytes, pos: 0, seek_base: None };
    let r = match df::raw::Reader::new(&mut cb) {
        Ok(r) => r,
        Err(e) => return err_verdict(raw_err_kind(&e)),
    };
    let seek_base = cb.seek_base.unwrap_or(0);
    stage("raw:version");
    let ver = format!("{:?}", r.version());
    stage("raw:item_types");
    let types: Vec<u16> = r.item_types().collect();
    stage("raw:items");
    let items: Vec<Value> = r.items().map(|it| item_json(&it)).collect();
    stage("raw:item_type_items");
    let by_type: Vec<Value> = types
        .iter()
        .map(|&t| Value::Array(r.item_type_items(t).map(|it| item_json(&it)).collect()))
        .collect();
    let ranges: Vec<Value> = types
        .iter()
        .map(|&t| {
            let x = r.item_type_indices(t);
            json!({"start": x.start, "num": x.end.saturating_sub(x.start)})
        })
        .collect();
    let absent: Vec<Value> = r.item_type_items(9).map(|it| item_json(&it)).collect();
    stage("raw:find_item");
    let find: Vec<Value> = probes
        .iter()
        .map(|&(t, id)| match r.find_item(t, id) {
            Some(it) => json!({"found": true, "w": it.data}),
            None => json!({"found": false, "w": []}),
        })
        .collect();
    stage("raw:read_data");
    let mut cd = MemData { b: bytes, seek_base, buf: Vec::new() };
    let data: Vec<Value> = (0..if with_data { r.num_data() } else { 0 })
        .map(|k| match r.read_data(&mut cd, k) {
            Ok(()) => json!({"r": "ok", "b": std::mem::take(&mut cd.buf)}),
            Err(e) => json!({"r": raw_err_kind(&e), "b": []}),
        })
        .collect();
    stage("raw:check");
    let again = r.check().is_ok();
    stage("done");
    json!({"open": "ok", "ver": ver, "types": types, "ranges": ranges, "items": items, "by_type": by_type,
           "absent": absent, "find": find, "data": data, "recheck_ok": again})
}

// ------------------------------------------------------------------ comparison with the spec's verdict

fn data_eq(exp: &Value, act: &Value) -> bool {
    let (e, a) = match (exp.as_array(), act.as_array()) {
        (Some(e), Some(a)) => (e, a),
        _ => return false,
    };
    e.len() == a.len()
        && e.iter().zip(a).all(|(x, y)| x["r"] == "unspec" || x == y)
}

/// Returns the list of fields in which the observation differs from the expected verdict.
pub fn diff(exp: &Value, act: &Value) -> Vec<String> {
    let mut d = Vec::new();
    if exp["open"] != act["open"] {
        d.push("open".to_string());
        return d;
    }
    if exp["open"] != "ok" {
        return d;
    }
    for k in ["ver", "types", "ranges", "items", "by_type", "absent", "find"] {
        if exp[k] != act[k] {
            d.push(k.to_string());
        }
    }
    // the redundant accessors must agree with the primary ones
    for (k, k2) in [("types", "types2"), ("items", "items2")] {
        if !act[k2].is_null() && exp[k] != act[k2] {
            d.push(k2.to_string());
        }
    }
    if !data_eq(&exp["data"], &act["data"]) {
        d.push("data".to_string());
    }
    if !act["data_iter"].is_null() && !data_eq(&exp["data"], &act["data_iter"]) {
        d.push("data_iter".to_string());
    }
    // `raw::Reader::check` on an accepted reader must accept again (debug_dump may legally fail
    // with the error of a data block, so `dump_ok` is informational)
    if act["recheck_ok"] == Value::Bool(false) {
        d.push("recheck_ok".to_string());
    }
    d
}

pub fn rel_loc(loc: &str) -> String {
    // strip the checkout prefix so that keys are stable across /repo and scratch worktrees
    for marker in ["/datafile/src/", "/common/src/", "/map/src/", "/zlib-minimal/src/"] {
        if let Some(i) = loc.find(marker) {
            return loc[i + 1..].to_string();
        }
    }
    // panics raised inside the standard library on behalf of the reader: toolchain-independent key
    if let Some(i) = loc.find("/library/") {
        return format!("std/{}", &loc[i + "/library/".len()..]);
    }
    loc.to_string()
}

pub struct Obs {
    pub act: Value,
    pub panic: Option<Value>,
}

pub fn run_guarded<F: FnOnce() -> Value>(f: F) -> Obs {
    match guarded(20_000, f) {
        Ok(v) => Obs { act: v, panic: None },
        Err(msg) => {
            let loc = rel_loc(&last_panic_location());
            Obs {
                act: json!({"open": "panic"}),
                panic: Some(json!({"stage": cur_stage(), "msg": msg, "loc": loc})),
            }
        }
    }
}

/// foreign content in front of an embedded datafile (odd length on purpose)
pub const PREFIX: &[u8] = b"\x89embed\n";

struct Replayer {
    path: PathBuf,
    seen: HashSet<u64>,
    n_cases: u64,
    n_wf: u64,
    n_doc: u64,
    n_accept: u64,
    n_reject: u64,
    n_mismatch: u64,
    n_panic: u64,
    n_writer: u64,
    samples: Vec<Value>,
    by_field: std::collections::BTreeMap<String, u64>,
    by_verdict: std::collections::BTreeMap<String, u64>,
}

pub fn fnv(b: &[u8]) -> u64 {
    let mut h = 0xcbf29ce484222325u64;
    for &x in b {
        h ^= x as u64;
        h = h.wrapping_mul(0x100000001b3);
    }
    h
}

impl Replayer {
    fn new(workdir: &str) -> Replayer {
        std::fs::create_dir_all(workdir).unwrap();
        Replayer {
            path: Path::new(workdir).join(format!("case-{}.map", std::process::id())),
            seen: HashSet::new(),
            n_cases: 0,
            n_wf: 0,
            n_doc: 0,
            n_accept: 0,
            n_reject: 0,
            n_mismatch: 0,
            n_panic: 0,
            n_writer: 0,
            samples: Vec::new(),
            by_field: Default::default(),
            by_verdict: Default::default(),
        }
    }

    fn case(&mut self, case: &Value, out: &mut dyn Write) {
        self.n_cases += 1;
        let l = &case["L"];
        let bytes = write_layout(l);
        // cross-check of the independent writer against the spec's own byte image
        let sum = adler32(&bytes).to_be_bytes();
        let spec_sum = bytes_of(&case["sum"]);
        let mut writer_ok = bytes.len() as i64 == geti(case, "n") && spec_sum == sum;
        if case["wf"] == Value::Bool(true) {
            // own data images from the payloads (v3: verbatim, v4: stored zlib stream)
            let v = geti(case, "v");
            for (p, img) in case["pay"].as_array().unwrap().iter().zip(l["data"].as_array().unwrap()) {
                let p = bytes_of(p);
                let mine = if v == 3 { p } else { zstored(&p) };
                writer_ok &= mine == bytes_of(img);
            }
        }
        if !writer_ok {
            self.n_writer += 1;
            writeln!(out, "{}", json!({"kind": "writer-mismatch", "case": case})).unwrap();
            return;
        }
        if self.seen.insert(fnv(&bytes)) {
            // distinct byte images
        }
        if case["wf"] == Value::Bool(true) {
            self.n_wf += 1;
        }
        if case["doc"] == Value::Bool(true) {
            self.n_doc += 1;
        }
        let exp = &case["exp"];
        let fam = format!("{}{}", case["c"]["f"].as_str().unwrap_or("?"),
                          if case["c"]["fix"] == Value::Bool(true) { "+fix" } else { "" });
        *self.by_field.entry(fam).or_insert(0) += 1;
        *self.by_verdict.entry(exp["open"].as_str().unwrap_or("?").to_string()).or_insert(0) += 1;
        if exp["open"] == "ok" {
            *self.by_verdict.entry(format!("ver:{}", exp["ver"].as_str().unwrap_or("?"))).or_insert(0) += 1;
        }
        if case["cr"].as_str().unwrap_or("none") != "none" {
            // every family must also run on the crude header variants
            let f = format!("crude/{}", case["c"]["f"].as_str().unwrap_or("?"));
            *self.by_field.entry(f).or_insert(0) += 1;
        }
        for d in exp["data"].as_array().map(|a| a.as_slice()).unwrap_or(&[]) {
            *self.by_verdict.entry(format!("data:{}", d["r"].as_str().unwrap_or("?"))).or_insert(0) += 1;
        }
        if exp["open"] == "ok" {
            self.n_accept += 1;
        } else {
            self.n_reject += 1;
        }
        std::fs::write(&self.path, &bytes).unwrap();
        let probes = probes_of(exp);
        vh_common::set_case(&canon(&json!({"c": case["c"], "v": case["v"], "L": l})));
        let path = self.path.clone();
        let o1 = run_guarded(|| observe_file(&path, &probes));
        let o2 = run_guarded(|| observe_raw(&bytes, &probes));
        // embedded: 7 foreign bytes in front, opened through Reader::new(File) at offset 7
        let mut emb = PREFIX.to_vec();
        emb.extend_from_slice(&bytes);
        std::fs::write(&self.path, &emb).unwrap();
        let o3 = run_guarded(|| observe_file_at(&path, PREFIX.len() as u64, &probes));
        for (flavour, o) in [("file", o1), ("raw", o2), ("offset", o3)] {
            if let Some(p) = o.panic {
                self.n_panic += 1;
                writeln!(
                    out,
                    "{}",
                    json!({"kind": "panic", "flavour": flavour, "panic": p, "case": case})
                )
                .unwrap();
                continue;
            }
            let d = diff(exp, &o.act);
            if !d.is_empty() {
                self.n_mismatch += 1;
                writeln!(
                    out,
                    "{}",
                    json!({"kind": "mismatch", "flavour": flavour, "fields": d, "act": o.act, "case": case})
                )
                .unwrap();
            } else if self.samples.len() < 4 && (self.n_cases % 977 == 1) {
                self.samples.push(json!({"c": case["c"], "v": case["v"], "file_len": bytes.len(),
                    "expected_open": exp["open"], "observed_open": o.act["open"], "fields": l}));
            }
        }
    }

    fn summary(&self) -> Value {
        json!({"kind": "summary", "cases": self.n_cases, "distinct_files": self.seen.len(), "wf": self.n_wf,
               "doc_valid": self.n_doc, "spec_accepts": self.n_accept, "spec_rejects": self.n_reject,
               "mismatches": self.n_mismatch, "panics": self.n_panic, "writer_mismatch": self.n_writer,
               "by_field": self.by_field, "by_verdict": self.by_verdict, "samples": self.samples})
    }
}

fn cmd_replay(workdir: &str) {
    let mut rp = Replayer::new(workdir);
    let stdin = std::io::stdin();
    let stdout = std::io::stdout();
    let mut out = std::io::BufWriter::new(stdout.lock());
    let mut tlc_tail: Vec<String> = Vec::new();
    for line in stdin.lock().lines() {
        let line = match line {
            Ok(l) => l,
            Err(_) => break,
        };
        if line.starts_with("<<\"C\"") {
            if let Some(parts) = vh_common::parse_tlc_tuple(&line) {
                if parts.len() == 2 {
                    match serde_json::from_str::<Value>(&parts[1]) {
                        Ok(case) => rp.case(&case, &mut out),
                        Err(e) => {
                            writeln!(out, "{}", json!({"kind": "bad-line", "err": e.to_string()})).unwrap()
                        }
                    }
                    continue;
                }
            }
            writeln!(out, "{}", json!({"kind": "bad-line", "err": "tuple"})).unwrap();
        } else if !line.trim().is_empty() {
            tlc_tail.push(line);
            if tlc_tail.len() > 60 {
                tlc_tail.remove(0);
            }
        }
    }
    let _ = std::fs::remove_file(&rp.path);
    writeln!(out, "{}", json!({"kind": "tlc", "tail": tlc_tail})).unwrap();
    writeln!(out, "{}", rp.summary()).unwrap();
    out.flush().unwrap();
}

/// `replay-mem`: the in-memory reader only (no file system, no FFI for version 3 files), used as
/// the program that Miri interprets: undefined behaviour on a TLC-generated case (out-of-bounds or
/// uninitialised read, misaligned reference) aborts the interpreter with an error.
fn cmd_replay_mem() {
    let stdin = std::io::stdin();
    let (mut n, mut bad) = (0u64, 0u64);
    for line in stdin.lock().lines() {
        let line = match line {
            Ok(l) => l,
            Err(_) => break,
        };
        if !line.starts_with("<<\"C\"") {
            continue;
        }
        let parts = vh_common::parse_tlc_tuple(&line).unwrap_or_default();
        if parts.len() != 2 {
            continue;
        }
        let case: Value = match serde_json::from_str(&parts[1]) {
            Ok(c) => c,
            Err(_) => continue,
        };
        let bytes = write_layout(&case["L"]);
        let exp = &case["exp"];
        let probes = probes_of(exp);
        // zlib is foreign code: data blocks are only read for version 3 under the interpreter
        let with_data = !cfg!(miri) || geti(&case, "v") == 3;
        let o = match vh_common::catch(|| observe_raw_opt(&bytes, &probes, with_data)) {
            Ok(v) => v,
            Err(msg) => json!({"open": "panic", "msg": msg}),
        };
        n += 1;
        let mut d = diff(exp, &o);
        if !with_data {
            d.retain(|f| f != "data");
        }
        if !d.is_empty() || o["open"] == "panic" {
            bad += 1;
            // (no serde_json number formatting here: its itoa 0.4 dependency uses
            // mem::uninitialized, which the interpreter rejects although it is not under test)
            println!(
                "MEM-MISMATCH field={} fix={} v={} open={} msg={} diff={}",
                case["c"]["f"].as_str().unwrap_or("?"),
                case["c"]["fix"] == Value::Bool(true),
                with_data,
                o["open"].as_str().unwrap_or("?"),
                o["msg"].as_str().unwrap_or(""),
                d.join(",")
            );
        }
    }
    println!("MEM-SUMMARY cases={} mismatches={} miri={}", n, bad, cfg!(miri));
}

fn cmd_replay_one(workdir: &str, file: &str) {
    let v: Value = serde_json::from_str(&std::fs::read_to_string(file).unwrap()).unwrap();
    let case = if v["replay"].is_object() { v["replay"].clone() } else { v };
    let mut rp = Replayer::new(workdir);
    let stdout = std::io::stdout();
    let mut out = stdout.lock();
    if case["kind"] == "map" {
        mapobs::replay_one(workdir, &case, &mut out);
        return;
    }
    if case["bytes"].is_array() {
        // a direction-B event: observe again and emit the event for DatafileTrace.tla
        let bytes = bytes_of(&case["bytes"]);
        let probes: Vec<(u16, u16)> = case["probes"]
            .as_array()
            .map(|a| a.iter().map(|p| (p[0].as_i64().unwrap() as u16, p[1].as_i64().unwrap() as u16)).collect())
            .unwrap_or_default();
        let ev = drive::make_event(
            &rp.path,
            1,
            case["mut"].as_str().unwrap_or(""),
            case["wf"] == Value::Bool(true),
            case["stored"].clone(),
            case["z"].clone(),
            &bytes,
            &probes,
        );
        writeln!(out, "{}", json!({"kind": "event", "event": ev})).unwrap();
        let _ = std::fs::remove_file(&rp.path);
        return;
    }
    rp.case(&case, &mut out);
    let _ = std::fs::remove_file(&rp.path);
    writeln!(out, "{}", rp.summary()).unwrap();
}

mod drive;

/// A logger that is enabled at Debug level and formats every record (so that the arguments of the
/// library's `error!`/`debug!` calls are evaluated as they are in an application with logging on).
struct NullLogger;
impl log::Log for NullLogger {
    fn enabled(&self, _: &log::LogMetadata) -> bool {
        true
    }
    fn log(&self, record: &log::LogRecord) {
        let _ = format!("{}", record.args());
    }
}

fn main() {
    let _ = log::set_logger(|max| {
        max.set(log::LogLevelFilter::Debug);
        Box::new(NullLogger)
    });
    vh_common::quiet_panics();
    if !cfg!(miri) {
        vh_common::start_watchdog();
    }
    let args: Vec<String> = std::env::args().collect();
    match args.get(1).map(|s| s.as_str()) {
        Some("replay") => cmd_replay(&args[2]),
        Some("replay-one") => cmd_replay_one(&args[2], &args[3]),
        Some("replay-mem") => cmd_replay_mem(),
        Some("drive") => drive::cmd_drive(&args[2..]),
        Some("map-replay") => mapobs::cmd_map_replay(&args[2], &args[3]),
        Some("buffer-replay") => bufobs::cmd_buffer_replay(&args[2]),
        _ => {
            eprintln!("usage: vh-datafile replay|replay-one|drive|map-replay ...");
            std::process::exit(2);
        }
    }
}

#[allow(dead_code)]
fn _unused(_: Map<String, Value>) {}
