use serde_json::Value;
use std::io::Write;
pub fn cmd_map_replay(_workdir: &str, _out: &str) {
    unimplemented!()
}
pub fn replay_one(_workdir: &str, _case: &Value, _out: &mut dyn Write) {
    unimplemented!()
}
