//! Map layer: opens a generated map-shaped datafile with `map::Reader` and calls every accessor.
//! Each call is projected to {f, a, out: ok|err|panic, idx: [{k, v}]} where `idx` lists every
//! index the reader handed out (data / image / envelope / sound indices, layer ranges).  The
//! events are judged by MapTrace.tla.
use crate::{geti, write_layout};
use libtw2_map::format;
use libtw2_map::reader::{self, LayerTilemapType, LayerType};
use serde_json::{json, Value};
use std::collections::BTreeSet;
use std::io::{BufRead, Write};
use std::path::Path;
use vh_common::{guarded, last_panic_location};

struct Calls {
    v: Vec<Value>,
    panics: Vec<Value>,
}

impl Calls {
    /// Runs one accessor call under catch_unwind + watchdog; `f` returns Ok(indices) or Err(()).
    fn call<F: FnOnce() -> Result<Vec<(&'static str, i64)>, String>>(&mut self, name: &str, arg: i64, f: F) -> bool {
        match guarded(20_000, f) {
            Ok(Ok(idx)) => {
                self.v.push(json!({"f": name, "a": arg, "out": "ok",
                    "idx": idx.iter().map(|(k, v)| json!({"k": k, "v": v})).collect::<Vec<_>>()}));
                true
            }
            Ok(Err(_e)) => {
                self.v.push(json!({"f": name, "a": arg, "out": "err", "idx": []}));
                false
            }
            Err(msg) => {
                let loc = crate::rel_loc(&last_panic_location());
                self.v.push(json!({"f": name, "a": arg, "out": "panic", "idx": []}));
                self.panics.push(json!({"f": name, "a": arg, "msg": msg, "loc": loc}));
                false
            }
        }
    }
}

fn e<T: std::fmt::Debug>(x: T) -> String {
    format!("{:?}", x)
}

fn opt(k: &'static str, o: Option<usize>, out: &mut Vec<(&'static str, i64)>) {
    if let Some(i) = o {
        out.push((k, i as i64));
    }
}

pub fn observe_map(path: &Path) -> Value {
    let mut c = Calls { v: Vec::new(), panics: Vec::new() };
    let opened = guarded(20_000, || reader::Reader::open(path));
    let mut r = match opened {
        Ok(Ok(r)) => r,
        Ok(Err(_)) => return json!({"open": "err", "calls": [], "panics": [], "nd": 0, "rng": {}}),
        Err(msg) => {
            return json!({"open": "panic", "calls": [], "nd": 0, "rng": {},
                          "panics": [{"f": "open", "a": 0, "msg": msg, "loc": crate::rel_loc(&last_panic_location())}]})
        }
    };
    let nd = r.reader.num_data();
    let rng_of = |t: u16| {
        let x = r.reader.item_type_indices(t);
        json!([x.start, x.end])
    };
    let rng = json!({
        "image": rng_of(format::MAP_ITEMTYPE_IMAGE),
        "envelope": rng_of(format::MAP_ITEMTYPE_ENVELOPE),
        "group": rng_of(format::MAP_ITEMTYPE_GROUP),
        "layer": rng_of(format::MAP_ITEMTYPE_LAYER),
        "sound": rng_of(format::MAP_ITEMTYPE_DDRACE_SOUND),
    });
    let image_indices = r.reader.item_type_indices(format::MAP_ITEMTYPE_IMAGE);

    c.call("check_version", 0, || r.check_version().map(|()| vec![]).map_err(e));
    c.call("version", 0, || r.version().map(|_| vec![]).map_err(e));
    let mut strings: BTreeSet<usize> = BTreeSet::new();
    let mut settings: BTreeSet<usize> = BTreeSet::new();
    let mut info = None;
    c.call("info", 0, || {
        let i = r.info().map_err(e)?;
        let mut out = vec![];
        opt("data", i.author, &mut out);
        opt("data", i.version, &mut out);
        opt("data", i.credits, &mut out);
        opt("data", i.license, &mut out);
        opt("data", i.settings, &mut out);
        info = Some(i);
        Ok(out)
    });
    if let Some(i) = info {
        for x in [i.author, i.version, i.credits, i.license].iter().flatten() {
            strings.insert(*x);
        }
        if let Some(s) = i.settings {
            settings.insert(s);
        }
    }
    // images
    let mut image_data: BTreeSet<usize> = BTreeSet::new();
    let mut image_names: BTreeSet<usize> = BTreeSet::new();
    for i in image_indices {
        let mut got = None;
        c.call("image", i as i64, || {
            let im = r.image(i).map_err(e)?;
            let mut out = vec![("data", im.name as i64)];
            opt("data", im.data, &mut out);
            got = Some((im.name, im.data, im.width, im.height));
            Ok(out)
        });
        if let Some((n, d, _, _)) = got {
            image_names.insert(n);
            if let Some(d) = d {
                image_data.insert(d);
            }
        }
    }
    // groups and their layers
    let mut tiles: Vec<(usize, reader::LayerTilemap, &'static str)> = Vec::new();
    for gi in r.group_indices() {
        let mut layers = 0..0;
        c.call("group", gi as i64, || {
            let g = r.group(gi).map_err(e)?;
            layers = g.layer_indices.clone();
            Ok(vec![("layer_lo", g.layer_indices.start as i64), ("layer_hi", g.layer_indices.end as i64)])
        });
        // a group must only hand out layer items; if it hands out more (MapTrace rejects that),
        // the walk still stays inside the item table
        let lim = r.reader.num_items();
        for li in layers.start.min(lim)..layers.end.min(lim) {
            let mut tm = None;
            c.call("layer", li as i64, || {
                let l = r.layer(li).map_err(e)?;
                let mut out = vec![];
                match l.t {
                    LayerType::Quads(q) => {
                        out.push(("data", q.data as i64));
                        opt("image", q.image, &mut out);
                    }
                    LayerType::DdraceSounds(s) => {
                        out.push(("data", s.data as i64));
                        opt("sound", s.sound, &mut out);
                    }
                    LayerType::Tilemap(t) => {
                        match t.type_ {
                            LayerTilemapType::Normal(n) => {
                                out.push(("data", n.data as i64));
                                opt("image", n.image, &mut out);
                                if let Some((env, _)) = n.color_env_and_offset {
                                    out.push(("envelope", env as i64));
                                }
                                tm = Some((n.data, t, "tiles"));
                            }
                            LayerTilemapType::Game(d) => {
                                out.push(("data", d as i64));
                                tm = Some((d, t, "tiles"));
                            }
                            LayerTilemapType::RaceTeleport(d, z) => {
                                out.push(("data", d as i64));
                                out.push(("data", z as i64));
                                tm = Some((d, t, "tele"));
                            }
                            LayerTilemapType::RaceSpeedup(d, z) => {
                                out.push(("data", d as i64));
                                out.push(("data", z as i64));
                                tm = Some((d, t, "speedup"));
                            }
                            LayerTilemapType::DdraceFront(d, z) => {
                                out.push(("data", d as i64));
                                out.push(("data", z as i64));
                                tm = Some((d, t, "tiles"));
                            }
                            LayerTilemapType::DdraceSwitch(d, z) => {
                                out.push(("data", d as i64));
                                out.push(("data", z as i64));
                                tm = Some((d, t, "switch"));
                            }
                            LayerTilemapType::DdraceTune(d, z) => {
                                out.push(("data", d as i64));
                                out.push(("data", z as i64));
                                tm = Some((d, t, "tune"));
                            }
                        }
                        if let Some(d) = t.type_.tiles() {
                            out.push(("data", d as i64));
                        }
                        let _ = t.type_.to_normal();
                    }
                }
                Ok(out)
            });
            if let Some(x) = tm {
                tiles.push(x);
            }
        }
    }
    // typed tile arrays of the layers found, through the layer's own LayerTilesIndex
    for (d, t, kind) in tiles {
        let a = d as i64;
        match kind {
            "tele" => {
                c.call("tele_layer_tiles", a, || r.tele_layer_tiles(t.tiles(d)).map(|_| vec![]).map_err(e));
            }
            "speedup" => {
                c.call("speedup_layer_tiles", a, || r.speedup_layer_tiles(t.tiles(d)).map(|_| vec![]).map_err(e));
            }
            "switch" => {
                c.call("switch_layer_tiles", a, || r.switch_layer_tiles(t.tiles(d)).map(|_| vec![]).map_err(e));
            }
            "tune" => {
                c.call("tune_layer_tiles", a, || r.tune_layer_tiles(t.tiles(d)).map(|_| vec![]).map_err(e));
            }
            _ => {
                c.call("layer_tiles", a, || r.layer_tiles(t.tiles(d)).map(|_| vec![]).map_err(e));
            }
        }
    }
    // game layers
    let mut gl = None;
    c.call("game_layers", 0, || {
        let g = r.game_layers().map_err(e)?;
        let mut out = vec![("data", g.game_raw as i64)];
        opt("data", g.teleport_raw, &mut out);
        opt("data", g.speedup_raw, &mut out);
        opt("data", g.front_raw, &mut out);
        opt("data", g.switch_raw, &mut out);
        opt("data", g.tune_raw, &mut out);
        out.push(("layer_lo", g.group.layer_indices.start as i64));
        out.push(("layer_hi", g.group.layer_indices.end as i64));
        gl = Some(g);
        Ok(out)
    });
    if let Some(g) = gl {
        c.call("gl.game", 0, || r.layer_tiles(g.game()).map(|_| vec![]).map_err(e));
        if let Some(i) = g.front() {
            c.call("gl.front", 0, || r.layer_tiles(i).map(|_| vec![]).map_err(e));
        }
        if let Some(i) = g.teleport() {
            c.call("gl.teleport", 0, || r.tele_layer_tiles(i).map(|_| vec![]).map_err(e));
        }
        if let Some(i) = g.speedup() {
            c.call("gl.speedup", 0, || r.speedup_layer_tiles(i).map(|_| vec![]).map_err(e));
        }
        if let Some(i) = g.switch() {
            c.call("gl.switch", 0, || r.switch_layer_tiles(i).map(|_| vec![]).map_err(e));
        }
        if let Some(i) = g.tune() {
            c.call("gl.tune", 0, || r.tune_layer_tiles(i).map(|_| vec![]).map_err(e));
        }
    }
    // every data block through every data-consuming accessor (indices below num_data)
    for d in 0..nd {
        let a = d as i64;
        c.call("string", a, || r.string(d).map(|_| vec![]).map_err(e));
        c.call("settings", a, || {
            let s = r.settings(d).map_err(e)?;
            let _n = s.iter().count();
            Ok(vec![])
        });
        c.call("image_name", a, || r.image_name(d).map(|_| vec![]).map_err(e));
        c.call("image_data", a, || r.image_data(d).map(|_| vec![]).map_err(e));
        c.call("layer_tiles_raw", a, || r.layer_tiles_raw(d).map(|_| vec![]).map_err(e));
        c.call("tele_layer_tiles_raw", a, || r.tele_layer_tiles_raw(d).map(|_| vec![]).map_err(e));
        c.call("speedup_layer_tiles_raw", a, || r.speedup_layer_tiles_raw(d).map(|_| vec![]).map_err(e));
        c.call("switch_layer_tiles_raw", a, || r.switch_layer_tiles_raw(d).map(|_| vec![]).map_err(e));
        c.call("tune_layer_tiles_raw", a, || r.tune_layer_tiles_raw(d).map(|_| vec![]).map_err(e));
    }
    let _ = (strings, settings, image_data, image_names);
    json!({"open": "ok", "nd": nd, "rng": rng, "calls": c.v, "panics": c.panics})
}

fn one_case(case: &Value, path: &Path) -> Value {
    let bytes = write_layout(&case["L"]);
    std::fs::write(path, &bytes).unwrap();
    vh_common::set_case(&json!({"kind": "map", "sw": case["sw"], "v": case["v"]}).to_string());
    let mut o = observe_map(path);
    let m = o.as_object_mut().unwrap();
    m.insert("sw".to_string(), case["sw"].clone());
    m.insert("v".to_string(), case["v"].clone());
    m.insert("file_len".to_string(), json!(bytes.len()));
    o
}

pub fn cmd_map_replay(workdir: &str, out_path: &str) {
    std::fs::create_dir_all(workdir).unwrap();
    let path = Path::new(workdir).join(format!("map-{}.map", std::process::id()));
    let mut out = std::io::BufWriter::new(std::fs::File::create(out_path).unwrap());
    // side file with the generated cases (field values), line n = event n; not read by TLC
    let mut cases_out = std::io::BufWriter::new(std::fs::File::create(format!("{}.cases", out_path)).unwrap());
    let stdin = std::io::stdin();
    let (mut n, mut panics, mut calls) = (0u64, 0u64, 0u64);
    let mut tlc_tail: Vec<String> = Vec::new();
    let mut shapes: BTreeSet<String> = BTreeSet::new();
    let mut first_panics: Vec<Value> = Vec::new();
    for line in stdin.lock().lines() {
        let line = match line {
            Ok(l) => l,
            Err(_) => break,
        };
        if line.starts_with("<<\"M\"") {
            let parts = vh_common::parse_tlc_tuple(&line).unwrap_or_default();
            if parts.len() == 2 {
                if let Ok(case) = serde_json::from_str::<Value>(&parts[1]) {
                    let ev = one_case(&case, &path);
                    n += 1;
                    calls += ev["calls"].as_array().map(|a| a.len()).unwrap_or(0) as u64;
                    // distinct outcome shapes: the sequence of (accessor, ok/err)
                    let shape: String = ev["calls"]
                        .as_array()
                        .map(|a| a.iter().map(|c| format!("{}:{};", c["f"].as_str().unwrap_or(""), c["out"].as_str().unwrap_or(""))).collect())
                        .unwrap_or_default();
                    shapes.insert(shape);
                    let np = ev["panics"].as_array().map(|a| a.len()).unwrap_or(0) as u64;
                    if np > 0 && first_panics.len() < 50 {
                        first_panics.push(json!({"case": case, "panics": ev["panics"]}));
                    }
                    panics += np;
                    writeln!(out, "{}", ev).unwrap();
                    writeln!(cases_out, "{}", case).unwrap();
                    continue;
                }
            }
            println!("{}", json!({"kind": "bad-line"}));
        } else if !line.trim().is_empty() {
            tlc_tail.push(line);
            if tlc_tail.len() > 40 {
                tlc_tail.remove(0);
            }
        }
    }
    out.flush().unwrap();
    cases_out.flush().unwrap();
    let _ = std::fs::remove_file(&path);
    println!("{}", json!({"kind": "tlc", "tail": tlc_tail}));
    println!("{}", json!({"kind": "summary", "cases": n, "calls": calls, "panics": panics,
                          "distinct_outcome_shapes": shapes.len(), "first_panics": first_panics}));
}

pub fn replay_one(workdir: &str, case: &Value, out: &mut dyn Write) {
    std::fs::create_dir_all(workdir).unwrap();
    let path = Path::new(workdir).join(format!("map-{}.map", std::process::id()));
    let ev = one_case(case, &path);
    let _ = std::fs::remove_file(&path);
    let _ = geti;
    writeln!(out, "{}", json!({"kind": "map-observed", "event": ev})).unwrap();
}
