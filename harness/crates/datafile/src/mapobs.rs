//! Map layer: opens a generated map-shaped datafile with `map::Reader` and calls every accessor and
//! every item struct of `map::format`.
//!
//! Each accessor call is projected to {f, a, out: ok|err|panic, val, idx}: `val` is the returned
//! value in the vocabulary of spec/datafile/Map.tla (sequences of integers, None = -1; see the
//! comments at the operators there), `idx` lists every index the reader handed out (data / image /
//! envelope / sound indices, layer ranges).  Each item struct (`MapItem*::from_slice` ...) is
//! projected to {f, a, x, r: some|none|short, val}.  The values are compared with what TLC computed
//! from Map.tla for the same case (`exp`, `parts`); the calls are also recorded for MapTrace.tla
//! (no panic/hang, indices in range).
use crate::{geti, write_layout};
use libtw2_map::format::{self, MapItemExt};
use libtw2_map::reader::{self, LayerTilemapType, LayerType};
use serde_json::{json, Value};
use std::collections::{BTreeMap, BTreeSet};
use std::io::{BufRead, Write};
use std::path::Path;
use vh_common::{guarded, last_panic_location};

type Idx = Vec<(&'static str, i64)>;

struct Calls {
    v: Vec<Value>,
    panics: Vec<Value>,
}

impl Calls {
    /// Runs one accessor call under catch_unwind + watchdog; `f` returns Ok((value, indices)) or Err.
    fn call<F: FnOnce() -> Result<(Value, Idx), String>>(&mut self, name: &str, arg: i64, f: F) -> bool {
        match guarded(20_000, f) {
            Ok(Ok((val, idx))) => {
                self.v.push(json!({"f": name, "a": arg, "out": "ok", "val": val,
                    "idx": idx.iter().map(|(k, v)| json!({"k": k, "v": v})).collect::<Vec<_>>()}));
                true
            }
            Ok(Err(_e)) => {
                self.v.push(json!({"f": name, "a": arg, "out": "err", "val": [], "idx": []}));
                false
            }
            Err(msg) => {
                let loc = crate::rel_loc(&last_panic_location());
                self.v.push(json!({"f": name, "a": arg, "out": "panic", "val": [], "idx": []}));
                self.panics.push(json!({"f": name, "a": arg, "msg": msg, "loc": loc}));
                false
            }
        }
    }
}

fn e<T: std::fmt::Debug>(x: T) -> String {
    format!("{:?}", x)
}

fn opt(k: &'static str, o: Option<usize>, out: &mut Idx) {
    if let Some(i) = o {
        out.push((k, i as i64));
    }
}

fn o2i(o: Option<usize>) -> i64 {
    o.map(|x| x as i64).unwrap_or(-1)
}

fn bytes_val(b: &[u8]) -> Vec<i64> {
    b.iter().map(|&x| x as i64).collect()
}

fn group_val(g: &reader::Group) -> Vec<i64> {
    let mut v = vec![
        g.offset_x as i64,
        g.offset_y as i64,
        g.parallax_x as i64,
        g.parallax_y as i64,
        g.layer_indices.start as i64,
        g.layer_indices.end as i64,
    ];
    match g.clipping {
        Some(c) => v.extend_from_slice(&[1, c.x as i64, c.y as i64, c.width as i64, c.height as i64]),
        None => v.extend_from_slice(&[0, 0, 0, 0, 0]),
    }
    v.extend(bytes_val(&g.name));
    v
}

fn tilemap_flags(t: &LayerTilemapType) -> i64 {
    match t {
        LayerTilemapType::Normal(_) => 0,
        LayerTilemapType::Game(_) => 1,
        LayerTilemapType::RaceTeleport(..) => 2,
        LayerTilemapType::RaceSpeedup(..) => 4,
        LayerTilemapType::DdraceFront(..) => 8,
        LayerTilemapType::DdraceSwitch(..) => 16,
        LayerTilemapType::DdraceTune(..) => 32,
    }
}

fn layer_val(l: &reader::Layer) -> Vec<i64> {
    let mut v = vec![l.detail as i64];
    match l.t {
        LayerType::Quads(q) => {
            v.extend_from_slice(&[3, q.num_quads as i64, q.data as i64, o2i(q.image)]);
            v.extend(bytes_val(&q.name));
        }
        LayerType::DdraceSounds(s) => {
            v.extend_from_slice(&[10, s.num_sources as i64, s.data as i64, o2i(s.sound), s.legacy as i64]);
            v.extend(bytes_val(&s.name));
        }
        LayerType::Tilemap(t) => {
            v.extend_from_slice(&[2, t.width as i64, t.height as i64, tilemap_flags(&t.type_)]);
            match t.type_ {
                LayerTilemapType::Normal(n) => {
                    v.extend_from_slice(&[n.color.red as i64, n.color.green as i64, n.color.blue as i64, n.color.alpha as i64]);
                    match n.color_env_and_offset {
                        Some((env, off)) => v.extend_from_slice(&[env as i64, off as i64]),
                        None => v.extend_from_slice(&[-1, 0]),
                    }
                    v.extend_from_slice(&[o2i(n.image), n.data as i64]);
                }
                LayerTilemapType::Game(d) => v.push(d as i64),
                LayerTilemapType::RaceTeleport(d, z)
                | LayerTilemapType::RaceSpeedup(d, z)
                | LayerTilemapType::DdraceFront(d, z)
                | LayerTilemapType::DdraceSwitch(d, z)
                | LayerTilemapType::DdraceTune(d, z) => v.extend_from_slice(&[d as i64, z as i64]),
            }
            v.extend(bytes_val(&t.name));
        }
    }
    v
}

trait TileFields {
    fn fields(&self, out: &mut Vec<i64>);
}
impl TileFields for format::Tile {
    fn fields(&self, out: &mut Vec<i64>) {
        out.extend_from_slice(&[self.index as i64, self.flags as i64, self.skip as i64, self.reserved as i64]);
    }
}
impl TileFields for format::TeleTile {
    fn fields(&self, out: &mut Vec<i64>) {
        out.extend_from_slice(&[self.number as i64, self.index as i64]);
    }
}
impl TileFields for format::SpeedupTile {
    fn fields(&self, out: &mut Vec<i64>) {
        out.extend_from_slice(&[self.force as i64, self.max_speed as i64, self.index as i64, self.padding as i64,
                                self.angle.get() as i64]);
    }
}
impl TileFields for format::SwitchTile {
    fn fields(&self, out: &mut Vec<i64>) {
        out.extend_from_slice(&[self.number as i64, self.index as i64, self.flags as i64, self.delay as i64]);
    }
}
impl TileFields for format::TuneTile {
    fn fields(&self, out: &mut Vec<i64>) {
        out.extend_from_slice(&[self.number as i64, self.index as i64]);
    }
}

fn raw_val<T: TileFields>(tiles: &[T]) -> Value {
    let mut v = Vec::new();
    for t in tiles {
        t.fields(&mut v);
    }
    json!(v)
}

/// << rows, columns >> followed by the tiles at (0,0), (0,1), ... (row by row).  (A macro: the
/// array type of the `ndarray` crate is not named, the harness does not depend on it.)
macro_rules! array_val {
    ($a:expr) => {{
        let a = $a;
        let (rows, cols) = a.dim();
        let mut v = vec![rows as i64, cols as i64];
        for y in 0..rows {
            for x in 0..cols {
                a[(y, x)].fields(&mut v);
            }
        }
        json!(v)
    }};
}

// ------------------------------------------------------------------ item structs of map::format

fn part<T: format::MapItem, F: Fn(&T) -> Vec<i64>>(
    out: &mut Vec<Value>,
    redundant_ok: &mut bool,
    name: &str,
    k: usize,
    slice: &[i32],
    fields: F,
) {
    let (r, val) = match T::from_slice(slice) {
        Ok(Some(x)) => ("some", fields(x)),
        Ok(None) => ("none", vec![]),
        Err(format::TooShort) => ("short", vec![]),
    };
    // the three other entry points must agree with from_slice
    let r2 = match T::from_slice_rest(slice) {
        Ok(Some((x, rest))) => ("some", fields(x), rest.len() as i64),
        Ok(None) => ("none", vec![], -1),
        Err(format::TooShort) => ("short", vec![], -1),
    };
    let mut copy = slice.to_vec();
    let r3 = match T::from_slice_mut(&mut copy) {
        Ok(Some(x)) => ("some", fields(x)),
        Ok(None) => ("none", vec![]),
        Err(format::TooShort) => ("short", vec![]),
    };
    let mut copy2 = slice.to_vec();
    let r4 = match T::from_slice_rest_mut(&mut copy2) {
        Ok(Some((x, rest))) => ("some", fields(x), rest.len() as i64),
        Ok(None) => ("none", vec![], -1),
        Err(format::TooShort) => ("short", vec![], -1),
    };
    let rest_len = if r == "some" { slice.len() as i64 - T::sum_len() as i64 } else { -1 };
    if (r2.0, &r2.1, r2.2) != (r, &val, rest_len) || (r3.0, &r3.1) != (r, &val) || (r4.0, &r4.1, r4.2) != (r, &val, rest_len) {
        *redundant_ok = false;
    }
    out.push(json!({"f": name, "a": k, "x": 0, "r": r, "val": val}));
}

fn i32s_of<T: libtw2_datafile::OnlyI32>(x: &[T]) -> Vec<i64> {
    // projection only: the envelope point structs have private fields
    let n = std::mem::size_of_val(x) / 4;
    let p = x.as_ptr() as *const i32;
    (0..n).map(|i| unsafe { *p.add(i) } as i64).collect()
}

fn parts_of_item(out: &mut Vec<Value>, ok: &mut bool, k: usize, type_id: u16, d: &[i32]) {
    use format::*;
    part::<MapItemCommonV0, _>(out, ok, "CommonV0", k, d, |x| vec![x.version as i64]);
    match type_id {
        MAP_ITEMTYPE_VERSION => part::<MapItemVersionV1, _>(out, ok, "VersionV1", k, d, |_| vec![]),
        MAP_ITEMTYPE_INFO => {
            part::<MapItemInfoV1, _>(out, ok, "InfoV1", k, d, |x| {
                vec![x.author as i64, x.version as i64, x.credits as i64, x.license as i64]
            });
            part::<MapItemInfoV2, _>(out, ok, "InfoV2", k, d, |x| vec![x.settings as i64]);
            part::<MapItemInfoV1ExtraRace, _>(out, ok, "InfoV1ExtraRace", k, d, |x| vec![x.settings as i64]);
        }
        MAP_ITEMTYPE_IMAGE => {
            part::<MapItemImageV1, _>(out, ok, "ImageV1", k, d, |x| {
                vec![x.width as i64, x.height as i64, x.external as i64, x.name as i64, x.data as i64]
            });
            part::<MapItemImageV2, _>(out, ok, "ImageV2", k, d, |x| vec![x.format as i64]);
        }
        MAP_ITEMTYPE_ENVELOPE => {
            part::<MapItemEnvelopeV1Legacy, _>(out, ok, "EnvelopeV1Legacy", k, d, |x| {
                vec![x.channels as i64, x.start_points as i64, x.num_points as i64, x._name as i64]
            });
            part::<MapItemEnvelopeV1, _>(out, ok, "EnvelopeV1", k, d, |x| {
                let mut v = vec![x.channels as i64, x.start_points as i64, x.num_points as i64];
                v.extend(x.name.iter().map(|&y| y as i64));
                v
            });
            part::<MapItemEnvelopeV2, _>(out, ok, "EnvelopeV2", k, d, |x| vec![x.synchronized as i64]);
            if let Ok(Some(x)) = MapItemEnvelopeV1::from_slice(d) {
                out.push(json!({"f": "EnvelopeV1.name", "a": k, "x": 0, "r": "some", "val": x.name_get().to_vec()}));
                let _ = format!("{:?}", x);
            }
        }
        MAP_ITEMTYPE_GROUP => {
            part::<MapItemGroupV1, _>(out, ok, "GroupV1", k, d, |x| {
                vec![x.offset_x as i64, x.offset_y as i64, x.parallax_x as i64, x.parallax_y as i64,
                     x.start_layer as i64, x.num_layers as i64]
            });
            part::<MapItemGroupV2, _>(out, ok, "GroupV2", k, d, |x| {
                vec![x.use_clipping as i64, x.clip_x as i64, x.clip_y as i64, x.clip_w as i64, x.clip_h as i64]
            });
            part::<MapItemGroupV3, _>(out, ok, "GroupV3", k, d, |x| x.name.iter().map(|&y| y as i64).collect());
        }
        MAP_ITEMTYPE_LAYER => {
            part::<MapItemLayerV1, _>(out, ok, "LayerV1", k, d, |x| vec![x.type_ as i64, x.flags as i64]);
            if let Ok(Some((_, rest))) = MapItemLayerV1::from_slice_rest(d) {
                part::<MapItemLayerV1CommonV0, _>(out, ok, "LayerV1CommonV0", k, rest, |x| vec![x.version as i64]);
                part::<MapItemLayerV1TilemapV1, _>(out, ok, "LayerV1TilemapV1", k, rest, |_| vec![]);
                part::<MapItemLayerV1TilemapV2, _>(out, ok, "LayerV1TilemapV2", k, rest, |x| {
                    vec![x.width as i64, x.height as i64, x.flags as i64, x.color_red as i64, x.color_green as i64,
                         x.color_blue as i64, x.color_alpha as i64, x.color_env as i64, x.color_env_offset as i64,
                         x.image as i64, x.data as i64]
                });
                part::<MapItemLayerV1TilemapV3, _>(out, ok, "LayerV1TilemapV3", k, rest, |x| {
                    x.name.iter().map(|&y| y as i64).collect()
                });
                part::<MapItemLayerV1QuadsV1, _>(out, ok, "LayerV1QuadsV1", k, rest, |x| {
                    vec![x.num_quads as i64, x.data as i64, x.image as i64]
                });
                part::<MapItemLayerV1QuadsV2, _>(out, ok, "LayerV1QuadsV2", k, rest, |x| {
                    x.name.iter().map(|&y| y as i64).collect()
                });
                part::<MapItemLayerV1DdraceSoundsV1, _>(out, ok, "LayerV1DdraceSoundsV1", k, rest, |x| {
                    let mut v = vec![x.num_sources as i64, x.data as i64, x.sound as i64];
                    v.extend(x.name.iter().map(|&y| y as i64));
                    v
                });
                part::<MapItemLayerV1DdraceSoundsV2, _>(out, ok, "LayerV1DdraceSoundsV2", k, rest, |_| vec![]);
                if !rest.is_empty() {
                    for flags in [1u32, 2, 4, 8, 16, 32] {
                        let (r, val) = match MapItemLayerV1TilemapExtraRace::from_slice(rest, rest[0], flags) {
                            Some(x) => ("some", vec![x.data as i64]),
                            None => ("none", vec![]),
                        };
                        out.push(json!({"f": "ExtraRace", "a": k, "x": flags, "r": r, "val": val}));
                    }
                }
            }
        }
        MAP_ITEMTYPE_ENVPOINTS => {
            for ev in 0..5 {
                let (r, val) = match MapItemEnvpointV1::from_slice(d, ev) {
                    Some(ps) => {
                        let _ = format!("{:?}", ps);
                        let mut v = vec![ps.len() as i64];
                        v.extend(i32s_of(ps));
                        ("some", v)
                    }
                    None => ("none", vec![]),
                };
                out.push(json!({"f": "EnvpointV1", "a": k, "x": ev, "r": r, "val": val}));
                let (r, val) = match MapItemEnvpointV2::from_slice(d, ev) {
                    Some(ps) => {
                        let _ = format!("{:?}", ps);
                        let mut v = vec![ps.len() as i64];
                        v.extend(i32s_of(ps));
                        ("some", v)
                    }
                    None => ("none", vec![]),
                };
                out.push(json!({"f": "EnvpointV2", "a": k, "x": ev, "r": r, "val": val}));
            }
        }
        MAP_ITEMTYPE_DDRACE_SOUND => {
            part::<MapItemDdraceSoundV1, _>(out, ok, "DdraceSoundV1", k, d, |x| {
                vec![x.external as i64, x.name as i64, x.data as i64, x.data_size as i64]
            });
        }
        _ => {}
    }
}

// ------------------------------------------------------------------ the reader's accessors

pub fn observe_map(path: &Path) -> Value {
    let mut c = Calls { v: Vec::new(), panics: Vec::new() };
    let opened = guarded(20_000, || reader::Reader::open(path));
    let mut r = match opened {
        Ok(Ok(r)) => r,
        Ok(Err(_)) => {
            return json!({"open": "err", "calls": [], "panics": [], "nd": 0, "rng": {}, "parts": [],
                          "redundant_ok": true})
        }
        Err(msg) => {
            return json!({"open": "panic", "calls": [], "nd": 0, "rng": {}, "parts": [], "redundant_ok": true,
                          "panics": [{"f": "open", "a": 0, "msg": msg, "loc": crate::rel_loc(&last_panic_location())}]})
        }
    };
    let nd = r.reader.num_data();
    let rng_of = |t: u16| {
        let x = r.reader.item_type_indices(t);
        json!([x.start, x.end])
    };
    let rng = json!({
        "image": rng_of(format::MAP_ITEMTYPE_IMAGE),
        "envelope": rng_of(format::MAP_ITEMTYPE_ENVELOPE),
        "group": rng_of(format::MAP_ITEMTYPE_GROUP),
        "layer": rng_of(format::MAP_ITEMTYPE_LAYER),
        "sound": rng_of(format::MAP_ITEMTYPE_DDRACE_SOUND),
    });
    let image_indices = r.reader.item_type_indices(format::MAP_ITEMTYPE_IMAGE);
    let layer_indices = r.reader.item_type_indices(format::MAP_ITEMTYPE_LAYER);

    // the item structs on every item of their type (pure functions of the item's words)
    let mut parts: Vec<Value> = Vec::new();
    let mut redundant_ok = true;
    let items: Vec<(u16, Vec<i32>)> = r.reader.items().map(|it| (it.type_id, it.data.to_vec())).collect();
    for (k, (t, d)) in items.iter().enumerate() {
        let res = guarded(20_000, || {
            let mut out = Vec::new();
            let mut ok = true;
            parts_of_item(&mut out, &mut ok, k, *t, d);
            (out, ok)
        });
        match res {
            Ok((out, ok)) => {
                parts.extend(out);
                redundant_ok &= ok;
            }
            Err(msg) => {
                let loc = crate::rel_loc(&last_panic_location());
                c.v.push(json!({"f": "format", "a": k, "out": "panic", "val": [], "idx": []}));
                c.panics.push(json!({"f": "format", "a": k, "msg": msg, "loc": loc}));
            }
        }
    }

    c.call("check_version", 0, || r.check_version().map(|()| (json!([]), vec![])).map_err(e));
    c.call("version", 0, || r.version().map(|v| (json!([v]), vec![])).map_err(e));
    c.call("info", 0, || {
        let i = r.info().map_err(e)?;
        let mut out = vec![];
        opt("data", i.author, &mut out);
        opt("data", i.version, &mut out);
        opt("data", i.credits, &mut out);
        opt("data", i.license, &mut out);
        opt("data", i.settings, &mut out);
        Ok((json!([o2i(i.author), o2i(i.version), o2i(i.credits), o2i(i.license), o2i(i.settings)]), out))
    });
    for i in image_indices {
        c.call("image", i as i64, || {
            let im = r.image(i).map_err(e)?;
            let mut out = vec![("data", im.name as i64)];
            opt("data", im.data, &mut out);
            Ok((json!([im.width, im.height, im.name, o2i(im.data)]), out))
        });
    }
    // groups and their layers (the walk follows what the reader hands out), then the layer items
    // no group refers to
    let mut tiles: Vec<(usize, usize, reader::LayerTilemap, &'static str)> = Vec::new();
    let mut visited: BTreeSet<usize> = BTreeSet::new();
    let mut to_visit: Vec<usize> = Vec::new();
    for gi in r.group_indices() {
        let mut layers = 0..0;
        c.call("group", gi as i64, || {
            let g = r.group(gi).map_err(e)?;
            layers = g.layer_indices.clone();
            Ok((json!(group_val(&g)),
                vec![("layer_lo", g.layer_indices.start as i64), ("layer_hi", g.layer_indices.end as i64)]))
        });
        // a group must only hand out layer items; if it hands out more (MapTrace rejects that),
        // the walk still stays inside the item table
        let lim = r.reader.num_items();
        for li in layers.start.min(lim)..layers.end.min(lim) {
            to_visit.push(li);
        }
    }
    to_visit.extend(layer_indices);
    for li in to_visit {
        if !visited.insert(li) {
            continue;
        }
        let mut tm = None;
        c.call("layer", li as i64, || {
            let l = r.layer(li).map_err(e)?;
            let mut out = vec![];
            match l.t {
                LayerType::Quads(q) => {
                    out.push(("data", q.data as i64));
                    opt("image", q.image, &mut out);
                }
                LayerType::DdraceSounds(s) => {
                    out.push(("data", s.data as i64));
                    opt("sound", s.sound, &mut out);
                }
                LayerType::Tilemap(t) => {
                    match t.type_ {
                        LayerTilemapType::Normal(n) => {
                            out.push(("data", n.data as i64));
                            opt("image", n.image, &mut out);
                            if let Some((env, _)) = n.color_env_and_offset {
                                out.push(("envelope", env as i64));
                            }
                            tm = Some((n.data, t, "tiles"));
                        }
                        LayerTilemapType::Game(d) => {
                            out.push(("data", d as i64));
                            tm = Some((d, t, "tiles"));
                        }
                        LayerTilemapType::RaceTeleport(d, z) => {
                            out.push(("data", d as i64));
                            out.push(("data", z as i64));
                            tm = Some((d, t, "tele"));
                        }
                        LayerTilemapType::RaceSpeedup(d, z) => {
                            out.push(("data", d as i64));
                            out.push(("data", z as i64));
                            tm = Some((d, t, "speedup"));
                        }
                        LayerTilemapType::DdraceFront(d, z) => {
                            out.push(("data", d as i64));
                            out.push(("data", z as i64));
                            tm = Some((d, t, "tiles"));
                        }
                        LayerTilemapType::DdraceSwitch(d, z) => {
                            out.push(("data", d as i64));
                            out.push(("data", z as i64));
                            tm = Some((d, t, "switch"));
                        }
                        LayerTilemapType::DdraceTune(d, z) => {
                            out.push(("data", d as i64));
                            out.push(("data", z as i64));
                            tm = Some((d, t, "tune"));
                        }
                    }
                    if let Some(d) = t.type_.tiles() {
                        out.push(("data", d as i64));
                    }
                    let _ = t.type_.to_normal();
                }
            }
            Ok((json!(layer_val(&l)), out))
        });
        if let Some((d, t, kind)) = tm {
            tiles.push((li, d, t, kind));
        }
    }
    // typed tile arrays of the layers found, through the layer's own LayerTilesIndex
    for (li, d, t, kind) in tiles {
        let a = li as i64;
        match kind {
            "tele" => {
                c.call("tiles", a, || r.tele_layer_tiles(t.tiles(d)).map(|x| (array_val!(&x), vec![])).map_err(e));
            }
            "speedup" => {
                c.call("tiles", a, || r.speedup_layer_tiles(t.tiles(d)).map(|x| (array_val!(&x), vec![])).map_err(e));
            }
            "switch" => {
                c.call("tiles", a, || r.switch_layer_tiles(t.tiles(d)).map(|x| (array_val!(&x), vec![])).map_err(e));
            }
            "tune" => {
                c.call("tiles", a, || r.tune_layer_tiles(t.tiles(d)).map(|x| (array_val!(&x), vec![])).map_err(e));
            }
            _ => {
                c.call("tiles", a, || r.layer_tiles(t.tiles(d)).map(|x| (array_val!(&x), vec![])).map_err(e));
            }
        }
    }
    // game layers
    let mut gl = None;
    c.call("game_layers", 0, || {
        let g = r.game_layers().map_err(e)?;
        let mut out = vec![("data", g.game_raw as i64)];
        opt("data", g.teleport_raw, &mut out);
        opt("data", g.speedup_raw, &mut out);
        opt("data", g.front_raw, &mut out);
        opt("data", g.switch_raw, &mut out);
        opt("data", g.tune_raw, &mut out);
        out.push(("layer_lo", g.group.layer_indices.start as i64));
        out.push(("layer_hi", g.group.layer_indices.end as i64));
        let mut v = group_val(&g.group);
        v.extend_from_slice(&[g.width as i64, g.height as i64, g.game_raw as i64, o2i(g.teleport_raw),
                              o2i(g.speedup_raw), o2i(g.front_raw), o2i(g.switch_raw), o2i(g.tune_raw)]);
        gl = Some(g);
        Ok((json!(v), out))
    });
    if let Some(g) = gl {
        c.call("gl.game", 0, || r.layer_tiles(g.game()).map(|x| (array_val!(&x), vec![])).map_err(e));
        if let Some(i) = g.front() {
            c.call("gl.front", 0, || r.layer_tiles(i).map(|x| (array_val!(&x), vec![])).map_err(e));
        }
        if let Some(i) = g.teleport() {
            c.call("gl.teleport", 0, || r.tele_layer_tiles(i).map(|x| (array_val!(&x), vec![])).map_err(e));
        }
        if let Some(i) = g.speedup() {
            c.call("gl.speedup", 0, || r.speedup_layer_tiles(i).map(|x| (array_val!(&x), vec![])).map_err(e));
        }
        if let Some(i) = g.switch() {
            c.call("gl.switch", 0, || r.switch_layer_tiles(i).map(|x| (array_val!(&x), vec![])).map_err(e));
        }
        if let Some(i) = g.tune() {
            c.call("gl.tune", 0, || r.tune_layer_tiles(i).map(|x| (array_val!(&x), vec![])).map_err(e));
        }
    }
    // every data block through every data-consuming accessor (indices below num_data)
    for d in 0..nd {
        let a = d as i64;
        c.call("string", a, || r.string(d).map(|s| (json!(s), vec![])).map_err(e));
        c.call("settings", a, || {
            let s = r.settings(d).map_err(e)?;
            let cmds: Vec<Vec<u8>> = s.iter().map(|x| x.to_vec()).collect();
            Ok((json!(cmds), vec![]))
        });
        c.call("image_name", a, || r.image_name(d).map(|s| (json!(s), vec![])).map_err(e));
        c.call("image_data", a, || r.image_data(d).map(|s| (json!(s), vec![])).map_err(e));
        c.call("layer_tiles_raw", a, || r.layer_tiles_raw(d).map(|t| (raw_val(&t), vec![])).map_err(e));
        c.call("tele_layer_tiles_raw", a, || r.tele_layer_tiles_raw(d).map(|t| (raw_val(&t), vec![])).map_err(e));
        c.call("speedup_layer_tiles_raw", a, || r.speedup_layer_tiles_raw(d).map(|t| (raw_val(&t), vec![])).map_err(e));
        c.call("switch_layer_tiles_raw", a, || r.switch_layer_tiles_raw(d).map(|t| (raw_val(&t), vec![])).map_err(e));
        c.call("tune_layer_tiles_raw", a, || r.tune_layer_tiles_raw(d).map(|t| (raw_val(&t), vec![])).map_err(e));
    }
    json!({"open": "ok", "nd": nd, "rng": rng, "calls": c.v, "panics": c.panics, "parts": parts,
           "redundant_ok": redundant_ok})
}

// ------------------------------------------------------------------ comparison with the spec's expectation

fn key3(o: &Value) -> (String, i64, i64) {
    (o["f"].as_str().unwrap_or("").to_string(), o["a"].as_i64().unwrap_or(-1), o["x"].as_i64().unwrap_or(0))
}

/// Differences between what Map.tla expects (`exp`: calls, `parts`) and what was observed.
pub fn compare(case: &Value, obs: &Value) -> Vec<Value> {
    let mut out = Vec::new();
    if case["exp"].is_null() {
        return out;
    }
    if obs["open"] != "ok" {
        out.push(json!({"what": "open", "f": "open", "a": 0, "exp": "ok", "act": obs["open"]}));
        return out;
    }
    let mut act: BTreeMap<(String, i64, i64), &Value> = BTreeMap::new();
    for c in obs["calls"].as_array().unwrap() {
        act.entry(key3(c)).or_insert(c);
    }
    for x in case["exp"].as_array().unwrap() {
        match act.get(&key3(x)) {
            None => out.push(json!({"what": "not-called", "f": x["f"], "a": x["a"], "exp": x["out"], "act": "-"})),
            Some(c) => {
                if c["out"] == "panic" {
                    continue; // reported as a panic
                }
                if c["out"] != x["out"] {
                    out.push(json!({"what": "out", "f": x["f"], "a": x["a"], "exp": x["out"], "act": c["out"]}));
                } else if x["out"] == "ok" && c["val"] != x["val"] {
                    out.push(json!({"what": "val", "f": x["f"], "a": x["a"], "exp": x["val"], "act": c["val"]}));
                }
            }
        }
    }
    let mut actp: BTreeMap<(String, i64, i64), &Value> = BTreeMap::new();
    for c in obs["parts"].as_array().unwrap() {
        actp.insert(key3(c), c);
    }
    let fpanic = obs["calls"].as_array().unwrap().iter().any(|c| c["f"] == "format" && c["out"] == "panic");
    for x in case["parts"].as_array().unwrap() {
        match actp.get(&key3(x)) {
            None => {
                if !fpanic {
                    out.push(json!({"what": "part-not-called", "f": x["f"], "a": x["a"], "x": x["x"], "exp": x["r"], "act": "-"}))
                }
            }
            Some(c) => {
                if c["r"] != x["r"] {
                    out.push(json!({"what": "part-r", "f": x["f"], "a": x["a"], "x": x["x"], "exp": x["r"], "act": c["r"]}));
                } else if c["val"] != x["val"] {
                    out.push(json!({"what": "part-val", "f": x["f"], "a": x["a"], "x": x["x"], "exp": x["val"], "act": c["val"]}));
                }
            }
        }
    }
    if obs["redundant_ok"] == Value::Bool(false) {
        out.push(json!({"what": "redundant", "f": "from_slice*", "a": 0, "exp": "agree", "act": "differ"}));
    }
    out
}

/// The event for MapTrace.tla: calls that are trivially accepted (ok/err without indices) are
/// counted, not listed.
fn trace_event(obs: &Value, case: &Value, file_len: usize) -> Value {
    let calls = obs["calls"].as_array().cloned().unwrap_or_default();
    let mut kept = Vec::new();
    let (mut n_ok, mut n_err) = (0u64, 0u64);
    for c in &calls {
        let trivial = (c["out"] == "ok" || c["out"] == "err") && c["idx"].as_array().map(|a| a.is_empty()).unwrap_or(true);
        if c["out"] == "ok" {
            n_ok += 1;
        } else if c["out"] == "err" {
            n_err += 1;
        }
        if !trivial {
            kept.push(json!({"f": c["f"], "a": c["a"], "out": c["out"], "idx": c["idx"]}));
        }
    }
    json!({"open": obs["open"], "nd": obs["nd"], "rng": obs["rng"], "calls": kept, "n_ok": n_ok, "n_err": n_err,
           "panics": obs["panics"], "sw": case["sw"], "v": case["v"], "file_len": file_len})
}

pub struct Outcome {
    pub event: Value,
    pub obs: Value,
    pub mismatches: Vec<Value>,
}

fn one_case(case: &Value, path: &Path) -> Outcome {
    let bytes = write_layout(&case["L"]);
    std::fs::write(path, &bytes).unwrap();
    vh_common::set_case(&json!({"kind": "map", "sw": case["sw"], "v": case["v"], "p": case["p"]}).to_string());
    let obs = observe_map(path);
    let mismatches = compare(case, &obs);
    Outcome { event: trace_event(&obs, case, bytes.len()), obs, mismatches }
}

pub fn cmd_map_replay(workdir: &str, out_path: &str) {
    std::fs::create_dir_all(workdir).unwrap();
    let path = Path::new(workdir).join(format!("map-{}.map", std::process::id()));
    let mut out = std::io::BufWriter::new(std::fs::File::create(out_path).unwrap());
    // side file with the generated cases (field values), line n = event n; not read by TLC
    let mut cases_out = std::io::BufWriter::new(std::fs::File::create(format!("{}.cases", out_path)).unwrap());
    let stdin = std::io::stdin();
    let (mut n, mut panics, mut calls, mut nparts, mut n_wf, mut n_valid, mut n_mis) = (0u64, 0u64, 0u64, 0u64, 0u64, 0u64, 0u64);
    let mut tlc_tail: Vec<String> = Vec::new();
    let mut shapes: BTreeSet<String> = BTreeSet::new();
    let mut first_panics: Vec<Value> = Vec::new();
    let mut by_kind: BTreeMap<String, u64> = BTreeMap::new();
    let mut exp_seen: BTreeMap<String, u64> = BTreeMap::new();
    let mut groups: BTreeMap<String, (u64, Value)> = BTreeMap::new();
    let mut sample: Option<Value> = None;
    for line in stdin.lock().lines() {
        let line = match line {
            Ok(l) => l,
            Err(_) => break,
        };
        if line.starts_with("<<\"M\"") {
            let parts = vh_common::parse_tlc_tuple(&line).unwrap_or_default();
            if parts.len() == 2 {
                if let Ok(case) = serde_json::from_str::<Value>(&parts[1]) {
                    let oc = one_case(&case, &path);
                    n += 1;
                    let ev = &oc.event;
                    let all = oc.obs["calls"].as_array().map(|a| a.len()).unwrap_or(0) as u64;
                    calls += all;
                    nparts += oc.obs["parts"].as_array().map(|a| a.len()).unwrap_or(0) as u64;
                    if case["wf"] == Value::Bool(true) {
                        n_wf += 1;
                    }
                    if case["valid"] == Value::Bool(true) {
                        n_valid += 1;
                    }
                    *by_kind.entry(case["sw"]["kind"].as_str().unwrap_or("?").to_string()).or_insert(0) += 1;
                    // which expected outcomes occurred (vacuity check of the enumeration)
                    for x in case["exp"].as_array().map(|a| a.as_slice()).unwrap_or(&[]) {
                        let k = format!("{}:{}", x["f"].as_str().unwrap_or("?"), x["out"].as_str().unwrap_or("?"));
                        *exp_seen.entry(k).or_insert(0) += 1;
                        if x["f"] == "layer" && x["out"] == "ok" {
                            let v = &x["val"];
                            let k = if v[1] == 2 { format!("layer-kind:tilemap:{}", v[4]) } else { format!("layer-kind:{}", v[1]) };
                            *exp_seen.entry(k).or_insert(0) += 1;
                        }
                    }
                    for x in case["parts"].as_array().map(|a| a.as_slice()).unwrap_or(&[]) {
                        let k = format!("part:{}:{}", x["f"].as_str().unwrap_or("?"), x["r"].as_str().unwrap_or("?"));
                        *exp_seen.entry(k).or_insert(0) += 1;
                    }
                    // distinct outcome shapes: the sequence of (accessor, ok/err)
                    let shape: String = oc.obs["calls"]
                        .as_array()
                        .map(|a| a.iter().map(|c| format!("{}:{};", c["f"].as_str().unwrap_or(""), c["out"].as_str().unwrap_or(""))).collect())
                        .unwrap_or_default();
                    shapes.insert(shape);
                    let np = ev["panics"].as_array().map(|a| a.len()).unwrap_or(0) as u64;
                    if np > 0 && first_panics.len() < 50 {
                        first_panics.push(json!({"sw": case["sw"], "panics": ev["panics"]}));
                    }
                    panics += np;
                    for m in &oc.mismatches {
                        n_mis += 1;
                        let cls = if case["wf"] == Value::Bool(true) {
                            "wf"
                        } else if case["valid"] == Value::Bool(true) {
                            "valid"
                        } else {
                            "other"
                        };
                        let k = format!("{}|{}|{}|{}", cls, m["what"].as_str().unwrap_or("?"), m["f"].as_str().unwrap_or("?"),
                                        case["sw"]["kind"].as_str().unwrap_or("?"));
                        let g = groups.entry(k).or_insert_with(|| (0, json!({"m": m, "case": case})));
                        g.0 += 1;
                    }
                    if sample.is_none() && case["wf"] == Value::Bool(true) {
                        sample = Some(json!({"p": case["p"], "calls": oc.obs["calls"].as_array().map(|a| a.iter().take(12)
                            .map(|c| format!("{}({})={} {}", c["f"].as_str().unwrap_or(""), c["a"], c["out"].as_str().unwrap_or(""), c["val"]))
                            .collect::<Vec<_>>())}));
                    }
                    writeln!(out, "{}", ev).unwrap();
                    // (the expectations are large: the side file keeps what identifies the case)
                    writeln!(cases_out, "{}", json!({"kind": "map", "v": case["v"], "p": case["p"], "sw": case["sw"],
                        "wf": case["wf"], "valid": case["valid"], "L": case["L"]})).unwrap();
                    continue;
                }
            }
            println!("{}", json!({"kind": "bad-line"}));
        } else if !line.trim().is_empty() {
            tlc_tail.push(line.chars().take(2000).collect());
            if tlc_tail.len() > 40 {
                tlc_tail.remove(0);
            }
        }
    }
    out.flush().unwrap();
    cases_out.flush().unwrap();
    let _ = std::fs::remove_file(&path);
    println!("{}", json!({"kind": "tlc", "tail": tlc_tail}));
    for (k, (cnt, first)) in &groups {
        println!("{}", json!({"kind": "map-mismatch", "group": k, "n": cnt, "first": first}));
    }
    println!("{}", json!({"kind": "summary", "cases": n, "calls": calls, "parts": nparts, "panics": panics, "wf": n_wf,
                          "valid": n_valid, "mismatches": n_mis, "by_kind": by_kind, "exp_seen": exp_seen,
                          "distinct_outcome_shapes": shapes.len(), "first_panics": first_panics, "sample": sample}));
}

pub fn replay_one(workdir: &str, case: &Value, out: &mut dyn Write) {
    std::fs::create_dir_all(workdir).unwrap();
    let path = Path::new(workdir).join(format!("map-{}.map", std::process::id()));
    let oc = one_case(case, &path);
    let _ = std::fs::remove_file(&path);
    let _ = geti;
    for m in &oc.mismatches {
        writeln!(out, "{}", json!({"kind": "map-mismatch-one", "m": m})).unwrap();
    }
    writeln!(out, "{}", json!({"kind": "map-observed", "event": oc.event})).unwrap();
}
