//! `datafile::buffer::Buffer`: replays TLC-generated histories of add_item / add_data calls
//! (DfBuffer.tla) on the real Buffer, reads it out through every accessor, lays the content out
//! with the independent writer (both versions), cross-checks the bytes against the spec's own
//! image (length + Adler-32) and reads the files back with the real readers.
use crate::drive::{write_df, Df, Item};
use crate::{adler32, bytes_of, geti, observe_file, observe_raw, run_guarded};
use libtw2_datafile::buffer::Buffer;
use serde_json::{json, Value};
use std::collections::BTreeMap;
use std::io::{BufRead, Write};
use std::path::Path;

fn ints(v: &Value) -> Vec<i32> {
    v.as_array().map(|a| a.iter().map(|x| x.as_i64().unwrap() as i32).collect()).unwrap_or_default()
}

/// Applies the history and projects everything the buffer exposes.
fn observe_buffer(case: &Value) -> Value {
    let mut b = Buffer::new();
    let mut res = Vec::new();
    for op in case["ops"].as_array().unwrap() {
        if op["k"] == "data" {
            let i = b.add_data(bytes_of(&op["b"]));
            res.push(json!({"r": "ok", "i": i}));
        } else {
            let r = b.add_item(geti(op, "t") as u16, geti(op, "id") as u16, &ints(&op["w"]));
            res.push(json!({"r": if r.is_ok() { "ok" } else { "err" }, "i": 0}));
        }
    }
    let item = |it: &libtw2_datafile::ItemView| json!({"t": it.type_id, "id": it.id, "w": it.data});
    let types: Vec<u16> = b.item_types().collect();
    let types2: Vec<u16> = (0..b.num_item_types()).map(|i| b.item_type(i)).collect();
    let items: Vec<Value> = b.items().map(|it| item(&it)).collect();
    let items2: Vec<Value> = (0..b.num_items()).map(|i| item(&b.item(i))).collect();
    let data: Vec<Vec<u8>> = b.data_iter().map(|d| d.to_vec()).collect();
    let data2: Vec<Vec<u8>> = (0..b.num_data()).map(|i| b.data(i).to_vec()).collect();
    let ranges: Vec<Value> = types
        .iter()
        .map(|&t| {
            let x = b.item_type_indices(t);
            json!({"start": x.start, "num": x.end.saturating_sub(x.start)})
        })
        .collect();
    let by_type: Vec<Value> = types.iter().map(|&t| Value::Array(b.item_type_items(t).map(|it| item(&it)).collect())).collect();
    let absent = b.item_type_indices(9);
    let _ = format!("{:?}", b.clone());
    json!({"res": res, "types": types, "types2": types2, "items": items, "items2": items2, "data": data, "data2": data2,
           "ranges": ranges, "by_type": by_type, "absent": [absent.start, absent.end]})
}

fn diff_buffer(case: &Value, o: &Value) -> Vec<String> {
    let mut d = Vec::new();
    let df = &case["df"];
    if o["res"] != case["res"] {
        d.push("results".to_string());
    }
    for (k, e) in [("types", &df["types"]), ("types2", &df["types"]), ("items", &df["items"]), ("items2", &df["items"]),
                   ("data", &df["data"]), ("data2", &df["data"]), ("ranges", &case["ranges"])] {
        if &o[k] != e {
            d.push(k.to_string());
        }
    }
    let exp_by_type: Vec<Value> = df["types"]
        .as_array()
        .unwrap()
        .iter()
        .map(|t| Value::Array(df["items"].as_array().unwrap().iter().filter(|it| &it["t"] == t).cloned().collect()))
        .collect();
    if o["by_type"] != Value::Array(exp_by_type) {
        d.push("by_type".to_string());
    }
    if o["absent"] != json!([0, 0]) {
        d.push("absent".to_string());
    }
    d
}

pub fn cmd_buffer_replay(workdir: &str) {
    std::fs::create_dir_all(workdir).unwrap();
    let path = Path::new(workdir).join(format!("buf-{}.map", std::process::id()));
    let stdin = std::io::stdin();
    let stdout = std::io::stdout();
    let mut out = std::io::BufWriter::new(stdout.lock());
    let mut tlc_tail: Vec<String> = Vec::new();
    let (mut n, mut n_err_calls, mut n_files) = (0u64, 0u64, 0u64);
    let mut groups: BTreeMap<String, (u64, Value)> = BTreeMap::new();
    for line in stdin.lock().lines() {
        let line = match line {
            Ok(l) => l,
            Err(_) => break,
        };
        let raw_json = line.starts_with('{'); // a stored case (./check C16 --replay)
        if !line.starts_with("<<\"U\"") && !raw_json {
            if !line.trim().is_empty() {
                tlc_tail.push(line.chars().take(2000).collect());
                if tlc_tail.len() > 40 {
                    tlc_tail.remove(0);
                }
            }
            continue;
        }
        let parts = if raw_json { vec![String::new(), line.clone()] } else { vh_common::parse_tlc_tuple(&line).unwrap_or_default() };
        let case: Value = match parts.get(1).and_then(|s| serde_json::from_str(s).ok()) {
            Some(c) => c,
            None => {
                writeln!(out, "{}", json!({"kind": "bad-line"})).unwrap();
                continue;
            }
        };
        n += 1;
        vh_common::set_case(&json!({"kind": "buffer", "ops": case["ops"]}).to_string());
        n_err_calls += case["res"].as_array().unwrap().iter().filter(|r| r["r"] == "err").count() as u64;
        let mut note = |key: String, what: Value| {
            let g = groups.entry(key).or_insert_with(|| (0, json!({"what": what, "case": case.clone()})));
            g.0 += 1;
        };
        let c2 = case.clone();
        let o = run_guarded(move || observe_buffer(&c2));
        if let Some(p) = o.panic {
            note(format!("buffer-panic|{}", p["msg"].as_str().unwrap_or("")), p);
            continue;
        }
        let d = diff_buffer(&case, &o.act);
        if !d.is_empty() {
            note(format!("buffer-differs|{}", d.join(",")), json!({"fields": d, "act": o.act}));
            continue;
        }
        // writer -> reader: the buffer's content (as read out above) laid out by the independent
        // writer must be the spec's byte image and must be read back by the real readers
        let df = Df {
            types: o.act["types"].as_array().unwrap().iter().map(|t| t.as_i64().unwrap() as u16).collect(),
            items: o.act["items"].as_array().unwrap().iter()
                .map(|it| Item { t: geti(it, "t") as u16, id: geti(it, "id") as u16, w: ints(&it["w"]) }).collect(),
            data: o.act["data"].as_array().unwrap().iter().map(|b| bytes_of(b)).collect(),
        };
        for (version, nk, sk) in [(3, "n3", "sum3"), (4, "n4", "sum4")] {
            let w = write_df(&df, version, &vec![false; df.data.len()]);
            n_files += 1;
            if w.bytes.len() as i64 != geti(&case, nk) || adler32(&w.bytes).to_be_bytes().to_vec() != bytes_of(&case[sk]) {
                note(format!("buffer-layout-differs|v{}", version), json!({"len": w.bytes.len()}));
                continue;
            }
            std::fs::write(&path, &w.bytes).unwrap();
            let probes: Vec<(u16, u16)> = df.items.iter().map(|it| (it.t, it.id)).collect();
            let p2 = path.clone();
            let pr = probes.clone();
            let o1 = run_guarded(move || observe_file(&p2, &pr));
            let bytes = w.bytes.clone();
            let pr = probes.clone();
            let o2 = run_guarded(move || observe_raw(&bytes, &pr));
            for (flavour, ob) in [("file", o1), ("raw", o2)] {
                if let Some(p) = ob.panic {
                    note(format!("readback-panic|{}", flavour), p);
                    continue;
                }
                let a = &ob.act;
                let data_ok = a["data"].as_array().map(|x| {
                    x.len() == df.data.len() && x.iter().zip(&df.data).all(|(v, e)| v["r"] == "ok" && bytes_of(&v["b"]) == *e)
                }).unwrap_or(false);
                if a["open"] != "ok" || a["types"] != case["df"]["types"] || a["items"] != case["df"]["items"] || !data_ok
                    || a["ranges"] != case["ranges"] {
                    note(format!("readback-differs|{}|v{}", flavour, version), json!({"open": a["open"]}));
                }
            }
        }
    }
    let _ = std::fs::remove_file(&path);
    writeln!(out, "{}", json!({"kind": "tlc", "tail": tlc_tail})).unwrap();
    for (k, (cnt, first)) in &groups {
        writeln!(out, "{}", json!({"kind": "buffer-finding", "group": k, "n": cnt, "first": first})).unwrap();
    }
    writeln!(out, "{}", json!({"kind": "summary", "cases": n, "refused_calls": n_err_calls, "files_read_back": n_files,
                              "findings": groups.len()})).unwrap();
    out.flush().unwrap();
}
