pub fn cmd_drive(_args: &[String]) {
    unimplemented!()
}
