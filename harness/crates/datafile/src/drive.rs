//! Direction B: a seeded generator of real-size datafiles (own writer, zlib images from the
//! repository's `libtw2_zlib::compress_vec` or hand-made stored blocks), mutations (truncation,
//! field fuzz, corrupt / oversized compressed blocks, garbage, random bytes) and the recording of
//! what the real readers did, one NDJSON event per file for DatafileTrace.tla.
use crate::{observe_file, observe_raw, run_guarded, zstored};
use vh_common::canon;
use rand::rngs::StdRng;
use rand::{Rng, SeedableRng};
use serde_json::{json, Value};
use std::io::Write;
use std::path::Path;

pub struct Item {
    pub t: u16,
    pub id: u16,
    pub w: Vec<i32>,
}

pub struct Df {
    pub types: Vec<u16>,
    pub items: Vec<Item>,
    pub data: Vec<Vec<u8>>,
}

pub struct Written {
    pub bytes: Vec<u8>,
    /// (image, payload) of the blocks compressed with the repository's compressor
    pub z: Vec<(Vec<u8>, Vec<u8>)>,
    /// number of leading 32-bit words (everything before the data section)
    pub int_words: usize,
    /// byte offset of the data section
    pub data_start: usize,
    /// word index of the first data-size entry (version 4)
    pub dsizes_word: usize,
    pub nd: usize,
}

fn put(o: &mut Vec<u8>, x: i32) {
    o.extend_from_slice(&x.to_le_bytes());
}

/// The writer of doc/datafile.md, written independently of the reader under test.
pub fn write_df(df: &Df, version: i32, deflate: &[bool]) -> Written {
    let mut z = Vec::new();
    let imgs: Vec<Vec<u8>> = df
        .data
        .iter()
        .enumerate()
        .map(|(k, p)| {
            if version == 3 {
                p.clone()
            } else if deflate[k] || p.len() >= 65536 {
                let img = libtw2_zlib::compress_vec(p).expect("compress");
                z.push((img.clone(), p.clone()));
                img
            } else {
                zstored(p)
            }
        })
        .collect();
    let nit = df.types.len();
    let ni = df.items.len();
    let nd = df.data.len();
    let size_items: usize = df.items.iter().map(|it| 8 + 4 * it.w.len()).sum();
    let size_data: usize = imgs.iter().map(|d| d.len()).sum();
    let total = 36 + 12 * nit + 4 * ni + 4 * nd + if version == 4 { 4 * nd } else { 0 } + size_items + size_data;
    let mut o = Vec::with_capacity(total);
    o.extend_from_slice(b"DATA");
    put(&mut o, version);
    put(&mut o, (total - 16) as i32);
    put(&mut o, (total - 16 - size_data) as i32);
    put(&mut o, nit as i32);
    put(&mut o, ni as i32);
    put(&mut o, nd as i32);
    put(&mut o, size_items as i32);
    put(&mut o, size_data as i32);
    for &t in &df.types {
        let start = df.items.iter().position(|it| it.t == t);
        let num = df.items.iter().filter(|it| it.t == t).count();
        // a type without items starts where the next larger type starts
        let start = start.unwrap_or_else(|| df.items.iter().filter(|it| it.t < t).count());
        put(&mut o, t as i32);
        put(&mut o, start as i32);
        put(&mut o, num as i32);
    }
    let mut off = 0usize;
    for it in &df.items {
        put(&mut o, off as i32);
        off += 8 + 4 * it.w.len();
    }
    let mut off = 0usize;
    for d in &imgs {
        put(&mut o, off as i32);
        off += d.len();
    }
    let dsizes_word = o.len() / 4;
    if version == 4 {
        for p in &df.data {
            put(&mut o, p.len() as i32);
        }
    }
    for it in &df.items {
        put(&mut o, (((it.t as u32) << 16) | it.id as u32) as i32);
        put(&mut o, (4 * it.w.len()) as i32);
        for &x in &it.w {
            put(&mut o, x);
        }
    }
    let data_start = o.len();
    for d in &imgs {
        o.extend_from_slice(d);
    }
    assert_eq!(o.len(), total);
    Written { bytes: o, z, int_words: data_start / 4, data_start, dsizes_word, nd }
}

fn boundary(rng: &mut StdRng, orig: i32) -> i32 {
    match rng.gen_range(0..14) {
        0 => 0,
        1 => 1,
        2 => -1,
        3 => i32::MIN,
        4 => i32::MAX,
        5 => i32::MIN + 1,
        6 => orig.wrapping_add(1),
        7 => orig.wrapping_sub(1),
        8 => orig.wrapping_add(4),
        9 => orig.wrapping_sub(4),
        10 => orig.wrapping_add(2),
        11 => 65536,
        12 => orig.wrapping_mul(2),
        _ => rng.gen(),
    }
}

/// Content classes of a data block: constant (what an empty tile layer or a blank image is --
/// deflate reaches ~1000:1 on it), short period, slowly changing, incompressible.
fn fill(rng: &mut StdRng, len: usize) -> Vec<u8> {
    let seedb: u8 = rng.gen();
    match rng.gen_range(0..5) {
        0 => vec![if rng.gen_bool(0.5) { 0 } else { seedb }; len],
        1 => {
            let period = rng.gen_range(2..9);
            (0..len).map(|j| seedb.wrapping_add((j % period) as u8)).collect()
        }
        2 => (0..len).map(|j| seedb.wrapping_add((j / 17) as u8)).collect(),
        _ => (0..len).map(|_| rng.gen()).collect(),
    }
}

/// Well-formed files whose data blocks are large and highly compressible (8 KiB .. 256 KiB of
/// constant / periodic bytes, e.g. the 64x64x4 bytes of an empty tile layer) next to an
/// incompressible one, really compressed with the repository's zlib (`compress_vec`).
fn big_blocks(rng: &mut StdRng, len: usize, kind: usize) -> Df {
    let block: Vec<u8> = match kind {
        0 => vec![0u8; len],
        1 => vec![0xa5u8; len],
        2 => (0..len).map(|j| (j % 4) as u8).collect(),
        _ => (0..len).map(|j| if j % 4 == 0 { 1 } else { 0 }).collect(),
    };
    let noise: Vec<u8> = (0..rng.gen_range(16..200)).map(|_| rng.gen()).collect();
    Df {
        types: vec![0, 5],
        items: vec![
            Item { t: 0, id: 0, w: vec![1] },
            Item { t: 5, id: 0, w: vec![0, 2, 0, 3, 64, 64, 1, 255, 255, 255, 255, -1, 0, -1, 0] },
        ],
        data: if kind % 2 == 0 { vec![block, noise] } else { vec![noise, block, Vec::new()] },
    }
}

fn gen_df(rng: &mut StdRng, big: bool) -> Df {
    let nit = match rng.gen_range(0..10) {
        0 => 0,
        1..=3 => 1,
        4..=6 => rng.gen_range(2..4),
        _ => rng.gen_range(2..9),
    };
    let mut tset = std::collections::BTreeSet::new();
    while tset.len() < nit {
        tset.insert(match rng.gen_range(0..6) {
            0 => 0u16,
            1 => 0xffff,
            2 => rng.gen_range(0..8),
            3 => 0x8000,
            _ => rng.gen(),
        });
    }
    let types: Vec<u16> = tset.into_iter().collect();
    let mut items = Vec::new();
    for &t in &types {
        let n = match rng.gen_range(0..8) {
            0 => 0,
            1..=4 => rng.gen_range(1..4),
            _ => rng.gen_range(1..if big { 60 } else { 12 }),
        };
        let common_len = rng.gen_range(0..if big { 300 } else { 24 });
        let mut ids = std::collections::BTreeSet::new();
        while ids.len() < n {
            ids.insert(if rng.gen_bool(0.7) { ids.len() as u16 } else { rng.gen() });
        }
        for id in ids {
            let len = if rng.gen_bool(0.8) { common_len } else { rng.gen_range(0..30) };
            let w = (0..len)
                .map(|_| match rng.gen_range(0..6) {
                    0 => 0,
                    1 => -1,
                    2 => i32::MIN,
                    3 => i32::MAX,
                    _ => rng.gen(),
                })
                .collect();
            items.push(Item { t, id, w });
        }
    }
    let nd = match rng.gen_range(0..8) {
        0 => 0,
        1..=3 => rng.gen_range(1..3),
        _ => rng.gen_range(1..7),
    };
    let data = (0..nd)
        .map(|_| {
            let len = match rng.gen_range(0..12) {
                0 => 0,
                1 => 1,
                2..=6 => rng.gen_range(2..64),
                7..=9 => rng.gen_range(64..600),
                10 => rng.gen_range(600..if big { 6000 } else { 1500 }),
                _ => {
                    if big {
                        rng.gen_range(65000..70000)
                    } else {
                        rng.gen_range(600..1500)
                    }
                }
            };
            fill(rng, len)
        })
        .collect();
    Df { types, items, data }
}

fn stored_json(df: &Df) -> Value {
    json!({
        "types": df.types,
        "items": df.items.iter().map(|it| json!({"t": it.t, "id": it.id, "w": it.w})).collect::<Vec<_>>(),
        "data": df.data,
    })
}

fn get_word(b: &[u8], k: usize) -> i32 {
    i32::from_le_bytes([b[4 * k], b[4 * k + 1], b[4 * k + 2], b[4 * k + 3]])
}
fn set_word(b: &mut [u8], k: usize, x: i32) {
    b[4 * k..4 * k + 4].copy_from_slice(&x.to_le_bytes());
}

struct Out<'a> {
    f: std::io::BufWriter<std::fs::File>,
    path: &'a Path,
    n: u64,
    seen: std::collections::HashSet<u64>,
}

/// Runs both readers on `bytes` and builds the trace event.
pub fn make_event(
    path: &Path,
    n: u64,
    mutation: &str,
    wf: bool,
    stored: Value,
    z: Value,
    bytes: &[u8],
    probes: &[(u16, u16)],
) -> Value {
    std::fs::write(path, bytes).unwrap();
    vh_common::set_case(&json!({"mut": mutation, "bytes": bytes}).to_string());
    let pb = path.to_path_buf();
    let o1 = run_guarded(|| observe_file(&pb, probes));
    let o2 = run_guarded(|| observe_raw(bytes, probes));
    let mut emb = crate::PREFIX.to_vec();
    emb.extend_from_slice(bytes);
    std::fs::write(path, &emb).unwrap();
    let o3 = run_guarded(|| crate::observe_file_at(&pb, crate::PREFIX.len() as u64, probes));
    let nop = json!({"stage": "", "msg": "", "loc": ""});
    let strip = |o: &Value, panicked: bool| -> Value {
        let mut v = if panicked { crate::err_verdict("panic".to_string()) } else { o.clone() };
        if let Some(m) = v.as_object_mut() {
            m.remove("types2");
            m.remove("items2");
            m.remove("dump_ok");
            m.remove("recheck_ok");
            // data_iter() against read_data(k): projected as one boolean
            let same = match m.remove("data_iter") {
                Some(di) => m.get("data").map(|d| canon(d) == canon(&di)).unwrap_or(false),
                None => true,
            };
            m.insert("data_iter_same".to_string(), Value::Bool(same));
        }
        v
    };
    let f_obs = strip(&o1.act, o1.panic.is_some());
    let r_obs = strip(&o2.act, o2.panic.is_some());
    let raw_same = canon(&f_obs) == canon(&r_obs);
    let o_obs = strip(&o3.act, o3.panic.is_some());
    let off_same = canon(&f_obs) == canon(&o_obs);
    json!({
        "n": n,
        "mut": mutation,
        "wf": wf,
        "stored": stored,
        "probes": probes.iter().map(|&(t, id)| json!([t, id])).collect::<Vec<_>>(),
        "bytes": bytes,
        "z": z,
        "file": f_obs,
        "raw_same": raw_same,
        "raw": if raw_same { json!({"open": "same"}) } else { r_obs },
        "off_same": off_same,
        "off": if off_same { json!({"open": "same"}) } else { o_obs },
        "off_panic": o3.panic.clone().unwrap_or_else(|| nop.clone()),
        "file_panic": o1.panic.clone().unwrap_or_else(|| nop.clone()),
        "raw_panic": o2.panic.clone().unwrap_or_else(|| nop.clone()),
        // the redundant accessors agree with the primary ones (projection consistency);
        // an accepted raw::Reader passes its own check() again
        "redundant_ok": (o1.panic.is_some() || o1.act["open"] != "ok"
            || (o1.act["types"] == o1.act["types2"] && o1.act["items"] == o1.act["items2"]))
            && o2.act["recheck_ok"] != Value::Bool(false),
    })
}

impl<'a> Out<'a> {
    fn event(&mut self, mutation: String, wf: bool, df: Option<&Df>, w: &Written, bytes: &[u8], probes: &[(u16, u16)]) {
        let stored = df.map(stored_json).unwrap_or_else(|| json!({"types": [], "items": [], "data": []}));
        let z = Value::Array(w.z.iter().map(|(img, p)| json!({"img": img, "p": p})).collect());
        let ev = make_event(self.path, self.n + 1, &mutation, wf, stored, z, bytes, probes);
        self.seen.insert(crate::fnv(bytes));
        writeln!(self.f, "{}", ev).unwrap();
        self.n += 1;
    }
}

fn probes_for(rng: &mut StdRng, df: &Df) -> Vec<(u16, u16)> {
    let mut p = Vec::new();
    for _ in 0..3 {
        if !df.items.is_empty() {
            let it = &df.items[rng.gen_range(0..df.items.len())];
            p.push((it.t, it.id));
        }
    }
    p.push((rng.gen_range(0..10), rng.gen_range(0..4)));
    p.push((0xffff, 0xffff));
    p
}

/// args: <workdir> <seed> <n> <profile: quick|thorough> <out.ndjson>
pub fn cmd_drive(args: &[String]) {
    let workdir = &args[0];
    let seed: u64 = args[1].parse().unwrap();
    let n: u64 = args[2].parse().unwrap();
    let big = args[3] == "thorough";
    std::fs::create_dir_all(workdir).unwrap();
    let path = Path::new(workdir).join(format!("drive-{}.map", std::process::id()));
    let mut out = Out {
        f: std::io::BufWriter::new(std::fs::File::create(&args[4]).unwrap()),
        path: &path,
        n: 0,
        seen: Default::default(),
    };
    let mut rng = StdRng::seed_from_u64(seed);

    // (0) well-formed files with large, highly compressible blocks, both versions, real deflate
    let lens: &[usize] = if big { &[8192, 16384, 40000, 65536, 131072, 262144] } else { &[8192, 16384, 70000] };
    for (i, &len) in lens.iter().enumerate() {
        for version in [4, 3] {
            if version == 3 && !big && i > 0 {
                continue; // (quick: one large version 3 file is enough, its image is len bytes of JSON)
            }
            let len = len + rng.gen_range(0..5);
            let df = big_blocks(&mut rng, len, i + version as usize);
            let deflate: Vec<bool> = df.data.iter().map(|_| true).collect();
            let w = write_df(&df, version, &deflate);
            let probes = probes_for(&mut rng, &df);
            out.event(format!("none:big{}", len), true, Some(&df), &w, &w.bytes, &probes);
        }
    }

    // (1) truncation at every position of a few small files, both versions
    let n_exh = if big { 6 } else { 2 };
    for k in 0..n_exh {
        let df = loop {
            let d = gen_df(&mut rng, false);
            let sz: usize = d.items.iter().map(|i| 8 + 4 * i.w.len()).sum::<usize>()
                + d.data.iter().map(|x| x.len()).sum::<usize>();
            if sz < (if big { 160 } else { 110 }) && !d.items.is_empty() && !d.data.is_empty() {
                break d;
            }
        };
        let version = if k % 2 == 0 { 3 } else { 4 };
        let deflate: Vec<bool> = df.data.iter().map(|_| rng.gen_bool(0.5)).collect();
        let w = write_df(&df, version, &deflate);
        let probes = probes_for(&mut rng, &df);
        out.event("none".into(), true, Some(&df), &w, &w.bytes, &probes);
        for p in 0..w.bytes.len() {
            out.event(format!("trunc:{}", p), false, None, &w, &w.bytes[..p], &probes);
        }
    }

    // (2) random files x random mutations
    let n_random_start = out.n;
    while out.n < n_random_start + n {
        let is_big = big && rng.gen_range(0..40) == 0;
        let df = gen_df(&mut rng, is_big);
        let version = if rng.gen_bool(0.4) { 3 } else { 4 };
        let deflate: Vec<bool> = df.data.iter().map(|_| rng.gen_bool(0.6)).collect();
        let w = write_df(&df, version, &deflate);
        let probes = probes_for(&mut rng, &df);
        let mut b = w.bytes.clone();
        // base flavour: the historic "crude" header of version 4 (size field does not count the
        // data-size table; swaplen of either kind) -- the reader's third variant V4Crude. Every
        // mutation below also runs on this flavour.
        let crude = w.nd > 0 && rng.gen_range(0..4) == 0;
        if crude {
            let s = get_word(&b, 2) - 4 * w.nd as i32;
            set_word(&mut b, 2, s);
            if rng.gen_bool(0.5) {
                let sl = get_word(&b, 3) - 4 * w.nd as i32;
                set_word(&mut b, 3, sl);
            }
        }
        let pre = if crude { "crude+" } else { "" };
        let m = rng.gen_range(0..20);
        match m {
            0..=6 => {
                if crude {
                    out.event("crude".into(), false, None, &w, &b, &probes)
                } else {
                    out.event("none".into(), true, Some(&df), &w, &b, &probes)
                }
            }
            7 | 8 => {
                let p = rng.gen_range(0..b.len());
                out.event(format!("{}trunc:{}", pre, p), false, None, &w, &b[..p], &probes);
            }
            9..=11 => {
                // one word of the integer area (header, tables, item headers and data words)
                let k = rng.gen_range(1..w.int_words);
                let x = boundary(&mut rng, get_word(&b, k));
                set_word(&mut b, k, x);
                out.event(format!("{}fuzz:w{}={}", pre, k, x), false, None, &w, &b, &probes);
            }
            12 | 13 => {
                // corrupt a byte of the data section (compressed blocks in version 4)
                if b.len() > w.data_start {
                    let p = rng.gen_range(w.data_start..b.len());
                    b[p] ^= 1 << rng.gen_range(0..8);
                    out.event(format!("{}dflip:{}", pre, p), false, None, &w, &b, &probes);
                }
            }
            14 => {
                // oversized / undersized declared uncompressed size
                if version == 4 && w.nd > 0 {
                    let k = w.dsizes_word + rng.gen_range(0..w.nd);
                    let orig = get_word(&b, k);
                    let x = match rng.gen_range(0..8) {
                        0 => 0,
                        1 => orig + 1,
                        2 => (orig - 1).max(0),
                        3 => orig * 2 + 7,
                        4 => 65536,
                        5 => i32::MAX,
                        _ => [-1, i32::MIN, 100_000_000][rng.gen_range(0..3)],
                    };
                    set_word(&mut b, k, x);
                    out.event(format!("{}dsize:w{}={}", pre, k, x), false, None, &w, &b, &probes);
                }
            }
            15 => {
                let extra = rng.gen_range(1..40);
                for _ in 0..extra {
                    b.push(rng.gen());
                }
                out.event(format!("{}append:{}", pre, extra), false, None, &w, &b, &probes);
            }
            16 => {
                b[..4].copy_from_slice(b"ATAD");
                out.event(format!("{}atad", pre), false, None, &w, &b, &probes);
            }
            17 => {
                // several words fuzzed at once
                let cnt = rng.gen_range(2..5);
                for _ in 0..cnt {
                    let k = rng.gen_range(1..w.int_words);
                    let x = boundary(&mut rng, get_word(&b, k));
                    set_word(&mut b, k, x);
                }
                out.event(format!("{}fuzz{}", pre, cnt), false, None, &w, &b, &probes);
            }
            _ => {
                // random bytes, optionally behind a plausible header
                let len = rng.gen_range(0..200);
                let mut r: Vec<u8> = (0..len).map(|_| rng.gen()).collect();
                let style = rng.gen_range(0..3);
                if style >= 1 && r.len() >= 8 {
                    r[..4].copy_from_slice(b"DATA");
                    r[4..8].copy_from_slice(&(if rng.gen_bool(0.5) { 3i32 } else { 4 }).to_le_bytes());
                }
                if style == 2 && r.len() >= 36 {
                    // small non-negative header fields so that the size checks are reached
                    for k in 2..9 {
                        let x = rng.gen_range(0..6) * if k == 7 { 4 } else { 1 };
                        set_word(&mut r, k, x);
                    }
                }
                let w0 = Written { bytes: Vec::new(), z: Vec::new(), int_words: 0, data_start: 0, dsizes_word: 0, nd: 0 };
                out.event(format!("random:{}:{}", style, len), false, None, &w0, &r, &probes);
            }
        }
    }
    out.f.flush().unwrap();
    let _ = std::fs::remove_file(&path);
    println!("{}", json!({"kind": "summary", "events": out.n, "distinct_files": out.seen.len()}));
}
