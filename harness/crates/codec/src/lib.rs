//! Shared pieces of the codec harness (C07 Huffman, C08 variable-length integers):
//! a parser for TLC's `ToString` value syntax, guarded buffers with canary bytes, and
//! small JSON helpers. Nothing here judges anything.
use serde_json::{json, Value};
use std::io::BufRead;

// ---------------------------------------------------------------- TLC values

/// Parses the text TLC's `ToString` produces for a value built from integers, strings,
/// booleans, tuples `<<..>>`, sets `{..}` and records `[a |-> v, ..]` into JSON
/// (tuples and sets become arrays, records objects).
pub fn parse_tlc_value(s: &str) -> Option<Value> {
    let b = s.as_bytes();
    let mut i = 0;
    let v = parse_val(b, &mut i)?;
    skip_ws(b, &mut i);
    if i == b.len() {
        Some(v)
    } else {
        None
    }
}

fn skip_ws(b: &[u8], i: &mut usize) {
    while *i < b.len() && (b[*i] == b' ' || b[*i] == b'\n' || b[*i] == b'\t') {
        *i += 1;
    }
}

fn parse_seq(b: &[u8], i: &mut usize, close: &[u8]) -> Option<Value> {
    let mut out = Vec::new();
    loop {
        skip_ws(b, i);
        if b[*i..].starts_with(close) {
            *i += close.len();
            return Some(Value::Array(out));
        }
        out.push(parse_val(b, i)?);
        skip_ws(b, i);
        if *i < b.len() && b[*i] == b',' {
            *i += 1;
        }
    }
}

fn parse_val(b: &[u8], i: &mut usize) -> Option<Value> {
    skip_ws(b, i);
    if *i >= b.len() {
        return None;
    }
    if b[*i..].starts_with(b"<<") {
        *i += 2;
        return parse_seq(b, i, b">>");
    }
    match b[*i] {
        b'{' => {
            *i += 1;
            parse_seq(b, i, b"}")
        }
        b'[' => {
            *i += 1;
            let mut m = serde_json::Map::new();
            loop {
                skip_ws(b, i);
                if *i >= b.len() {
                    return None;
                }
                if b[*i] == b']' {
                    *i += 1;
                    return Some(Value::Object(m));
                }
                let st = *i;
                while *i < b.len() && (b[*i].is_ascii_alphanumeric() || b[*i] == b'_') {
                    *i += 1;
                }
                let key = std::str::from_utf8(&b[st..*i]).ok()?.to_string();
                skip_ws(b, i);
                if !b[*i..].starts_with(b"|->") {
                    return None;
                }
                *i += 3;
                let v = parse_val(b, i)?;
                m.insert(key, v);
                skip_ws(b, i);
                if *i < b.len() && b[*i] == b',' {
                    *i += 1;
                }
            }
        }
        b'"' => {
            *i += 1;
            let mut s = Vec::new();
            while *i < b.len() && b[*i] != b'"' {
                if b[*i] == b'\\' && *i + 1 < b.len() {
                    *i += 1;
                }
                s.push(b[*i]);
                *i += 1;
            }
            *i += 1;
            Some(Value::String(String::from_utf8(s).ok()?))
        }
        b'T' if b[*i..].starts_with(b"TRUE") => {
            *i += 4;
            Some(Value::Bool(true))
        }
        b'F' if b[*i..].starts_with(b"FALSE") => {
            *i += 5;
            Some(Value::Bool(false))
        }
        c if c == b'-' || c.is_ascii_digit() => {
            let st = *i;
            *i += 1;
            while *i < b.len() && b[*i].is_ascii_digit() {
                *i += 1;
            }
            let n: i64 = std::str::from_utf8(&b[st..*i]).ok()?.parse().ok()?;
            Some(json!(n))
        }
        _ => None,
    }
}

/// One line of TLC's output: either an export line (`"@X <ToString of a value>"`, printed by
/// `PrintT` of a single string) or anything else.
pub enum Line {
    Export(char, Value),
    Other(String),
}

pub fn classify(line: &str) -> Line {
    let t = line.trim_end();
    if let Some(rest) = t.strip_prefix("\"@") {
        if let Some(body) = rest.strip_suffix('"') {
            let tag = body.chars().next().unwrap_or('?');
            // un-escape the printed string
            let mut s = String::with_capacity(body.len());
            let mut it = body[1..].chars();
            while let Some(c) = it.next() {
                if c == '\\' {
                    if let Some(n) = it.next() {
                        s.push(match n {
                            'n' => '\n',
                            't' => '\t',
                            o => o,
                        });
                    }
                } else {
                    s.push(c);
                }
            }
            if let Some(v) = parse_tlc_value(&s) {
                return Line::Export(tag, v);
            }
            return Line::Other(format!("UNPARSED-EXPORT {}", &t[..t.len().min(200)]));
        }
    }
    Line::Other(t.to_string())
}

/// Reads TLC's output from stdin; export lines go to `f`, everything else is echoed to
/// stdout with the prefix `TLC: ` (the check parses TLC's summary from it).
pub fn for_each_export<F: FnMut(char, Value)>(mut f: F) {
    let stdin = std::io::stdin();
    let mut unparsed = 0;
    for line in stdin.lock().lines() {
        let line = match line {
            Ok(l) => l,
            Err(_) => break,
        };
        match classify(&line) {
            Line::Export(tag, v) => f(tag, v),
            Line::Other(s) => {
                if s.starts_with("UNPARSED-EXPORT") {
                    unparsed += 1;
                }
                if !s.starts_with("Parsing file") && !s.starts_with("Semantic processing") && !s.starts_with("Linting of") {
                    println!("TLC: {}", s);
                }
            }
        }
    }
    if unparsed > 0 {
        println!("HARNESS-ERROR unparsed export lines: {}", unparsed);
    }
}

// ---------------------------------------------------------------- JSON helpers

pub fn bytes_of(v: &Value) -> Vec<u8> {
    v.as_array().map(|a| a.iter().map(|x| x.as_i64().unwrap_or(0) as u8).collect()).unwrap_or_default()
}

pub fn jbytes(b: &[u8]) -> Value {
    Value::Array(b.iter().map(|&x| json!(x)).collect())
}

// ---------------------------------------------------------------- guarded buffers

const PRE: usize = 32;
const POST: usize = 64;

fn pattern(i: usize) -> u8 {
    (0xC3u8).wrapping_add((i as u8).wrapping_mul(37))
}

/// A buffer of exactly `cap` writable bytes with canary bytes in front of and behind it.
/// "Never writes past the buffer it was given" is observed by `intact()` (DESIGN §7: an
/// observation logged as a boolean the trace specification refuses, not a proof).
pub struct Guarded {
    mem: Vec<u8>,
    cap: usize,
}

impl Guarded {
    pub fn new(cap: usize) -> Guarded {
        let mem = (0..PRE + cap + POST).map(pattern).collect();
        Guarded { mem, cap }
    }
    pub fn slice(&mut self) -> &mut [u8] {
        let c = self.cap;
        &mut self.mem[PRE..PRE + c]
    }
    pub fn intact(&self) -> bool {
        (0..PRE).all(|i| self.mem[i] == pattern(i))
            && (PRE + self.cap..PRE + self.cap + POST).all(|i| self.mem[i] == pattern(i))
    }
}

#[cfg(test)]
mod test {
    use super::*;
    #[test]
    fn values() {
        let v = parse_tlc_value("<<1, -2, <<>>, {\"a\", \"b\"}, [x |-> 3, y |-> <<TRUE>>]>>").unwrap();
        assert_eq!(v, json!([1, -2, [], ["a", "b"], {"x": 3, "y": [true]}]));
        match classify("\"@P <<0, <<\\\"raw\\\", 1>>>>\"") {
            Line::Export('P', v) => assert_eq!(v, json!([0, ["raw", 1]])),
            _ => panic!(),
        }
    }
}
