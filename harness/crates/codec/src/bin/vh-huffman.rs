//! Harness for C07 (Huffman codec, `libtw2-huffman`, with the bundled C++ reference
//! `libtw2-huffman-reference` called on the same inputs).
//!
//!   vh-huffman replay <freq-file> <mismatch-trace>           direction A: TLC's vectors on stdin
//!   vh-huffman drive <freq-file> <seed> <cases> <maxlen> <tables> <trace>   direction B
//!   vh-huffman rerun <freq-file> <events-in> <events-out>    re-execute recorded inputs
//!
//! The harness never judges: it records what the real code (and the reference) did as
//! NDJSON events; spec/huffman/HuffmanTrace.tla decides.
use libtw2_huffman::instances::TEEWORLDS;
use libtw2_huffman::DecompressionError;
use libtw2_huffman::Huffman;
use libtw2_huffman_reference::Huffman as RefHuffman;
use serde_json::{json, Value};
use std::io::Write;
use vh_codec::*;
use vh_common::rand::rngs::StdRng;
use vh_common::rand::{Rng, SeedableRng};
use vh_common::{catch, guarded, set_case};

const CALL_MS: u64 = 20_000;

struct Tab {
    h: Huffman,
    builtin: bool,
    r: Option<RefHuffman>,
}

fn read_freqs(path: &str) -> Vec<u32> {
    std::fs::read_to_string(path)
        .expect("frequencies")
        .lines()
        .filter(|l| !l.trim().is_empty())
        .map(|l| l.trim().parse().expect("frequency"))
        .collect()
}

fn repr_json(h: &Huffman) -> Value {
    Value::Array(
        h.repr()
            .into_iter()
            .map(|s| Value::Array((0..s.num_bits()).map(|i| json!(if s.bit(i) { 1 } else { 0 })).collect()))
            .collect(),
    )
}

/// The other ways `repr()` can be read: `len()` / `size_hint()` of the iterator, the iterator walked from the
/// back, and the `Display` form of every code word -- logged next to `repr`, compared by the trace specification.
fn repr_views(h: &Huffman) -> Value {
    let it = h.repr().into_iter();
    let len = it.len();
    let hint = it.size_hint();
    let mut back: Vec<Value> = h
        .repr()
        .into_iter()
        .rev()
        .map(|s| Value::Array((0..s.num_bits()).map(|i| json!(if s.bit(i) { 1 } else { 0 })).collect()))
        .collect();
    back.reverse();
    let disp: Vec<Value> = h
        .repr()
        .into_iter()
        .map(|s| Value::Array(format!("{}", s).chars().map(|c| json!(if c == '1' { 1 } else if c == '0' { 0 } else { 2 })).collect()))
        .collect();
    json!({"len": len, "hint_lo": hint.0, "hint_hi": hint.1.map(|x| x as i64).unwrap_or(-1), "back": back, "disp": disp})
}

fn freq_hex(f: &[u32]) -> String {
    f.iter().map(|x| format!("{:08x}", x)).collect()
}

fn freq_unhex(s: &str) -> Vec<u32> {
    (0..s.len() / 8).map(|i| u32::from_str_radix(&s[8 * i..8 * i + 8], 16).unwrap()).collect()
}

/// The reference adds frequencies as C ints: it is only comparable when nothing overflows.
fn ref_comparable(f: &[u32]) -> bool {
    f.iter().map(|&x| x as u64).sum::<u64>() + 1 < (1u64 << 31)
}

fn table_builtin(freq_file: &str) -> (Tab, Value) {
    let f = read_freqs(freq_file);
    let r = catch(|| RefHuffman::from_frequencies(&f)).ok();
    let h: Huffman = TEEWORLDS;
    let ev = json!({"e": "table", "kind": "builtin", "res": "ok", "repr": repr_json(&h), "views": repr_views(&h), "ref": r.is_some(), "fhi": [], "flo": [], "freq_hex": ""});
    (Tab { h, builtin: true, r }, ev)
}

fn table_freq(f: &[u32]) -> (Option<Tab>, Value) {
    set_case(&format!("from_frequencies {}", freq_hex(f)));
    // the frequencies in 16-bit limbs (TLC integers are 32-bit signed)
    let fhi: Vec<u32> = f.iter().map(|&x| x >> 16).collect();
    let flo: Vec<u32> = f.iter().map(|&x| x & 0xffff).collect();
    match guarded(CALL_MS, || Huffman::from_frequencies(f)) {
        Ok(h) => {
            let r = if ref_comparable(f) { catch(|| RefHuffman::from_frequencies(f)).ok() } else { None };
            let ev = json!({"e": "table", "kind": "freq", "res": "ok", "repr": repr_json(&h), "views": repr_views(&h), "ref": r.is_some(),
                            "fhi": fhi, "flo": flo, "freq_hex": freq_hex(f)});
            (Some(Tab { h, builtin: false, r }), ev)
        }
        Err(msg) => {
            let ev = json!({"e": "table", "kind": "freq", "res": "panic", "repr": [], "views": {}, "ref": false,
                            "fhi": fhi, "flo": flo, "freq_hex": freq_hex(f), "panic": msg, "at": vh_common::last_panic_location()});
            (None, ev)
        }
    }
}

/// api: "compress" (allocating), "compress_into", "compress_bug"; cap ignored for "compress".
fn do_comp(t: &Tab, input: &[u8], api: &str, cap: i64, with_ref: bool) -> Value {
    let mut e = json!({"e": "comp", "in": jbytes(input), "api": api, "cap": cap, "out": [], "canary": true,
                       "ref_res": "none", "ref": []});
    let clen = catch(|| (t.h.compressed_len(input), t.h.compressed_len_bug(input)));
    match clen {
        Ok((a, b)) => {
            e["clen"] = json!(a);
            e["clenb"] = json!(b);
        }
        Err(_) => {
            e["clen"] = json!(-1);
            e["clenb"] = json!(-1);
        }
    }
    if api == "compress" {
        let r = guarded(CALL_MS, || if t.builtin { libtw2_huffman::compress(input) } else { t.h.compress_into_vec(input) });
        match r {
            Ok(v) => {
                e["res"] = json!("ok");
                e["out"] = jbytes(&v);
            }
            Err(_) => e["res"] = json!("panic"),
        }
    } else {
        let mut g = Guarded::new(cap as usize);
        let r = guarded(CALL_MS, || {
            let r = if api == "compress_bug" {
                t.h.compress_bug(input, g.slice())
            } else if t.builtin {
                libtw2_huffman::compress_into(input, g.slice())
            } else {
                t.h.compress(input, g.slice())
            };
            r.map(|s| s.to_vec()).ok()
        });
        match r {
            Ok(Some(v)) => {
                e["res"] = json!("ok");
                e["out"] = jbytes(&v);
            }
            Ok(None) => e["res"] = json!("capacity"),
            Err(_) => e["res"] = json!("panic"),
        }
        e["canary"] = json!(g.intact());
    }
    if let (Some(r), true) = (&t.r, with_ref) {
        // the reference writes its last byte without a bounds check: always give it room
        let mut g = Guarded::new(input.len() * 3 + 16);
        let rr = catch(|| r.compress(input, g.slice()).map(|s| s.to_vec()).ok());
        match rr {
            Ok(Some(v)) if g.intact() => {
                e["ref_res"] = json!("ok");
                e["ref"] = jbytes(&v);
            }
            _ => e["ref_res"] = json!("err"),
        }
    }
    e
}

/// api: "decompress" (allocating, capacity 8 x input), "decompress_into".
fn do_decomp(t: &Tab, input: &[u8], api: &str, cap: i64) -> Value {
    let mut e = json!({"e": "decomp", "in": jbytes(input), "api": api, "cap": cap, "out": [], "canary": true,
                       "ref_res": "none", "ref": []});
    let rcap;
    if api == "decompress" {
        rcap = input.len() * 8;
        let r = guarded(CALL_MS, || if t.builtin { libtw2_huffman::decompress(input).ok() } else { t.h.decompress_into_vec(input).ok() });
        match r {
            Ok(Some(v)) => {
                e["res"] = json!("ok");
                e["out"] = jbytes(&v);
            }
            Ok(None) => e["res"] = json!("invalid"),
            Err(_) => e["res"] = json!("panic"),
        }
    } else {
        rcap = cap as usize;
        let mut g = Guarded::new(rcap);
        let r = guarded(CALL_MS, || {
            let r = if t.builtin { libtw2_huffman::decompress_into(input, g.slice()) } else { t.h.decompress(input, g.slice()) };
            match r {
                Ok(s) => Ok(s.to_vec()),
                Err(DecompressionError::Capacity(_)) => Err("capacity"),
                Err(DecompressionError::InvalidInput) => Err("invalid"),
            }
        });
        match r {
            Ok(Ok(v)) => {
                e["res"] = json!("ok");
                e["out"] = jbytes(&v);
            }
            Ok(Err(c)) => e["res"] = json!(c),
            Err(_) => e["res"] = json!("panic"),
        }
        e["canary"] = json!(g.intact());
    }
    if let Some(r) = &t.r {
        let mut g = Guarded::new(rcap);
        let inp = input.to_vec();
        let rr = catch(|| {
            let s = g.slice();
            // the reference API ties the lifetimes of input and buffer together
            let s2: &mut [u8] = unsafe { std::slice::from_raw_parts_mut(s.as_mut_ptr(), s.len()) };
            r.decompress(&inp, s2).map(|s| s.to_vec()).ok()
        });
        match rr {
            Ok(Some(v)) if g.intact() => {
                e["ref_res"] = json!("ok");
                e["ref"] = jbytes(&v);
            }
            _ => e["ref_res"] = json!("err"),
        }
    }
    e
}

/// One `comp` event: the input once, the predicted lengths and the reference output once, and one
/// run per (api, capacity).
fn comp_event(t: &Tab, input: &[u8], runs: &[(&str, i64)]) -> Value {
    let mut rs = Vec::new();
    let mut first: Option<Value> = None;
    for (api, cap) in runs {
        let r = do_comp(t, input, api, *cap, first.is_none());
        rs.push(json!({"api": r["api"], "cap": r["cap"], "res": r["res"], "out": r["out"], "canary": r["canary"]}));
        if first.is_none() {
            first = Some(r);
        }
    }
    let f = first.unwrap_or(json!({}));
    json!({"e": "comp", "in": jbytes(input), "clen": f["clen"], "clenb": f["clenb"], "ref_res": f["ref_res"], "ref": f["ref"], "runs": rs})
}

/// One `decomp` event: the input once and one run per (api, capacity), each with the
/// reference's result at the same capacity.
fn decomp_event(t: &Tab, input: &[u8], runs: &[(&str, i64)]) -> Value {
    let rs: Vec<Value> = runs
        .iter()
        .map(|(api, cap)| {
            let r = do_decomp(t, input, api, *cap);
            json!({"api": r["api"], "cap": r["cap"], "res": r["res"], "out": r["out"], "canary": r["canary"],
                   "ref_res": r["ref_res"], "ref": r["ref"]})
        })
        .collect();
    json!({"e": "decomp", "in": jbytes(input), "runs": rs})
}

// ---------------------------------------------------------------- direction A

fn replay(freq_file: &str, path: &str) {
    let mut out = std::fs::File::create(path).expect("create");
    let (t, tev) = table_builtin(freq_file);
    writeln!(out, "{}", tev).unwrap();
    let (mut vectors, mut calls, mut mism, mut written, mut nontrivial) = (0u64, 0u64, 0u64, 0u64, 0u64);
    let mut msamples: Vec<Value> = vec![];
    let mut samples: Vec<Value> = vec![];
    for_each_export(|tag, v| {
        if tag != 'H' {
            return;
        }
        for c in v.as_array().unwrap() {
            // <<s, e, eb, [cap+1 |-> <<ok, out>>]>>
            let s = bytes_of(&c[0]);
            let e = bytes_of(&c[1]);
            let eb = bytes_of(&c[2]);
            set_case(&format!("huffman vector {:?}", s));
            vectors += 1;
            nontrivial += (!s.is_empty()) as u64;
            let mut evs: Vec<Value> = vec![];
            let mut ok = true;
            // compressor: all three entry points, capacities around the exact length
            let mut runs: Vec<(&str, i64)> = vec![("compress", -1)];
            for (api, want) in [("compress_into", &e), ("compress_bug", &eb)] {
                for cap in [want.len() as i64 - 1, want.len() as i64, want.len() as i64 + 2, 0] {
                    if cap >= 0 {
                        runs.push((api, cap));
                    }
                }
            }
            let ce = comp_event(&t, &s, &runs);
            ok &= ce["clen"] == json!(e.len()) && ce["clenb"] == json!(eb.len()) && ce["ref_res"] == "ok" && bytes_of(&ce["ref"]) == eb;
            for r in ce["runs"].as_array().unwrap() {
                let want = if r["api"] == "compress_bug" { &eb } else { &e };
                let cap = r["cap"].as_i64().unwrap();
                ok &= r["canary"] == true
                    && if cap < 0 || cap as usize >= want.len() { r["res"] == "ok" && &bytes_of(&r["out"]) == want } else { r["res"] == "capacity" };
                calls += 1;
            }
            evs.push(ce);
            // decompressor on the compressed forms
            for (k, inp) in [&e, &eb].into_iter().enumerate() {
                let mut runs: Vec<(&str, i64)> = if k == 0 { vec![("decompress", -1)] } else { vec![] };
                for cap in [s.len() as i64 - 1, s.len() as i64, s.len() as i64 + 1] {
                    if cap >= 0 {
                        runs.push(("decompress_into", cap));
                    }
                }
                let de = decomp_event(&t, inp, &runs);
                for r in de["runs"].as_array().unwrap() {
                    let cap = r["cap"].as_i64().unwrap();
                    ok &= r["canary"] == true
                        && if cap < 0 || cap as usize >= s.len() { r["res"] == "ok" && bytes_of(&r["out"]) == s } else { r["res"] != "ok" && r["res"] != "panic" };
                    calls += 1;
                }
                evs.push(de);
            }
            // decompressor on s itself as an arbitrary input, every capacity of the vector
            let exps = c[3].as_array().unwrap();
            let runs: Vec<(&str, i64)> = (0..exps.len()).map(|k| ("decompress_into", k as i64)).collect();
            let de = decomp_event(&t, &s, &runs);
            for (r, exp) in de["runs"].as_array().unwrap().iter().zip(exps) {
                ok &= r["canary"] == true
                    && if exp[0] == json!(1) { r["res"] == "ok" && r["out"] == exp[1] } else { r["res"] != "ok" && r["res"] != "panic" }
                    && (r["ref_res"] != "ok" || (r["res"] == "ok" && r["ref"] == r["out"]));
                calls += 1;
            }
            evs.push(de);
            if !ok {
                mism += 1;
                if msamples.len() < 5 {
                    msamples.push(json!({"vector": c, "real": evs.clone()}));
                }
                if written < 200 {
                    written += 1;
                    for ev in &evs {
                        writeln!(out, "{}", ev).unwrap();
                    }
                }
            } else if samples.len() < 3 && s.len() == 2 && s[0] > 100 {
                samples.push(json!({"input": s, "compress": e, "compress_bug": eb, "decode_of_input_per_capacity": c[3]}));
            }
        }
    });
    println!(
        "SUMMARY {}",
        json!({"vectors": vectors, "nontrivial": nontrivial, "calls": calls, "mismatch_cases": mism, "mismatch_samples": msamples, "samples": samples, "reference_linked": t.r.is_some()})
    );
}

/// Direction A for tables: TLC's family of frequency vectors (`@F <<name, fhi, flo, height, code, vectors>>`).
/// The table is built by the real from_frequencies (a panic is what the specification predicts for a height
/// above 24), repr() is compared with the predicted code, the vectors are executed; whatever differs is
/// written (table event first) to the mismatch trace for HuffmanTrace.tla.  For every table that was built
/// the run / truncation drivers record behaviour into `rec` (validated like direction B).
fn replay_freq(seed: u64, full: bool, path: &str, rec: &str) {
    let mut out = std::fs::File::create(path).expect("create");
    let mut recw = std::io::BufWriter::new(std::fs::File::create(rec).expect("create"));
    let mut rng = StdRng::seed_from_u64(seed ^ 0x5eed);
    let (mut tables, mut built, mut panics, mut vectors, mut calls, mut mism, mut nontrivial) = (0u64, 0u64, 0u64, 0u64, 0u64, 0u64, 0u64);
    let (mut events, mut rcalls) = (0u64, 0u64);
    let mut heights: Vec<i64> = vec![];
    let mut names: Vec<String> = vec![];
    let mut msamples: Vec<Value> = vec![];
    for_each_export(|tag, v| {
        if tag != 'F' {
            return;
        }
        let name = v[0].as_str().unwrap_or("").to_string();
        let f: Vec<u32> = v[1].as_array().unwrap().iter().zip(v[2].as_array().unwrap()).map(|(h, l)| ((h.as_u64().unwrap() as u32) << 16) | l.as_u64().unwrap() as u32).collect();
        let h = v[3].as_i64().unwrap();
        tables += 1;
        heights.push(h);
        if !names.contains(&name) {
            names.push(name.clone());
        }
        let (t, tev) = table_freq(&f);
        let mut evs: Vec<Value> = vec![];
        let mut ok = match &t {
            None => {
                panics += 1;
                h > 24
            }
            Some(t) => {
                built += 1;
                h <= 24 && repr_json(&t.h) == v[4]
            }
        };
        if let Some(t) = &t {
            for c in v[5].as_array().unwrap() {
                // <<s, e, eb, [k |-> decoding of the first k - 1 bytes of e at capacity n + 1]>>
                let s = bytes_of(&c[0]);
                let e = bytes_of(&c[1]);
                let eb = bytes_of(&c[2]);
                let n = s.len() as i64;
                set_case(&format!("huffman family {} vector {:?}", name, s));
                vectors += 1;
                nontrivial += (!s.is_empty()) as u64;
                let runs: Vec<(&str, i64)> = vec![("compress", -1), ("compress_into", e.len() as i64), ("compress_into", (e.len() as i64 - 1).max(0)),
                                                  ("compress_bug", eb.len() as i64), ("compress_bug", (eb.len() as i64 - 1).max(0))];
                let ce = comp_event(t, &s, &runs);
                ok &= ce["clen"] == json!(e.len()) && ce["clenb"] == json!(eb.len()) && (ce["ref_res"] == "none" || (ce["ref_res"] == "ok" && bytes_of(&ce["ref"]) == eb));
                for r in ce["runs"].as_array().unwrap() {
                    let want = if r["api"] == "compress_bug" { &eb } else { &e };
                    let cap = r["cap"].as_i64().unwrap();
                    ok &= r["canary"] == true && if cap < 0 || cap as usize >= want.len() { r["res"] == "ok" && &bytes_of(&r["out"]) == want } else { r["res"] == "capacity" };
                    calls += 1;
                }
                evs.push(ce);
                for inp in [&e, &eb] {
                    let de = decomp_event(t, inp, &[("decompress", -1), ("decompress_into", n + 1), ("decompress_into", n), ("decompress_into", (n - 1).max(0))]);
                    for r in de["runs"].as_array().unwrap() {
                        let cap = r["cap"].as_i64().unwrap();
                        ok &= r["canary"] == true && if cap < 0 || cap >= n { r["res"] == "ok" && bytes_of(&r["out"]) == s } else { r["res"] != "ok" && r["res"] != "panic" };
                        calls += 1;
                    }
                    evs.push(de);
                }
                for (k, exp) in c[3].as_array().unwrap().iter().enumerate() {
                    let de = decomp_event(t, &e[..k.min(e.len())], &[("decompress_into", n + 1)]);
                    let r = &de["runs"][0];
                    ok &= r["canary"] == true && if exp[0] == json!(1) { r["res"] == "ok" && r["out"] == exp[1] } else { r["res"] != "ok" && r["res"] != "panic" }
                        && (r["ref_res"] != "ok" || (r["res"] == "ok" && r["ref"] == r["out"]));
                    calls += 1;
                    evs.push(de);
                }
            }
            // recorded behaviour under this table
            writeln!(recw, "{}", tev).unwrap();
            events += 1;
            if full {
                drive_table_systematic(t, &mut rng, &mut recw, &mut events, &mut rcalls);
            }
            drive_table_runs(t, &mut rng, if full { 2 } else { 0 }, &mut recw, &mut events, &mut rcalls);
        } else {
            writeln!(recw, "{}", tev).unwrap();
            events += 1;
        }
        if !ok {
            mism += 1;
            if msamples.len() < 3 {
                msamples.push(json!({"family": name, "height": h, "table": {"res": tev["res"], "freq_hex": tev["freq_hex"]}}));
            }
            if mism <= 20 {
                writeln!(out, "{}", tev).unwrap();
                for ev in &evs {
                    writeln!(out, "{}", ev).unwrap();
                }
            }
        }
    });
    recw.flush().unwrap();
    heights.sort();
    println!(
        "SUMMARY {}",
        json!({"tables": tables, "tables_built": built, "tables_panicked": panics, "vectors": vectors, "nontrivial": nontrivial, "calls": calls + rcalls, "mismatch_cases": mism,
               "mismatch_samples": msamples, "samples": [], "heights": heights, "families": names, "events": events, "reference_linked": true})
    );
}

// ---------------------------------------------------------------- direction B

fn rnd_input(rng: &mut StdRng, maxlen: usize) -> Vec<u8> {
    let n = match rng.gen_range(0..10) {
        0 => rng.gen_range(0..4),
        1..=5 => rng.gen_range(0..maxlen.min(64) + 1),
        6..=8 => rng.gen_range(0..maxlen / 4 + 1),
        _ => rng.gen_range(0..maxlen + 1),
    };
    match rng.gen_range(0..6) {
        0 => vec![0; n],                                                    // highly compressible
        1 => (0..n).map(|_| rng.gen()).collect(),                           // incompressible
        2 => (0..n).map(|_| [0u8, 0, 0, 1, 2, 0x80, 0xff][rng.gen_range(0..7)]).collect(),
        3 => {
            // snapshot-like: small ints, runs
            let mut v = Vec::with_capacity(n);
            while v.len() < n {
                let b: u8 = if rng.gen_range(0..3) == 0 { rng.gen() } else { rng.gen_range(0..16) };
                for _ in 0..rng.gen_range(1..6) {
                    if v.len() < n {
                        v.push(b);
                    }
                }
            }
            v
        }
        4 => (0..n).map(|i| (i * 7 + 3) as u8).collect(),                   // every byte value
        _ => (0..n).map(|_| rng.gen_range(200..=255)).collect(),            // rare symbols: long code words
    }
}

fn caps_for(rng: &mut StdRng, exact: usize) -> Vec<i64> {
    let mut c = vec![exact as i64, exact as i64 + 1];
    if exact > 0 {
        c.push(exact as i64 - 1);
        c.push(rng.gen_range(0..exact) as i64);
    }
    c.push(0);
    c.push(exact as i64 + rng.gen_range(2..64));
    c.sort();
    c.dedup();
    c
}

fn drive_table(t: &Tab, rng: &mut StdRng, cases: usize, maxlen: usize, out: &mut dyn Write, events: &mut u64, calls: &mut u64) {
    let mut emit = |e: Value, events: &mut u64, calls: &mut u64| {
        *calls += e["runs"].as_array().map(|a| a.len()).unwrap_or(0) as u64;
        writeln!(out, "{}", e).unwrap();
        *events += 1;
    };
    for case in 0..cases {
        let input = rnd_input(rng, maxlen);
        set_case(&format!("huffman drive case {} len {}", case, input.len()));
        let probe = do_comp(t, &input, "compress", -1, false);
        let comp = bytes_of(&probe["out"]);
        let compb_len = probe["clenb"].as_i64().unwrap_or(0).max(0) as usize;
        // capacities around the exact length, for both output forms
        let small = input.len() <= 24;
        let mut runs: Vec<(&str, i64)> = vec![("compress", -1)];
        let caps: Vec<i64> = if small { (0..=(comp.len() as i64 + 2)).collect() } else { caps_for(rng, comp.len()) };
        runs.extend(caps.into_iter().map(|c| ("compress_into", c)));
        runs.extend(caps_for(rng, compb_len).into_iter().map(|c| ("compress_bug", c)));
        emit(comp_event(t, &input, &runs), events, calls);
        // decompressor inputs: the valid stream, the reference form, truncations, extensions, garbage
        let mut inputs: Vec<Vec<u8>> = vec![comp.clone()];
        let mut withbug = comp.clone();
        while withbug.len() < compb_len {
            withbug.push(0);
        }
        inputs.push(withbug);
        if !comp.is_empty() {
            inputs.push(comp[..rng.gen_range(0..comp.len())].to_vec());
            inputs.push(comp[..comp.len() - 1].to_vec());
            let mut flipped = comp.clone();
            let i = rng.gen_range(0..flipped.len());
            flipped[i] ^= 1 << rng.gen_range(0..8);
            inputs.push(flipped);
        }
        let mut ext = comp.clone();
        for _ in 0..rng.gen_range(1..6) {
            ext.push(rng.gen());
        }
        inputs.push(ext);
        let n = rng.gen_range(0..(maxlen / 4).max(8));
        inputs.push((0..n).map(|_| rng.gen()).collect());
        for inp in inputs {
            let mut runs: Vec<(&str, i64)> = vec![("decompress", -1)];
            let caps: Vec<i64> = if small { (0..=(input.len() as i64 + 2)).collect() } else { caps_for(rng, input.len()) };
            runs.extend(caps.into_iter().map(|c| ("decompress_into", c)));
            emit(decomp_event(t, &inp, &runs), events, calls);
        }
    }
}

/// Decoder inputs derived systematically from a few short inputs, for the table in force: the
/// valid stream, EVERY truncation of it (down to the empty stream), extensions and garbage, each
/// at every capacity 0..n+1 and through the allocating API, with the reference on the same event.
fn drive_table_systematic(t: &Tab, rng: &mut StdRng, out: &mut dyn Write, events: &mut u64, calls: &mut u64) {
    let mut emit = |e: Value, events: &mut u64, calls: &mut u64| {
        *calls += e["runs"].as_array().map(|a| a.len()).unwrap_or(0) as u64;
        writeln!(out, "{}", e).unwrap();
        *events += 1;
    };
    let mut inputs: Vec<Vec<u8>> = vec![vec![], vec![rng.gen()], vec![0, 0, 0]];
    inputs.push((0..3).map(|_| rng.gen()).collect());
    inputs.push((0..5).map(|_| [0u8, 1, 0x80, 0xff, rng.gen()][rng.gen_range(0..5)]).collect());
    for input in inputs {
        set_case(&format!("huffman systematic input {:?}", input));
        let probe = do_comp(t, &input, "compress", -1, false);
        let comp = bytes_of(&probe["out"]);
        let n = input.len() as i64;
        let runs_for = |_: &[u8]| -> Vec<(&str, i64)> {
            let mut r: Vec<(&str, i64)> = vec![("decompress", -1)];
            r.extend((0..=n + 1).map(|c| ("decompress_into", c)));
            r
        };
        let mut streams: Vec<Vec<u8>> = (0..=comp.len()).map(|k| comp[..k].to_vec()).collect();
        for tail in [vec![0u8], vec![0xff], vec![rng.gen(), rng.gen()]] {
            let mut e = comp.clone();
            e.extend(tail);
            streams.push(e);
        }
        streams.push((0..3).map(|_| rng.gen()).collect());
        for st in streams {
            emit(decomp_event(t, &st, &runs_for(&st)), events, calls);
        }
    }
}

/// Runs of one symbol under the table in force: for each interesting byte (00, ff, the byte with the shortest
/// code word, the byte with the longest one) runs of 1..40 repetitions starting at every bit alignment of the
/// compressed stream (the alignment is set by a prefix of other symbols whose code lengths add up to it), some
/// followed by another symbol; compressed through all entry points at the exact capacity (and one byte less),
/// with the reference on the same event, and decompressed again.
fn drive_table_runs(t: &Tab, rng: &mut StdRng, level: u8, out: &mut dyn Write, events: &mut u64, calls: &mut u64) -> Value {
    let mut emit = |e: Value, events: &mut u64, calls: &mut u64| {
        *calls += e["runs"].as_array().map(|a| a.len()).unwrap_or(0) as u64;
        writeln!(out, "{}", e).unwrap();
        *events += 1;
    };
    let lens: Vec<u32> = t.h.repr().into_iter().take(256).map(|s| s.num_bits()).collect();
    let shortest = (0..256).min_by_key(|&i| lens[i]).unwrap() as u8;
    let longest = (0..256).max_by_key(|&i| lens[i]).unwrap() as u8;
    let mut syms: Vec<u8> = vec![0, 0xff, shortest, longest];
    syms.dedup();
    let mut seen = vec![];
    syms.retain(|x| {
        let new = !seen.contains(x);
        seen.push(*x);
        new
    });
    let (mut n_runs, mut aligned) = (0u64, [false; 8]);
    for &sym in &syms {
        // prefixes (without sym) that end at each bit offset 0..7: shortest sequences over three other bytes
        let mut others: Vec<u8> = vec![];
        for b in 0..=255u8 {
            if b != sym && !others.iter().any(|&o| lens[o as usize] % 8 == lens[b as usize] % 8) && lens[b as usize] % 8 != 0 {
                others.push(b);
            }
            if others.len() == 3 {
                break;
            }
        }
        let mut prefix: Vec<Option<Vec<u8>>> = vec![None; 8];
        prefix[0] = Some(vec![]);
        for _ in 0..8 {
            for a in 0..8usize {
                if let Some(p) = prefix[a].clone() {
                    for &o in &others {
                        let b = (a + lens[o as usize] as usize) % 8;
                        if prefix[b].is_none() {
                            let mut q = p.clone();
                            q.push(o);
                            prefix[b] = Some(q);
                        }
                    }
                }
            }
        }
        // level 2: every length 1..40; 1: lengths around the byte boundaries; 0: the fewest (tables of the TLC family, quick tier)
        let at0: Vec<usize> = match level {
            2 => (1..=40).collect(),
            1 => vec![1, 2, 7, 8, 9, 15, 16, 17, 24, 32, 40],
            _ => vec![1, 8, 9, 40],
        };
        let shifted: Vec<usize> = match level {
            2 => vec![1, 7, 8, 9, 16, 17, 33],
            1 => vec![8, 9, 16],
            _ => vec![8],
        };
        for a in 0..8usize {
            let p = match &prefix[a] {
                Some(p) => p.clone(),
                None => continue,
            };
            aligned[a] = true;
            for &k in if a == 0 { &at0 } else { &shifted } {
                let mut input = p.clone();
                input.extend(std::iter::repeat(sym).take(k));
                if rng.gen_range(0..3) == 0 {
                    input.push(rng.gen());
                }
                set_case(&format!("huffman run of {} x {:02x} at bit {}", k, sym, a));
                let probe = do_comp(t, &input, "compress", -1, false);
                let clen = probe["clen"].as_i64().unwrap_or(0).max(0);
                let clenb = probe["clenb"].as_i64().unwrap_or(0).max(0);
                let runs: Vec<(&str, i64)> = vec![("compress", -1), ("compress_into", clen), ("compress_into", (clen - 1).max(0)), ("compress_bug", clenb)];
                emit(comp_event(t, &input, &runs), events, calls);
                n_runs += 1;
                if n_runs % 4 == 0 || k == 8 {
                    let comp = bytes_of(&probe["out"]);
                    let n = input.len() as i64;
                    emit(decomp_event(t, &comp, &[("decompress", -1), ("decompress_into", n), ("decompress_into", (n - 1).max(0))]), events, calls);
                }
            }
        }
    }
    json!({"runs": n_runs, "alignments": aligned.iter().filter(|&&x| x).count(), "symbols": syms.len()})
}

/// Shape of a table, for the run summary only: (EOF code length, EOF all zeros, EOF ends in 1).
fn eof_shape(h: &Huffman) -> (u32, bool, bool) {
    let e = h.repr().into_iter().last().unwrap();
    let n = e.num_bits();
    ((n), (0..n).all(|i| !e.bit(i)), n > 0 && e.bit(n - 1))
}

fn rnd_freqs(rng: &mut StdRng, k: usize) -> Vec<u32> {
    // Zero entries chain up at the bottom of the tree (depth = number of zeros, roughly) and so do
    // saturated sums: most families keep every frequency >= 1 and the total below 2^32 so that the
    // table can be built; families 2, 7, 8, 9 aim at trees deeper than 24 (known finding F2).
    let mut f = vec![1u32; 256];
    // the bytes whose code word is pushed to an extreme: 00 and ff in turn, then any
    let pick = |rng: &mut StdRng, k: usize| -> usize {
        match (k / 24) % 3 {
            0 => 0,
            1 => 255,
            _ => rng.gen_range(0..256),
        }
    };
    match k % 24 {
        16 | 18 => {
            // a byte that is the LIGHTER child of the root (between a third and a half of the total): the one-bit
            // code word `0` (a dominant byte, family 12 / 17, gets `1`)
            f.iter_mut().for_each(|x| *x = 100);
            let s = if k % 24 == 16 { pick(rng, k) } else { 255 - pick(rng, k) };
            f[s] = rng.gen_range(13_000..20_000);
        }
        17 => {
            f.iter_mut().for_each(|x| *x = rng.gen_range(1..8));
            f[255 - pick(rng, k)] = 1 << 30;
        }
        19 => {
            // 00 and ff as rare as EOF (ties with it) resp. rarer: the longest code words
            f.iter_mut().for_each(|x| *x = rng.gen_range(50..1000));
            f[0] = (k / 24 % 2) as u32;
            f[255] = 1 - (k / 24 % 2) as u32;
        }
        20 => {
            // two heavy bytes (40 % and 35 %): code words of one and two bits
            f.iter_mut().for_each(|x| *x = 10);
            f[pick(rng, k)] = 4000;
            f[(pick(rng, k) + 128) % 256] = 3500;
        }
        21 => f.iter_mut().enumerate().for_each(|(i, x)| *x = 1 << (i / 16)),       // ties between leaves and merged nodes everywhere
        22 => {
            // strictly increasing, one tie between neighbours at a random position
            f.iter_mut().enumerate().for_each(|(i, x)| *x = 1000 + 10 * i as u32);
            let j = rng.gen_range(0..255);
            f[j + 1] = f[j];
        }
        23 => {
            // sums that reach u32::MAX exactly at the root / just below
            f.iter_mut().for_each(|x| *x = 1);
            f[pick(rng, k)] = u32::MAX / 2;
            f[(pick(rng, k) + 1) % 256] = u32::MAX / 2 - rng.gen_range(0..300);
        }
        0 => f.iter_mut().for_each(|x| *x = rng.gen_range(1..1000)),
        1 => {}
        2 => f.iter_mut().for_each(|x| *x = 0),
        3 => {
            // geometric head, ratio 2, over a flat base: depth about 9 + head
            let n = rng.gen_range(4..15);
            for i in 0..n {
                f[(i * 11 + k) % 256] = 512 << i;
            }
        }
        4 => {
            // Fibonacci head over a flat base
            let m = rng.gen_range(4..15);
            let (mut a, mut b) = (300u32, 500u32);
            for i in 0..m {
                f[(i * 7 + k) % 256] = a;
                let c = a + b;
                a = b;
                b = c;
            }
        }
        5 => f.iter_mut().for_each(|x| *x = rng.gen_range(1..16_000_000)),       // large, total < 2^32
        6 => f.iter_mut().enumerate().for_each(|(i, x)| *x = (1_000_000 / (i as u32 + 1)).max(1)), // zipf
        7 => f.iter_mut().for_each(|x| *x = if rng.gen_range(0..4) == 0 { rng.gen_range(0..100_000) } else { 0 }),
        8 => {
            // saturating sums
            f.iter_mut().for_each(|x| *x = rng.gen());
        }
        9 => {
            // Fibonacci head of m symbols: depth about m
            let m = rng.gen_range(18..40);
            let (mut a, mut b) = (1u32, 1u32);
            for i in 0..m {
                f[(i * 7 + k) % 256] = a;
                let c = a.saturating_add(b);
                a = b;
                b = c;
            }
        }
        12 => {
            // one dominant symbol over a flat base: the EOF code is all zeros (the endless zeros after
            // the input then *terminate* the stream)
            f.iter_mut().for_each(|x| *x = 4);
            f[pick(rng, k)] = 1 << 30;
        }
        13 => {
            // exactly one zero frequency: EOF is the right sibling of that symbol (code ends in 1)
            f.iter_mut().for_each(|x| *x = rng.gen_range(2..1000));
            f[rng.gen_range(0..256)] = 0;
        }
        14 => {
            // EOF as deep as possible: three zeros below it and a geometric head above
            f.iter_mut().for_each(|x| *x = rng.gen_range(1..4));
            for _ in 0..3 {
                f[rng.gen_range(0..256)] = 0;
            }
            for i in 0..10 {
                f[(i * 13 + k) % 256] = 2048 << i;
            }
        }
        15 => f.iter_mut().for_each(|x| *x = 2),                                     // flat, EOF alone is rarer
        10 => {
            // a few zeros (a short chain at the bottom) and one dominant symbol, like the built-in table
            f.iter_mut().for_each(|x| *x = rng.gen_range(1..5000));
            for _ in 0..rng.gen_range(1..12) {
                f[rng.gen_range(0..256)] = 0;
            }
            f[rng.gen_range(0..256)] = 1 << 30;
        }
        _ => {
            // geometric with a random ratio between 1.2 and 2 over a flat base
            let m = rng.gen_range(5..30);
            let q = rng.gen_range(1.2..2.0f64);
            let mut x = 300.0f64;
            for i in 0..m {
                f[(i * 5 + k) % 256] = (x.min(40_000_000.0)) as u32;
                x *= q;
            }
        }
    }
    f
}

fn drive(freq_file: &str, seed: u64, cases: usize, maxlen: usize, tables: usize, path: &str) {
    let mut rng = StdRng::seed_from_u64(seed);
    let mut out = std::io::BufWriter::new(std::fs::File::create(path).expect("create"));
    let mut events = 0u64;
    let mut calls = 0u64;
    let (t, tev) = table_builtin(freq_file);
    let linked = t.r.is_some();
    writeln!(out, "{}", tev).unwrap();
    events += 1;
    drive_table(&t, &mut rng, cases, maxlen, &mut out, &mut events, &mut calls);
    drive_table_systematic(&t, &mut rng, &mut out, &mut events, &mut calls);
    let full: u8 = if tables > 40 { 2 } else { 1 };
    let mut run_stats = vec![drive_table_runs(&t, &mut rng, full, &mut out, &mut events, &mut calls)];
    let (mut zero_is_0, mut zero_is_1, mut ff_is_0, mut ff_is_1, mut zero_longest, mut ff_longest) = (0, 0, 0, 0, 0, 0);
    let mut panicked = 0;
    let (mut eof_zero, mut eof_one, mut eof_min, mut eof_max) = (0, 0, 99u32, 0u32);
    for k in 0..tables {
        let f = rnd_freqs(&mut rng, k);
        let (t, tev) = table_freq(&f);
        writeln!(out, "{}", tev).unwrap();
        events += 1;
        match t {
            Some(t) => {
                let (n, z, o) = eof_shape(&t.h);
                eof_zero += z as u32;
                eof_one += o as u32;
                eof_min = eof_min.min(n);
                eof_max = eof_max.max(n);
                drive_table(&t, &mut rng, 2, maxlen.min(256), &mut out, &mut events, &mut calls);
                drive_table_systematic(&t, &mut rng, &mut out, &mut events, &mut calls);
                run_stats.push(drive_table_runs(&t, &mut rng, full, &mut out, &mut events, &mut calls));
                // which extremes were reached (run summary only)
                let codes: Vec<(u32, bool)> = t.h.repr().into_iter().map(|s| (s.num_bits(), s.num_bits() > 0 && s.bit(0))).collect();
                let maxlen_code = codes.iter().map(|c| c.0).max().unwrap_or(0);
                zero_is_0 += (codes[0] == (1, false)) as u32;
                zero_is_1 += (codes[0] == (1, true)) as u32;
                ff_is_0 += (codes[255] == (1, false)) as u32;
                ff_is_1 += (codes[255] == (1, true)) as u32;
                zero_longest += (codes[0].0 == maxlen_code) as u32;
                ff_longest += (codes[255].0 == maxlen_code) as u32;
            }
            None => panicked += 1,
        }
    }
    out.flush().unwrap();
    println!("SUMMARY {}", json!({"events": events, "calls": calls, "cases": cases, "tables": tables, "tables_panicked": panicked, "tables_eof_all_zero": eof_zero,
        "tables_eof_ends_in_one": eof_one, "eof_len_min": eof_min, "eof_len_max": eof_max, "reference_linked": linked,
        "run_inputs": run_stats.iter().map(|r| r["runs"].as_u64().unwrap_or(0)).sum::<u64>(),
        "run_alignments_min": run_stats.iter().map(|r| r["alignments"].as_u64().unwrap_or(0)).min().unwrap_or(0),
        "extremes": {"00=0": zero_is_0, "00=1": zero_is_1, "ff=0": ff_is_0, "ff=1": ff_is_1, "00 longest": zero_longest, "ff longest": ff_longest}}));
}

fn rerun(freq_file: &str, inp: &str, outp: &str) {
    let text = std::fs::read_to_string(inp).expect("read");
    let mut out = std::fs::File::create(outp).expect("create");
    let mut cur: Option<Tab> = None;
    for line in text.lines().filter(|l| !l.trim().is_empty()) {
        let e: Value = serde_json::from_str(line).expect("json");
        match e["e"].as_str().unwrap_or("") {
            "table" => {
                let (t, ev) = if e["kind"] == "builtin" {
                    let (t, ev) = table_builtin(freq_file);
                    (Some(t), ev)
                } else {
                    table_freq(&freq_unhex(e["freq_hex"].as_str().unwrap_or("")))
                };
                cur = t;
                writeln!(out, "{}", ev).unwrap();
            }
            "comp" | "decomp" => {
                if let Some(t) = &cur {
                    let runs: Vec<(String, i64)> = e["runs"].as_array().unwrap().iter().map(|r| (r["api"].as_str().unwrap().to_string(), r["cap"].as_i64().unwrap())).collect();
                    let runs: Vec<(&str, i64)> = runs.iter().map(|(a, c)| (a.as_str(), *c)).collect();
                    let input = bytes_of(&e["in"]);
                    let ev = if e["e"] == "comp" { comp_event(t, &input, &runs) } else { decomp_event(t, &input, &runs) };
                    writeln!(out, "{}", ev).unwrap();
                }
            }
            _ => {}
        }
    }
}

fn main() {
    vh_common::quiet_panics();
    vh_common::start_watchdog();
    let a: Vec<String> = std::env::args().collect();
    if let Err(msg) = catch(|| run(&a)) {
        // a panic of the harness itself (not of the code under test, which is always caught)
        println!("HARNESS-ERROR {} at {}", msg, vh_common::last_panic_location());
        std::process::exit(3);
    }
}

fn run(a: &[String]) {
    match a.get(1).map(|s| s.as_str()) {
        Some("replay") => replay(&a[2], &a[3]),
        Some("drive") => drive(&a[2], a[3].parse().unwrap(), a[4].parse().unwrap(), a[5].parse().unwrap(), a[6].parse().unwrap(), &a[7]),
        Some("rerun") => rerun(&a[2], &a[3], &a[4]),
        Some("replay-freq") => replay_freq(a[2].parse().unwrap(), a[3] == "full", &a[4], &a[5]),
        _ => {
            eprintln!("usage: vh-huffman replay <freqs> <mismatches> | drive <freqs> <seed> <cases> <maxlen> <tables> <trace> | rerun <freqs> <in> <out>");
            std::process::exit(2);
        }
    }
}
