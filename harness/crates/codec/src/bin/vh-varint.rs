//! Harness for C08 (variable-length integers and packed fields, `libtw2-packer`).
//!
//!   vh-varint replay <mismatch-trace>      direction A: TLC's test vectors on stdin
//!   vh-varint drive <seed> <ints> <decs> <sessions> <trace>   direction B: seeded driver
//!   vh-varint rerun <events-in> <events-out>   re-execute the inputs of recorded events
//!   vh-varint sweep <stride> <offset> <dense> <threads> <mismatch-trace>   all integers x = offset + k * stride (and all of magnitude < dense) on the
//!             real write_int / read_int; the expected bytes come from the class table TLC prints (stdin)
//!
//! The harness never judges: it executes the real code, records what it did as NDJSON
//! events and (in `replay`) tells which TLC-predicted results were not reproduced; those
//! cases are written as events and judged by spec/varint/VarIntTrace.tla.
use libtw2_buffer::with_buffer;
use libtw2_packer::with_packer;
use libtw2_packer::IntUnpacker;
use libtw2_packer::Unpacker;
use libtw2_packer::Warning;
use serde_json::{json, Value};
use std::io::Write;
use vh_codec::*;
use vh_common::rand::rngs::StdRng;
use vh_common::rand::{Rng, SeedableRng};
use vh_common::{catch, guarded};

fn warn_names(w: &[Warning]) -> Value {
    Value::Array(
        w.iter()
            .map(|x| {
                json!(match x {
                    Warning::OverlongIntEncoding => "OverlongIntEncoding",
                    Warning::NonZeroIntPadding => "NonZeroIntPadding",
                    Warning::ExcessData => "ExcessData",
                })
            })
            .collect(),
    )
}

/// write_int(x) into a guarded buffer of `cap` bytes: ("ok" | "cap" | "panic", bytes written, canary intact)
fn write_int_into(x: i32, cap: usize) -> (&'static str, Vec<u8>, bool) {
    let mut g = Guarded::new(cap);
    let w = guarded(5000, || {
        with_packer(g.slice(), |mut p| {
            let r = p.write_int(x);
            (r.is_ok(), p.written().to_vec())
        })
    });
    let (res, enc) = match w {
        Ok((true, e)) => ("ok", e),
        Ok((false, e)) => ("cap", e),
        Err(_) => ("panic", vec![]),
    };
    (res, enc, g.intact())
}

/// write_int(x) into a guarded 5-byte buffer, then read_int on what was written; then the same
/// write into a buffer with exactly as much room as the encoding took, and into one byte less.
fn do_int(x: i32) -> Value {
    let (wres, enc, canary) = write_int_into(x, 5);
    let mut o = json!({"x": x, "wres": wres, "enc": jbytes(&enc), "canary": canary});
    let r = do_dec(&enc);
    o["rres"] = r["res"].clone();
    o["rv"] = r["v"].clone();
    o["rused"] = r["used"].clone();
    o["rw"] = r["w"].clone();
    let (xres, xenc, xc) = write_int_into(x, enc.len());
    let (sres, _, sc) = write_int_into(x, enc.len().saturating_sub(1));
    o["xres"] = json!(xres);
    o["xenc"] = jbytes(&xenc);
    o["sres"] = json!(sres);
    if !(xc && sc) {
        o["canary"] = json!(false);
    }
    o
}

/// read_int on arbitrary bytes: (Some(value) | None, bytes consumed, warnings), Err = panic.
fn raw_dec(b: &[u8]) -> Result<(Option<i32>, usize, Vec<Warning>), String> {
    guarded(5000, || {
        let mut warns: Vec<Warning> = vec![];
        let mut u = Unpacker::new(b);
        let r = u.read_int(&mut warns);
        (r.ok(), u.num_bytes_read(), warns)
    })
}

fn dec_json(b: &[u8], r: &Result<(Option<i32>, usize, Vec<Warning>), String>) -> Value {
    match r {
        Ok((Some(v), used, w)) => json!({"b": jbytes(b), "res": "ok", "v": v, "used": used, "w": warn_names(w)}),
        Ok((None, used, w)) => json!({"b": jbytes(b), "res": "end", "v": 0, "used": used, "w": warn_names(w)}),
        Err(_) => json!({"b": jbytes(b), "res": "panic", "v": 0, "used": 0, "w": []}),
    }
}

fn do_dec(b: &[u8]) -> Value {
    dec_json(b, &raw_dec(b))
}

/// The write phase of a session on the real packer; returns the `w` events and `written()`.
fn write_phase<'a, B: libtw2_buffer::Buffer<'a>>(buf: B, cap: usize, writes: &[Value], wev: &mut Vec<Value>) -> Vec<u8> {
    with_packer(buf, |mut p| {
        for w in writes {
            let k = w["k"].as_str().unwrap_or("");
            let x = w["x"].as_i64().unwrap_or(0) as i32;
            let b = bytes_of(&w["b"]);
            let r = guarded(5000, || match k {
                "int" => p.write_int(x),
                "str" => p.write_string(&b),
                "data" => p.write_data(&b),
                "raw" => p.write_raw(&b),
                "uuid" => p.write_uuid(uuid::Uuid::from_slice(&b).expect("uuid item of 16 bytes")),
                _ => p.write_rest(&b),
            });
            let res = match r {
                Ok(Ok(())) => "ok",
                Ok(Err(_)) => "cap",
                Err(_) => "panic",
            };
            let rem = catch(|| with_buffer(&mut p, |b| b.remaining())).unwrap_or(usize::MAX);
            let after = if rem == usize::MAX { -1 } else { cap as i64 - rem as i64 };
            wev.push(json!({"e": "w", "k": k, "x": x, "b": jbytes(&b), "res": res, "after": after}));
        }
        p.written().to_vec()
    })
}

/// A session: writes into a packer of capacity `cap` (skipped if cap < 0), then reads from an
/// unpacker over `data` (explicit) or over what was written plus `pad` zero bytes.
/// input: {"cap", "bk", "len0", "writes":[{"k","x","b"}], "demo", "data": [..] | null, "pad", "reads":[{"o","n"}]}
/// bk: what `with_packer` is given -- "slice" (a guarded &mut [u8]), "vec" (a Vec with len0 bytes in it and
/// cap bytes of spare capacity), "arrayvec" (an ArrayVec<[u8; 32]> holding 32 - cap bytes)
fn do_session(s: &Value) -> Vec<Value> {
    let mut ev = Vec::new();
    let cap = s["cap"].as_i64().unwrap_or(-1);
    let mut written: Vec<u8> = vec![];
    let mut accepted: Vec<Value> = vec![];
    if cap >= 0 {
        let cap = cap as usize;
        let mut bk = s["bk"].as_str().unwrap_or("slice").to_string();
        let mut len0 = s["len0"].as_u64().unwrap_or(0) as usize;
        if bk == "arrayvec" {
            if cap > 32 {
                bk = "slice".into();
            } else {
                len0 = 32 - cap;
            }
        }
        if bk == "slice" {
            len0 = 0;
        }
        let pre: Vec<u8> = (0..len0).map(|i| 0xA0u8.wrapping_add(i as u8)).collect();
        let mut g = Guarded::new(cap);
        let mut vecb: Vec<u8> = Vec::new();
        let mut avb: arrayvec::ArrayVec<[u8; 32]> = arrayvec::ArrayVec::new();
        if bk == "vec" {
            vecb = Vec::with_capacity(len0 + cap);
            vecb.extend_from_slice(&pre);
            if vecb.capacity() != len0 + cap {
                bk = "slice".into(); // the allocator rounded up: the capacity would not be the one of the case
            }
        } else if bk == "arrayvec" {
            avb.try_extend_from_slice(&pre).expect("arrayvec prefix");
        }
        let pre = if bk == "slice" { vec![] } else { pre };
        ev.push(json!({"e": "pk_new", "cap": cap, "bk": bk, "pre": jbytes(&pre)}));
        let writes = s["writes"].as_array().cloned().unwrap_or_default();
        let mut wev = Vec::new();
        let res = catch(|| match bk.as_str() {
            "vec" => write_phase(&mut vecb, cap, &writes, &mut wev),
            "arrayvec" => write_phase(&mut avb, cap, &writes, &mut wev),
            _ => write_phase(g.slice(), cap, &writes, &mut wev),
        });
        for e in &wev {
            if e["res"] == "ok" {
                let n = e["b"].as_array().map(|a| a.len()).unwrap_or(0);
                accepted.push(if e["k"] == "raw" { json!({"o": "raw", "n": n}) } else { json!({"o": e["k"], "n": 0}) });
            }
        }
        ev.append(&mut wev);
        match res {
            Ok(w) => {
                written = w;
                // what the owner of the memory holds afterwards (slice: the window itself)
                let owner: Vec<u8> = match bk.as_str() {
                    "vec" => vecb.clone(),
                    "arrayvec" => avb.to_vec(),
                    _ => g.slice()[..written.len().min(cap)].to_vec(),
                };
                ev.push(json!({"e": "pk_end", "res": "ok", "written": jbytes(&written), "canary": g.intact(), "owner": jbytes(&owner)}));
            }
            Err(_) => ev.push(json!({"e": "pk_end", "res": "panic", "written": [], "canary": g.intact(), "owner": []})),
        }
    }
    if s["reads"].is_null() {
        return ev;
    }
    let demo = s["demo"].as_bool().unwrap_or(false);
    let pad = s["pad"].as_u64().unwrap_or(0) as usize;
    let (data, src) = if s["data"].is_array() {
        (bytes_of(&s["data"]), "raw")
    } else {
        let mut d = written.clone();
        d.extend(std::iter::repeat(0).take(pad));
        (d, "packer")
    };
    if demo && data.len() % 4 != 0 {
        // new_from_demo asserts the padding: a call the API does not permit -- executed once, to see the refusal
        let r = catch(|| Unpacker::new_from_demo(&data).num_bytes_read());
        if src == "raw" {
            ev.push(json!({"e": "up_new", "demo": demo, "data": jbytes(&data), "src": src, "pad": pad, "res": if r.is_err() { "panic" } else { "ok" }}));
        }
        return ev;
    }
    ev.push(json!({"e": "up_new", "demo": demo, "data": jbytes(&data), "src": src, "pad": pad, "res": "ok"}));
    let mut u = if demo { Unpacker::new_from_demo(&data) } else { Unpacker::new(&data) };
    let base = data.as_ptr() as usize;
    // "mirror": read back what was ACCEPTED (the caller carried on after refused writes), then the
    // reads given explicitly
    let mut reads: Vec<Value> = if s["mirror"] == true { accepted } else { vec![] };
    reads.extend(s["reads"].as_array().cloned().unwrap_or_default());
    for r in reads {
        let o = r["o"].as_str().unwrap_or("").to_string();
        let n = r["n"].as_u64().unwrap_or(0) as usize;
        let mut warns: Vec<Warning> = vec![];
        let mut ex: Vec<libtw2_packer::ExcessData> = vec![];
        let mut uu = [0u8; 16];
        // Ok(Some(..)) = Ok, Ok(None) = UnexpectedEnd, "ctrl" = ControlCharacters of sanitize
        let mut ctrl = false;
        let res = guarded(5000, || match o.as_str() {
            "int" => u.read_int(&mut warns).map(|v| (v, None)).ok(),
            "str" => u.read_string().map(|b| (0, Some(b))).ok(),
            "strsan" => match u.read_string() {
                Ok(b) => match libtw2_packer::sanitize(&mut warns, b) {
                    Ok(b) => Some((0, Some(b))),
                    Err(_) => {
                        ctrl = true;
                        Some((0, None))
                    }
                },
                Err(_) => None,
            },
            "data" => u.read_data(&mut warns).map(|b| (0, Some(b))).ok(),
            "raw" => u.read_raw(n).map(|b| (0, Some(b))).ok(),
            "uuid" => u.read_uuid().ok().map(|id| {
                uu = *id.as_bytes();
                (0, None)
            }),
            "rest" => u.read_rest().map(|b| (0, Some(b))).ok(),
            _ => {
                u.finish(&mut ex);
                Some((0, None))
            }
        });
        let mut w = warn_names(&warns);
        if !ex.is_empty() {
            w = Value::Array(ex.iter().map(|_| json!("ExcessData")).collect());
        }
        let to = u.num_bytes_read();
        let rest = u.as_slice();
        let sfx = to <= data.len() && rest == &data[to..];
        let mut e = json!({"e": "r", "o": o, "n": n, "w": w, "to": to, "rl": rest.len(), "sfx": sfx, "empty": u.is_empty(), "v": 0, "b": [], "off": -1});
        match res {
            Ok(Some((v, b))) => {
                e["res"] = json!(if ctrl { "ctrl" } else { "ok" });
                e["v"] = json!(v);
                if let Some(b) = b {
                    e["b"] = jbytes(b);
                    let p = b.as_ptr() as usize;
                    // offset of the returned slice inside the input (-1: not a slice of the input)
                    e["off"] = if p >= base && p + b.len() <= base + data.len() { json!(p - base) } else { json!(-1) };
                } else if o == "uuid" {
                    e["b"] = jbytes(&uu);
                }
            }
            Ok(None) => e["res"] = json!("end"),
            Err(_) => e["res"] = json!("panic"),
        }
        ev.push(e);
    }
    ev
}

// ---------------------------------------------------------------- helper functions, IntUnpacker

/// One call of a free helper function of the packer crate.
/// input: {"f", "a": [ints], "b": [bytes], "n"}; output adds "res", "v", "out", "ints", "warn".
fn do_helper(c: &Value) -> Value {
    use libtw2_packer as pk;
    let f = c["f"].as_str().unwrap_or("").to_string();
    let a: Vec<i32> = c["a"].as_array().map(|a| a.iter().map(|x| x.as_i64().unwrap_or(0) as i32).collect()).unwrap_or_default();
    let b = bytes_of(&c["b"]);
    let n = c["n"].as_u64().unwrap_or(0) as usize;
    let arg = |i: usize| a.get(i).copied().unwrap_or(0);
    let mut o = json!({"f": f, "a": c["a"], "b": jbytes(&b), "n": n, "res": "ok", "v": 0, "out": [], "ints": [], "warn": false});
    let range = |r: Result<i32, pk::IntOutOfRange>, o: &mut Value| match r {
        Ok(v) => o["v"] = json!(v),
        Err(_) => o["res"] = json!("range"),
    };
    let r = guarded(5000, || match f.as_str() {
        "in_range" => range(pk::in_range(arg(0), arg(1), arg(2)), &mut o),
        "at_least" => range(pk::at_least(arg(0), arg(1)), &mut o),
        "positive" => range(pk::positive(arg(0)), &mut o),
        "to_bool" => range(pk::to_bool(arg(0)).map(|x| x as i32), &mut o),
        "sanitize" => {
            let mut w: Vec<Warning> = vec![];
            match pk::sanitize(&mut w, &b) {
                Ok(s) => o["out"] = jbytes(s),
                Err(_) => o["res"] = json!("ctrl"),
            }
            o["warn"] = json!(!w.is_empty());
        }
        "bytes_to_string" => {
            let mut w: Vec<pk::WeirdStringTermination> = vec![];
            let s = pk::bytes_to_string(&mut w, &b);
            o["out"] = jbytes(s);
            o["warn"] = json!(!w.is_empty());
        }
        "string_to_ints" => {
            // the fixed-size entry points where they exist, the general one otherwise
            let v: Vec<i32> = match n {
                3 => pk::string_to_ints3(&b).to_vec(),
                4 => pk::string_to_ints4(&b).to_vec(),
                6 => pk::string_to_ints6(&b).to_vec(),
                _ => {
                    let mut v = vec![0x5a5a5a5ai32; n];
                    pk::string_to_ints(&mut v, &b);
                    v
                }
            };
            o["ints"] = json!(v);
        }
        "string_to_bytes" => {
            let mut g = Guarded::new(n);
            match pk::string_to_bytes(g.slice(), &b) {
                Ok(s) => o["out"] = jbytes(s),
                Err(_) => o["res"] = json!("cap"),
            }
            if !g.intact() {
                o["res"] = json!("canary");
            }
        }
        _ => o["res"] = json!("unknown"),
    });
    if r.is_err() {
        o["res"] = json!("panic");
        o["v"] = json!(0);
        o["out"] = json!([]);
        o["ints"] = json!([]);
        o["warn"] = json!(false);
    }
    o
}

/// An IntUnpacker session: {"xs": [ints], "ops": ["int" | "finish", ..]} -> iu_new + one `ir` event per call.
fn do_iu(xs: &[i32], ops: &[String]) -> Vec<Value> {
    let mut ev = vec![json!({"e": "iu_new", "xs": xs})];
    let mut u = IntUnpacker::new(xs);
    for o in ops {
        let mut ex: Vec<libtw2_packer::ExcessData> = vec![];
        let r = guarded(5000, || match o.as_str() {
            "int" => u.read_int().ok(),
            _ => {
                u.finish(&mut ex);
                Some(0)
            }
        });
        let rest = u.as_slice();
        let w: Vec<&str> = ex.iter().map(|_| "ExcessData").collect();
        let mut e = json!({"e": "ir", "o": o, "v": 0, "w": w, "to": xs.len() as i64 - rest.len() as i64, "rest": rest, "empty": u.is_empty()});
        match r {
            Ok(Some(v)) => {
                e["res"] = json!("ok");
                e["v"] = json!(v);
            }
            Ok(None) => e["res"] = json!("end"),
            Err(_) => e["res"] = json!("panic"),
        }
        ev.push(e);
    }
    ev
}

// ---------------------------------------------------------------- direction A

struct Mismatches {
    out: std::fs::File,
    cases: usize,
    written: usize,
    samples: Vec<Value>,
}

impl Mismatches {
    fn add(&mut self, what: &str, events: Vec<Value>, expected: Value) {
        self.cases += 1;
        if self.samples.len() < 5 {
            self.samples.push(json!({"what": what, "expected": expected, "real": events.clone()}));
        }
        if self.written < 300 {
            self.written += 1;
            for e in events {
                let _ = writeln!(self.out, "{}", e);
            }
        }
    }
}

fn sorted_strs(v: &Value) -> Vec<String> {
    let mut s: Vec<String> = v.as_array().map(|a| a.iter().map(|x| x.as_str().unwrap_or("").to_string()).collect()).unwrap_or_default();
    s.sort();
    s
}

fn replay(path: &str) {
    let mut mm = Mismatches { out: std::fs::File::create(path).expect("create"), cases: 0, written: 0, samples: vec![] };
    let (mut ints, mut decs, mut sessions, mut ops, mut nontrivial) = (0u64, 0u64, 0u64, 0u64, 0u64);
    let (mut helpers, mut hsample, mut usample) = (0u64, 0, 0);
    let mut sample: Vec<Value> = vec![];
    for_each_export(|tag, v| match tag {
        'I' => {
            for c in v.as_array().unwrap() {
                let x = c[0].as_i64().unwrap() as i32;
                let enc = bytes_of(&c[1]);
                let r = do_int(x);
                ints += 1;
                nontrivial += (enc.len() >= 2) as u64;
                let ok = r["wres"] == "ok"
                    && bytes_of(&r["enc"]) == enc
                    && r["canary"] == true
                    && r["rres"] == "ok"
                    && r["rv"] == json!(x)
                    && r["rused"] == json!(enc.len())
                    && r["rw"].as_array().map(|a| a.is_empty()).unwrap_or(false)
                    && r["xres"] == "ok"
                    && bytes_of(&r["xenc"]) == enc
                    && r["sres"] == "cap";
                if !ok {
                    mm.add("int", vec![json!({"e": "ints", "items": [r]})], c.clone());
                } else if sample.len() < 2 && (x as i64).abs() > 70000 {
                    sample.push(json!({"int": r}));
                }
            }
        }
        'B' => {
            vh_common::set_case(&format!("read_int batch starting at {}", v[0][0]));
            for c in v.as_array().unwrap() {
                let b = bytes_of(&c[0]);
                let used = c[1].as_u64().unwrap() as usize;
                let r = raw_dec(&b);
                decs += 1;
                nontrivial += (b.len() >= 2) as u64;
                let ok = match &r {
                    Ok((None, _, _)) => used == 0,
                    Ok((Some(val), u, w)) => {
                        used != 0 && *u == used && Some(*val as i64) == c[2].as_i64() && {
                            let mut code = 0;
                            for x in w {
                                code |= match x {
                                    Warning::OverlongIntEncoding => 1,
                                    Warning::NonZeroIntPadding => 2,
                                    _ => 4,
                                };
                            }
                            w.len() <= 1 && Some(code) == c[3].as_i64()
                        }
                    }
                    Err(_) => false,
                };
                if !ok {
                    mm.add("dec", vec![json!({"e": "decs", "items": [dec_json(&b, &r)]})], c.clone());
                } else if sample.len() < 4 && b.len() == 5 && used == 5 {
                    sample.push(json!({"dec": dec_json(&b, &r)}));
                }
            }
        }
        'P' => {
            // <<cap, writes[<<k, x, b, res, after>>], buf, demo, data, reads[<<o, n, res, v, b, w, to>>]>>
            let cap = v[0].as_i64().unwrap();
            let writes: Vec<Value> = v[1].as_array().unwrap().iter().map(|w| json!({"k": w[0], "x": w[1], "b": w[2]})).collect();
            let reads: Vec<Value> = v[5].as_array().unwrap().iter().map(|r| json!({"o": r[0], "n": r[1]})).collect();
            let buf = bytes_of(&v[2]);
            let data = bytes_of(&v[4]);
            // the same session on every kind of memory `with_packer` accepts, in turn
            let (bk, len0) = [("slice", 0), ("vec", 0), ("vec", 3), ("arrayvec", 0)][(sessions % 4) as usize];
            let mut s = json!({"cap": cap, "bk": bk, "len0": len0, "writes": writes, "demo": v[3], "reads": reads});
            if cap < 0 {
                s["data"] = jbytes(&data);
            } else {
                s["pad"] = json!(data.len() - buf.len());
            }
            let ev = do_session(&s);
            sessions += 1;
            nontrivial += (v[1].as_array().unwrap().len() + v[5].as_array().unwrap().len() >= 2) as u64;
            let mut ok = true;
            let mut wi = 0;
            let mut ri = 0;
            let mut pre = json!([]);
            for e in &ev {
                ops += 1;
                match e["e"].as_str().unwrap() {
                    "w" => {
                        let x = &v[1][wi];
                        ok &= e["res"] == x[3] && e["after"] == x[4];
                        wi += 1;
                    }
                    "pk_end" => {
                        let mut own = bytes_of(&pre);
                        own.extend_from_slice(&buf);
                        ok &= e["res"] == "ok" && bytes_of(&e["written"]) == buf && e["canary"] == true && bytes_of(&e["owner"]) == own
                    }
                    "pk_new" => pre = e["pre"].clone(),
                    "up_new" => ok &= bytes_of(&e["data"]) == data && e["res"] == "ok",
                    "r" => {
                        let x = &v[5][ri];
                        ok &= e["res"] == x[2] && e["v"] == x[3] && e["b"] == x[4] && sorted_strs(&e["w"]) == sorted_strs(&x[5])
                            && e["to"] == x[6] && e["sfx"] == true && e["empty"] == json!(e["rl"] == json!(0))
                            && (e["off"] == json!(-1) || e["b"].as_array().map(|a| a.is_empty()).unwrap_or(true)
                                || e["off"].as_i64().unwrap() + e["b"].as_array().unwrap().len() as i64 <= x[6].as_i64().unwrap());
                        ri += 1;
                    }
                    _ => {}
                }
            }
            ok &= wi == v[1].as_array().unwrap().len() && ri == v[5].as_array().unwrap().len();
            if !ok {
                mm.add("session", ev, v.clone());
            } else if sample.len() < 6 && wi >= 2 && ri >= 3 {
                sample.push(json!({"session": ev}));
            }
        }
        'G' => {
            // helper calls: <<f, a, b, n, res, v, out, ints, warn>>
            let mut items = vec![];
            let mut bad = false;
            for c in v.as_array().unwrap() {
                let r = do_helper(&json!({"f": c[0], "a": c[1], "b": c[2], "n": c[3]}));
                helpers += 1;
                nontrivial += (c[2].as_array().map(|a| a.len()).unwrap_or(0) >= 2 || c[1].as_array().map(|a| a.len()).unwrap_or(0) >= 2) as u64;
                let ok = r["res"] == c[4] && r["v"] == c[5] && r["out"] == c[6] && r["ints"] == c[7] && r["warn"] == c[8];
                if !ok {
                    bad = true;
                    items.push(r);
                } else if sample.len() < 8 && r["f"] == "string_to_ints" && r["res"] == "ok" && r["b"].as_array().unwrap().len() >= 3 && hsample < 2 {
                    hsample += 1;
                    sample.push(json!({"helper": r}));
                }
            }
            if bad {
                mm.add("helpers", vec![json!({"e": "helpers", "items": items})], json!("see the specification's Helper(c)"));
            }
        }
        'U' => {
            // IntUnpacker: <<xs, {run, ..}>>, run = <<<<o, res, v, w, to>>, ..>>
            let xs: Vec<i32> = v[0].as_array().unwrap().iter().map(|x| x.as_i64().unwrap() as i32).collect();
            for run in v[1].as_array().unwrap() {
                let steps = run.as_array().unwrap();
                let opsv: Vec<String> = steps.iter().map(|st| st[0].as_str().unwrap().to_string()).collect();
                let ev = do_iu(&xs, &opsv);
                sessions += 1;
                nontrivial += (steps.len() >= 2) as u64;
                let mut ok = ev.len() == steps.len() + 1;
                for (e, x) in ev.iter().skip(1).zip(steps) {
                    ops += 1;
                    let to = x[4].as_i64().unwrap() as usize;
                    ok &= e["res"] == x[1] && e["v"] == x[2] && sorted_strs(&e["w"]) == sorted_strs(&x[3]) && e["to"] == x[4]
                        && e["rest"] == json!(xs[to.min(xs.len())..]) && e["empty"] == json!(to == xs.len());
                }
                if !ok {
                    mm.add("intunpacker", ev, run.clone());
                } else if usample < 1 && xs.len() >= 2 && steps.len() >= 4 {
                    usample += 1;
                    sample.push(json!({"intunpacker": ev}));
                }
            }
        }
        _ => {}
    });
    println!(
        "SUMMARY {}",
        json!({"ints": ints, "decs": decs, "sessions": sessions, "ops": ops + helpers, "helpers": helpers, "nontrivial": nontrivial, "mismatch_cases": mm.cases,
               "mismatch_samples": mm.samples, "samples": sample})
    );
}

// ---------------------------------------------------------------- direction B

fn rnd_int(rng: &mut StdRng) -> i32 {
    match rng.gen_range(0..10) {
        0 => {
            let k = rng.gen_range(0..32);
            let p = 1i64 << k;
            let v = [p, p - 1, p + 1, -p, -p - 1, -p + 1][rng.gen_range(0..6)];
            v.clamp(i32::MIN as i64, i32::MAX as i64) as i32
        }
        1 => [0, 1, -1, i32::MIN, i32::MAX, i32::MIN + 1, i32::MAX - 1, 63, 64, -64, -65][rng.gen_range(0..11)],
        2 => rng.gen(),
        _ => {
            // uniformly distributed bit width
            let k = rng.gen_range(0..32);
            let m = if k == 0 { 0 } else { rng.gen::<u32>() >> (32 - k) } as i64;
            let v = if rng.gen() { m } else { -m - 1 };
            v.clamp(i32::MIN as i64, i32::MAX as i64) as i32
        }
    }
}

fn encode_ref(x: i32) -> Vec<u8> {
    // only used to *generate* interesting decoder inputs (mutated afterwards); not an oracle
    let r = do_int(x);
    bytes_of(&r["enc"])
}

fn rnd_bytes_for_decoder(rng: &mut StdRng) -> Vec<u8> {
    match rng.gen_range(0..6) {
        0 => {
            let n = rng.gen_range(0..8);
            (0..n).map(|_| rng.gen()).collect()
        }
        1 => {
            // all-extend prefixes, then anything
            let n = rng.gen_range(0..7);
            (0..n).map(|i| if i < 4 { rng.gen::<u8>() | 0x80 } else { rng.gen() }).collect()
        }
        _ => {
            let mut e = encode_ref(rnd_int(rng));
            match rng.gen_range(0..6) {
                0 => {
                    // overlong: set the extend bit of the last byte and append zero bytes
                    let k = rng.gen_range(1..3);
                    for _ in 0..k {
                        if e.len() < 5 {
                            let l = e.len();
                            e[l - 1] |= 0x80;
                            e.push(if rng.gen() { 0 } else { 0x80 });
                        }
                    }
                    let n = e.len();
                    if n < 5 {
                        e[n - 1] &= 0x7f;
                    }
                }
                1 => {
                    // padding bits of byte five
                    while e.len() < 5 {
                        let l = e.len();
                        e[l - 1] |= 0x80;
                        e.push(rng.gen::<u8>() & 0x7f);
                    }
                    e[4] = (e[4] & 0x0f) | (rng.gen::<u8>() & 0xf0);
                }
                2 => {
                    let l = rng.gen_range(0..=e.len());
                    e.truncate(l);
                }
                3 => {
                    let i = rng.gen_range(0..e.len());
                    e[i] ^= 1 << rng.gen_range(0..8);
                }
                _ => {}
            }
            let extra = rng.gen_range(0..3);
            for _ in 0..extra {
                e.push(rng.gen());
            }
            e
        }
    }
}

fn rnd_session(rng: &mut StdRng) -> Value {
    let nw = rng.gen_range(0..8);
    let mut writes = Vec::new();
    let mut total = 0usize;
    for _ in 0..nw {
        let w = match rng.gen_range(0..11) % 6 {
            5 => {
                let b: Vec<u8> = (0..16).map(|_| if rng.gen_range(0..4) == 0 { [0u8, 0xff, 0x80][rng.gen_range(0..3)] } else { rng.gen() }).collect();
                total += 16;
                json!({"k": "uuid", "x": 0, "b": jbytes(&b)})
            }
            0 | 1 => {
                let x = rnd_int(rng);
                total += 3;
                json!({"k": "int", "x": x, "b": []})
            }
            2 => {
                let n = rng.gen_range(0..10);
                // mostly printable, sometimes with control characters (sanitize refuses those)
                let ctl = rng.gen_range(0..3) == 0;
                let b: Vec<u8> = (0..n).map(|_| if ctl { rng.gen_range(1..=255) } else { rng.gen_range(32..=255) }).collect();
                total += n + 1;
                json!({"k": "str", "x": 0, "b": jbytes(&b)})
            }
            3 => {
                let n = if rng.gen_range(0..6) == 0 { rng.gen_range(60..200) } else { rng.gen_range(0..12) };
                let b: Vec<u8> = (0..n).map(|_| rng.gen()).collect();
                total += n + 1;
                json!({"k": "data", "x": 0, "b": jbytes(&b)})
            }
            _ => {
                let n = rng.gen_range(0..6);
                let b: Vec<u8> = (0..n).map(|_| rng.gen()).collect();
                total += n;
                json!({"k": "raw", "x": 0, "b": jbytes(&b)})
            }
        };
        writes.push(w);
    }
    let cap = match rng.gen_range(0..4) {
        0 => rng.gen_range(0..=total + 2),
        _ => total + 8,
    };
    let demo = rng.gen_range(0..3) == 0;
    // a caller that carries on: small items behind the others (they may still fit after a refusal)
    if rng.gen_range(0..3) == 0 {
        for _ in 0..rng.gen_range(1..4) {
            writes.push(match rng.gen_range(0..4) {
                0 => json!({"k": "int", "x": rng.gen_range(-64..64), "b": []}),
                1 => json!({"k": "raw", "x": 0, "b": [rng.gen::<u8>()]}),
                2 => json!({"k": "str", "x": 0, "b": []}),
                _ => json!({"k": "data", "x": 0, "b": []}),
            });
        }
    }
    // reads: usually exactly what was accepted ("mirror", resolved after the write phase); otherwise one
    // read per write, some of a different kind; plus extras and a finish
    let mirror = rng.gen_range(0..4) != 0;
    let mut reads = Vec::new();
    if !mirror {
        for w in &writes {
            let k = w["k"].as_str().unwrap();
            if rng.gen_range(0..12) == 0 {
                let o = ["int", "str", "data", "raw", "rest", "strsan", "uuid"][rng.gen_range(0..7)];
                reads.push(json!({"o": o, "n": rng.gen_range(0..4)}));
            } else if k == "str" && rng.gen() {
                reads.push(json!({"o": "strsan", "n": 0}));
            } else if k == "raw" {
                reads.push(json!({"o": "raw", "n": w["b"].as_array().unwrap().len()}));
            } else {
                reads.push(json!({"o": k, "n": 0}));
            }
        }
    }
    for _ in 0..rng.gen_range(0..3) {
        let o = ["int", "str", "data", "raw", "rest", "finish", "strsan", "uuid"][rng.gen_range(0..8)];
        reads.push(json!({"o": o, "n": rng.gen_range(0..5)}));
    }
    reads.push(json!({"o": "finish", "n": 0}));
    if rng.gen_range(0..4) == 0 {
        let o = ["int", "str", "data", "rest", "finish", "strsan", "uuid"][rng.gen_range(0..7)];
        reads.push(json!({"o": o, "n": 0}));
    }
    let (bk, len0) = [("slice", 0), ("slice", 0), ("vec", 0), ("vec", 5), ("arrayvec", 0)][rng.gen_range(0..5)];
    let mut s = json!({"cap": cap, "bk": bk, "len0": len0, "writes": writes, "demo": demo, "reads": reads, "mirror": mirror});
    match rng.gen_range(0..8) {
        0 => {
            // arbitrary input for the unpacker
            let n = rng.gen_range(0..24);
            let mut d: Vec<u8> = (0..n).map(|_| if rng.gen_range(0..3) == 0 { [0u8, 0x80, 0xff, 0x40][rng.gen_range(0..4)] } else { rng.gen() }).collect();
            // (one demo input in eight keeps a length new_from_demo does not permit: the refusal is recorded)
            if demo && rng.gen_range(0..3) != 0 {
                while d.len() % 4 != 0 {
                    d.push(0);
                }
            }
            s["data"] = jbytes(&d);
        }
        _ => {
            // pad is fixed up below once the written length is known (demo: padding rule, sometimes 4 more)
            s["pad"] = json!(rng.gen_range(0..2) * if rng.gen_range(0..4) == 0 { 1 } else { 0 });
        }
    }
    s
}

fn rnd_string(rng: &mut StdRng, n: usize, nul_free: bool) -> Vec<u8> {
    (0..n)
        .map(|_| match rng.gen_range(0..8) {
            0 => [1u8, 31, 32, 127, 128, 255, 9, 10][rng.gen_range(0..8)],
            1 if !nul_free => 0,
            _ => {
                let lo = if rng.gen_range(0..6) == 0 { 1 } else { 32 };
                rng.gen_range(lo..=255)
            }
        })
        .collect()
}

fn rnd_helper(rng: &mut StdRng) -> Value {
    match rng.gen_range(0..8) {
        0 => {
            let v = rnd_int(rng);
            let near = |rng: &mut StdRng| (v as i64 + rng.gen_range(-2..=2)).clamp(i32::MIN as i64, i32::MAX as i64) as i32;
            let lo = if rng.gen() { rnd_int(rng) } else { near(rng) };
            let hi = if rng.gen() { rnd_int(rng) } else { near(rng) };
            json!({"f": "in_range", "a": [v, lo, hi], "b": [], "n": 0})
        }
        1 => {
            let v = rnd_int(rng);
            let lo = if rng.gen() { rnd_int(rng) } else { (v as i64 + rng.gen_range(-1..=1)).clamp(i32::MIN as i64, i32::MAX as i64) as i32 };
            json!({"f": "at_least", "a": [v, lo], "b": [], "n": 0})
        }
        2 => {
            let v = if rng.gen() { rng.gen_range(-3..4) } else { rnd_int(rng) };
            json!({"f": if rng.gen() { "positive" } else { "to_bool" }, "a": [v], "b": [], "n": 0})
        }
        3 => {
            let n = rng.gen_range(0..40);
            let nf = rng.gen();
            json!({"f": "sanitize", "a": [], "b": jbytes(&rnd_string(rng, n, nf)), "n": 0})
        }
        4 => {
            // a fixed-size field: a string, zero padding, sometimes garbage behind the NUL or no NUL at all
            let field = [4usize, 8, 12, 16, 24, 32, 64][rng.gen_range(0..7)];
            let n = rng.gen_range(0..=field);
            let mut b = rnd_string(rng, n, true);
            b.resize(field, 0);
            match rng.gen_range(0..6) {
                0 => {
                    let i = rng.gen_range(0..field);
                    b[i] = rng.gen();
                }
                1 => b.truncate(rng.gen_range(0..=field)),
                _ => {}
            }
            json!({"f": "bytes_to_string", "a": [], "b": jbytes(&b), "n": 0})
        }
        5 | 6 => {
            let n = [1usize, 2, 3, 3, 4, 4, 6, 6, 8, 16][rng.gen_range(0..10)];
            let len = match rng.gen_range(0..6) {
                0 => 4 * n - 1,
                1 => 4 * n,
                2 => 4 * n + rng.gen_range(0..3),
                _ => rng.gen_range(0..4 * n),
            };
            let nf = rng.gen_range(0..10) != 0;
            json!({"f": "string_to_ints", "a": [], "b": jbytes(&rnd_string(rng, len, nf)), "n": n})
        }
        _ => {
            let len = rng.gen_range(0..24);
            let cap = (len as i64 + 1 + rng.gen_range(-2..=2)).max(0);
            let nf = rng.gen_range(0..10) != 0;
            json!({"f": "string_to_bytes", "a": [], "b": jbytes(&rnd_string(rng, len, nf)), "n": cap})
        }
    }
}

fn rnd_iu(rng: &mut StdRng) -> (Vec<i32>, Vec<String>) {
    let n = if rng.gen_range(0..4) == 0 { rng.gen_range(0..3) } else { rng.gen_range(0..40) };
    let xs: Vec<i32> = (0..n).map(|_| rnd_int(rng)).collect();
    // read some, all, or more than there is; finish somewhere; carry on behind it
    let reads = match rng.gen_range(0..3) {
        0 => n,
        1 => rng.gen_range(0..=n),
        _ => n + rng.gen_range(1..4),
    };
    let mut ops: Vec<String> = (0..reads).map(|_| "int".to_string()).collect();
    if rng.gen_range(0..3) != 0 {
        ops.push("finish".into());
    }
    for _ in 0..rng.gen_range(0..3) {
        ops.push(if rng.gen() { "int" } else { "finish" }.to_string());
    }
    (xs, ops)
}

fn drive(seed: u64, n_ints: usize, n_decs: usize, n_sessions: usize, path: &str) {
    let mut rng = StdRng::seed_from_u64(seed);
    let mut out = std::io::BufWriter::new(std::fs::File::create(path).expect("create"));
    let mut events = 0u64;
    for chunk in 0..(n_ints + 499) / 500 {
        let n = 500.min(n_ints - chunk * 500);
        let items: Vec<Value> = (0..n).map(|_| do_int(rnd_int(&mut rng))).collect();
        writeln!(out, "{}", json!({"e": "ints", "items": items})).unwrap();
        events += 1;
    }
    for chunk in 0..(n_decs + 499) / 500 {
        let n = 500.min(n_decs - chunk * 500);
        let items: Vec<Value> = (0..n).map(|_| do_dec(&rnd_bytes_for_decoder(&mut rng))).collect();
        writeln!(out, "{}", json!({"e": "decs", "items": items})).unwrap();
        events += 1;
    }
    for _ in 0..n_sessions {
        let mut s = rnd_session(&mut rng);
        if s["data"].is_null() && s["demo"] == true {
            // the written length is only known after the write phase: run it once to learn it
            let probe = do_session(&json!({"cap": s["cap"], "writes": s["writes"], "reads": null}));
            let wl = probe.last().map(|e| e["written"].as_array().map(|a| a.len()).unwrap_or(0)).unwrap_or(0);
            let min = (4 - wl % 4) % 4;
            s["pad"] = json!(if rng.gen_range(0..5) == 0 { min + 4 } else { min });
        }
        if rng.gen_range(0..2) == 0 && s["cap"].as_i64().unwrap_or(-1) >= 0 {
            // exact fit: learn the real length after each write (generous buffer), then leave item j
            // exactly its length, one byte less or one byte more of room
            let probe = do_session(&json!({"cap": 4096, "writes": s["writes"], "reads": null}));
            let afters: Vec<i64> = probe.iter().filter(|e| e["e"] == "w").map(|e| e["after"].as_i64().unwrap_or(0)).collect();
            if !afters.is_empty() {
                let j = rng.gen_range(0..afters.len());
                s["cap"] = json!((afters[j] + rng.gen_range(-1..=1)).max(0));
            }
        }
        for e in do_session(&s) {
            writeln!(out, "{}", e).unwrap();
            events += 1;
        }
    }
    // helper functions and IntUnpacker sessions (extension round)
    let n_helpers = n_ints / 2;
    for chunk in 0..(n_helpers + 499) / 500 {
        let n = 500.min(n_helpers - chunk * 500);
        let items: Vec<Value> = (0..n).map(|_| do_helper(&rnd_helper(&mut rng))).collect();
        writeln!(out, "{}", json!({"e": "helpers", "items": items})).unwrap();
        events += 1;
    }
    let n_iu = n_sessions / 2;
    for _ in 0..n_iu {
        let (xs, ops) = rnd_iu(&mut rng);
        for e in do_iu(&xs, &ops) {
            writeln!(out, "{}", e).unwrap();
            events += 1;
        }
    }
    out.flush().unwrap();
    println!("SUMMARY {}", json!({"events": events, "ints": n_ints, "decs": n_decs, "sessions": n_sessions, "helpers": n_helpers, "iu_sessions": n_iu}));
}

/// Re-executes the inputs found in recorded events (recorded outputs are ignored).
fn rerun(inp: &str, outp: &str) {
    let text = std::fs::read_to_string(inp).expect("read");
    let mut out = std::fs::File::create(outp).expect("create");
    let mut cur: Option<Value> = None;
    let flush = |cur: &mut Option<Value>, out: &mut std::fs::File| {
        if let Some(s) = cur.take() {
            let ev = if s["iu"].is_array() {
                let xs: Vec<i32> = s["iu"].as_array().unwrap().iter().map(|x| x.as_i64().unwrap_or(0) as i32).collect();
                let ops: Vec<String> = s["ops"].as_array().unwrap().iter().map(|x| x.as_str().unwrap_or("int").to_string()).collect();
                do_iu(&xs, &ops)
            } else {
                do_session(&s)
            };
            for e in ev {
                writeln!(out, "{}", e).unwrap();
            }
        }
    };
    for line in text.lines().filter(|l| !l.trim().is_empty()) {
        let e: Value = serde_json::from_str(line).expect("json");
        match e["e"].as_str().unwrap_or("") {
            "ints" => {
                flush(&mut cur, &mut out);
                let items: Vec<Value> = e["items"].as_array().unwrap().iter().map(|i| do_int(i["x"].as_i64().unwrap() as i32)).collect();
                writeln!(out, "{}", json!({"e": "ints", "items": items})).unwrap();
            }
            "decs" => {
                flush(&mut cur, &mut out);
                let items: Vec<Value> = e["items"].as_array().unwrap().iter().map(|i| do_dec(&bytes_of(&i["b"]))).collect();
                writeln!(out, "{}", json!({"e": "decs", "items": items})).unwrap();
            }
            "helpers" => {
                flush(&mut cur, &mut out);
                let items: Vec<Value> = e["items"].as_array().unwrap().iter().map(do_helper).collect();
                writeln!(out, "{}", json!({"e": "helpers", "items": items})).unwrap();
            }
            "iu_new" => {
                flush(&mut cur, &mut out);
                cur = Some(json!({"iu": e["xs"], "ops": []}));
            }
            "ir" => {
                if let Some(s) = cur.as_mut() {
                    if s["ops"].is_array() {
                        s["ops"].as_array_mut().unwrap().push(e["o"].clone());
                    }
                }
            }
            "pk_new" => {
                flush(&mut cur, &mut out);
                let len0 = e["pre"].as_array().map(|a| a.len()).unwrap_or(0);
                cur = Some(json!({"cap": e["cap"], "bk": e["bk"], "len0": len0, "writes": [], "reads": null}));
            }
            "w" => {
                if let Some(s) = cur.as_mut() {
                    s["writes"].as_array_mut().unwrap().push(json!({"k": e["k"], "x": e["x"], "b": e["b"]}));
                }
            }
            "up_new" => {
                if e["src"] == "raw" || cur.is_none() {
                    flush(&mut cur, &mut out);
                    cur = Some(json!({"cap": -1, "writes": [], "demo": e["demo"], "data": e["data"], "reads": []}));
                } else if let Some(s) = cur.as_mut() {
                    s["demo"] = e["demo"].clone();
                    s["pad"] = e["pad"].clone();
                    s["reads"] = json!([]);
                }
            }
            "r" => {
                if let Some(s) = cur.as_mut() {
                    if s["reads"].is_array() {
                        s["reads"].as_array_mut().unwrap().push(json!({"o": e["o"], "n": e["n"]}));
                    }
                }
            }
            _ => {}
        }
    }
    flush(&mut cur, &mut out);
}

// ---------------------------------------------------------------- sweep of the integers

/// One class of the encoding as exported by the specification (IntClasses.tla): integers of sign `neg`
/// whose magnitude lies in mlo..=mhi are written as `groups.len()` bytes, byte k being
/// ((m / div) % modulus) + add.
struct Class {
    neg: bool,
    mlo: u32,
    mhi: u32,
    groups: Vec<(u32, u32, u32)>,
}

struct CountWarn(u32);
impl libtw2_warn::Warn<Warning> for CountWarn {
    fn warn(&mut self, _: Warning) {
        self.0 += 1;
    }
}

const SW_PRE: usize = 4;

/// write_int(x) into a window of `cap` bytes inside a canary-filled array; (accepted, bytes, len, canary intact)
#[inline(always)]
fn sweep_write(x: i32, cap: usize) -> (bool, [u8; 5], usize, bool) {
    let mut mem = [0xC3u8; SW_PRE + 5 + 4];
    let (ok, n) = with_packer(&mut mem[SW_PRE..SW_PRE + cap], |mut p| {
        let r = p.write_int(x);
        (r.is_ok(), p.written().len())
    });
    let mut out = [0u8; 5];
    out[..n.min(5)].copy_from_slice(&mem[SW_PRE..SW_PRE + n.min(5)]);
    let intact = mem[..SW_PRE].iter().all(|&b| b == 0xC3) && mem[SW_PRE + cap..].iter().all(|&b| b == 0xC3);
    (ok, out, n, intact)
}

/// Everything `do_int` observes, without allocation; true = exactly what the class table prescribes.
#[inline(always)]
fn sweep_one(x: i32, classes: &[Class], counts: &mut [u64]) -> bool {
    let neg = x < 0;
    let m = if neg { !(x as u32) } else { x as u32 };
    let ci = match classes.iter().position(|c| c.neg == neg && c.mlo <= m && m <= c.mhi) {
        Some(i) => i,
        None => return false,
    };
    counts[ci] += 1;
    let c = &classes[ci];
    let n = c.groups.len();
    let mut want = [0u8; 5];
    for (k, &(div, modulus, add)) in c.groups.iter().enumerate() {
        want[k] = ((m / div) % modulus + add) as u8;
    }
    let (ok, got, len, intact) = sweep_write(x, 5);
    if !(ok && intact && len == n && got[..n] == want[..n]) {
        return false;
    }
    let mut w = CountWarn(0);
    let mut u = Unpacker::new(&got[..n]);
    match u.read_int(&mut w) {
        Ok(v) if v == x && w.0 == 0 && u.num_bytes_read() == n && u.is_empty() => {}
        _ => return false,
    }
    // exactly as much room as the encoding needs; one byte less
    let (xok, xgot, xlen, xint) = sweep_write(x, n);
    let (sok, _, _, sint) = sweep_write(x, n - 1);
    xok && xint && xlen == n && xgot[..n] == want[..n] && !sok && sint
}

fn sweep(stride: u64, offset: u64, dense: u64, threads: usize, path: &str) {
    // the sweep starts as soon as the table has arrived; TLC goes on checking its sample of every class
    let (tx, rx) = std::sync::mpsc::channel::<Vec<Class>>();
    let path = path.to_string();
    let worker = std::thread::spawn(move || match rx.recv() {
        Ok(classes) => sweep_run(classes, stride, offset, dense, threads, &path),
        Err(_) => None,
    });
    let mut tx = Some(tx);
    for_each_export(|tag, v| {
        if tag == 'C' {
            let mut classes: Vec<Class> = vec![];
            for c in v.as_array().unwrap() {
                classes.push(Class {
                    neg: c[0] == json!(1),
                    mlo: c[2].as_u64().unwrap() as u32,
                    mhi: c[3].as_u64().unwrap() as u32,
                    groups: c[4].as_array().unwrap().iter().map(|g| (g[0].as_u64().unwrap() as u32, g[1].as_u64().unwrap() as u32, g[2].as_u64().unwrap() as u32)).collect(),
                });
            }
            if let Some(tx) = tx.take() {
                let _ = tx.send(classes);
            }
        }
    });
    drop(tx);
    match worker.join().expect("sweep") {
        Some(summary) => println!("SUMMARY {}", summary),
        None => {
            println!("HARNESS-ERROR no class table on stdin");
            std::process::exit(3);
        }
    }
}

fn sweep_run(classes: Vec<Class>, stride: u64, offset: u64, dense: u64, threads: usize, path: &str) -> Option<Value> {
    if classes.len() != 10 {
        return None;
    }
    let classes = std::sync::Arc::new(classes);
    let t0 = std::time::Instant::now();
    const BLOCK: u64 = 1 << 16;
    let mut counts = vec![0u64; classes.len()];
    let mut bad: Vec<i32> = vec![];
    let mut nbad = 0u64;
    // segment 1: the integers offset + k * stride of the 2^32 bit patterns; segment 2 (dense > 0): every
    // integer of magnitude below `dense` (the short classes hold few integers: a stride would skip them)
    let total: u64 = ((1u64 << 32) - offset + stride - 1) / stride;
    let segments: Vec<(u64, u64, u64)> = vec![(offset, stride, total), ((1u64 << 32) - dense, 1, 2 * dense)];
    for (start, step, count) in segments {
        let next = std::sync::Arc::new(std::sync::atomic::AtomicU64::new(0));
        let mut handles = vec![];
        for _ in 0..threads.max(1) {
            let classes = classes.clone();
            let next = next.clone();
            handles.push(std::thread::spawn(move || {
                let mut counts = vec![0u64; classes.len()];
                let mut bad: Vec<i32> = vec![];
                let mut nbad = 0u64;
                loop {
                    let b = next.fetch_add(1, std::sync::atomic::Ordering::Relaxed);
                    let lo = b * BLOCK;
                    if lo >= count {
                        break;
                    }
                    let hi = (lo + BLOCK).min(count);
                    for k in lo..hi {
                        let x = (start + k * step) as u32 as i32;
                        let ok = catch(|| sweep_one(x, &classes, &mut counts)).unwrap_or(false);
                        if !ok {
                            nbad += 1;
                            if bad.len() < 64 {
                                bad.push(x);
                            }
                        }
                    }
                }
                (counts, bad, nbad)
            }));
        }
        for h in handles {
            let (c, b, n) = h.join().expect("sweep thread");
            for (i, x) in c.iter().enumerate() {
                counts[i] += x;
            }
            bad.extend(b);
            nbad += n;
        }
    }
    // the boundaries of every class (both neighbours), always
    let mut edges = 0u64;
    {
        let mut c2 = vec![0u64; classes.len()];
        for c in classes.iter() {
            for m in [c.mlo, c.mlo.wrapping_add(1), c.mhi, c.mhi.wrapping_sub(1)] {
                let x = if c.neg { !m as i32 } else { m as i32 };
                edges += 1;
                if !catch(|| sweep_one(x, &classes, &mut c2)).unwrap_or(false) {
                    nbad += 1;
                    bad.push(x);
                }
            }
        }
    }
    // every integer that was not reproduced is recorded in full and judged by the trace specification
    bad.sort();
    bad.dedup();
    let mut out = std::fs::File::create(path).expect("create");
    let mut samples = vec![];
    if !bad.is_empty() {
        let items: Vec<Value> = bad.iter().take(200).map(|&x| do_int(x)).collect();
        samples = items.iter().take(3).cloned().collect();
        writeln!(out, "{}", json!({"e": "ints", "items": items})).unwrap();
    }
    let per_class: Vec<Value> = classes.iter().zip(&counts).map(|(c, n)| json!({"neg": c.neg, "bytes": c.groups.len(), "mlo": c.mlo, "mhi": c.mhi, "swept": n})).collect();
    Some(
        json!({"ints": total + 2 * dense + edges, "dense": dense, "decs": 0, "sessions": 0, "ops": 0, "nontrivial": counts.iter().zip(classes.iter()).filter(|(_, c)| c.groups.len() >= 2).map(|(n, _)| *n).sum::<u64>(),
               "mismatch_cases": nbad, "mismatch_samples": samples, "samples": [], "stride": stride, "offset": offset, "threads": threads,
               "per_class": per_class, "wall_s": t0.elapsed().as_secs_f64()}),
    )
}

fn main() {
    vh_common::quiet_panics();
    vh_common::start_watchdog();
    let a: Vec<String> = std::env::args().collect();
    if let Err(msg) = catch(|| run(&a)) {
        // a panic of the harness itself (not of the code under test, which is always caught)
        println!("HARNESS-ERROR {} at {}", msg, vh_common::last_panic_location());
        std::process::exit(3);
    }
}

fn run(a: &[String]) {
    match a.get(1).map(|s| s.as_str()) {
        Some("replay") => replay(&a[2]),
        Some("drive") => drive(a[2].parse().unwrap(), a[3].parse().unwrap(), a[4].parse().unwrap(), a[5].parse().unwrap(), &a[6]),
        Some("rerun") => rerun(&a[2], &a[3]),
        Some("sweep") => sweep(a[2].parse().unwrap(), a[3].parse().unwrap(), a[4].parse().unwrap(), a[5].parse().unwrap(), &a[6]),
        _ => {
            eprintln!("usage: vh-varint replay <mismatches> | drive <seed> <ints> <decs> <sessions> <trace> | rerun <in> <out>");
            std::process::exit(2);
        }
    }
}
