//! Harness for C08 (variable-length integers and packed fields, `libtw2-packer`).
//!
//!   vh-varint replay <mismatch-trace>      direction A: TLC's test vectors on stdin
//!   vh-varint drive <seed> <ints> <decs> <sessions> <trace>   direction B: seeded driver
//!   vh-varint rerun <events-in> <events-out>   re-execute the inputs of recorded events
//!
//! The harness never judges: it executes the real code, records what it did as NDJSON
//! events and (in `replay`) tells which TLC-predicted results were not reproduced; those
//! cases are written as events and judged by spec/varint/VarIntTrace.tla.
use libtw2_buffer::with_buffer;
use libtw2_packer::with_packer;
use libtw2_packer::Unpacker;
use libtw2_packer::Warning;
use serde_json::{json, Value};
use std::io::Write;
use vh_codec::*;
use vh_common::rand::rngs::StdRng;
use vh_common::rand::{Rng, SeedableRng};
use vh_common::{catch, guarded};

fn warn_names(w: &[Warning]) -> Value {
    Value::Array(
        w.iter()
            .map(|x| {
                json!(match x {
                    Warning::OverlongIntEncoding => "OverlongIntEncoding",
                    Warning::NonZeroIntPadding => "NonZeroIntPadding",
                    Warning::ExcessData => "ExcessData",
                })
            })
            .collect(),
    )
}

/// write_int(x) into a guarded buffer of `cap` bytes: ("ok" | "cap" | "panic", bytes written, canary intact)
fn write_int_into(x: i32, cap: usize) -> (&'static str, Vec<u8>, bool) {
    let mut g = Guarded::new(cap);
    let w = guarded(5000, || {
        with_packer(g.slice(), |mut p| {
            let r = p.write_int(x);
            (r.is_ok(), p.written().to_vec())
        })
    });
    let (res, enc) = match w {
        Ok((true, e)) => ("ok", e),
        Ok((false, e)) => ("cap", e),
        Err(_) => ("panic", vec![]),
    };
    (res, enc, g.intact())
}

/// write_int(x) into a guarded 5-byte buffer, then read_int on what was written; then the same
/// write into a buffer with exactly as much room as the encoding took, and into one byte less.
fn do_int(x: i32) -> Value {
    let (wres, enc, canary) = write_int_into(x, 5);
    let mut o = json!({"x": x, "wres": wres, "enc": jbytes(&enc), "canary": canary});
    let r = do_dec(&enc);
    o["rres"] = r["res"].clone();
    o["rv"] = r["v"].clone();
    o["rused"] = r["used"].clone();
    o["rw"] = r["w"].clone();
    let (xres, xenc, xc) = write_int_into(x, enc.len());
    let (sres, _, sc) = write_int_into(x, enc.len().saturating_sub(1));
    o["xres"] = json!(xres);
    o["xenc"] = jbytes(&xenc);
    o["sres"] = json!(sres);
    if !(xc && sc) {
        o["canary"] = json!(false);
    }
    o
}

/// read_int on arbitrary bytes: (Some(value) | None, bytes consumed, warnings), Err = panic.
fn raw_dec(b: &[u8]) -> Result<(Option<i32>, usize, Vec<Warning>), String> {
    guarded(5000, || {
        let mut warns: Vec<Warning> = vec![];
        let mut u = Unpacker::new(b);
        let r = u.read_int(&mut warns);
        (r.ok(), u.num_bytes_read(), warns)
    })
}

fn dec_json(b: &[u8], r: &Result<(Option<i32>, usize, Vec<Warning>), String>) -> Value {
    match r {
        Ok((Some(v), used, w)) => json!({"b": jbytes(b), "res": "ok", "v": v, "used": used, "w": warn_names(w)}),
        Ok((None, used, w)) => json!({"b": jbytes(b), "res": "end", "v": 0, "used": used, "w": warn_names(w)}),
        Err(_) => json!({"b": jbytes(b), "res": "panic", "v": 0, "used": 0, "w": []}),
    }
}

fn do_dec(b: &[u8]) -> Value {
    dec_json(b, &raw_dec(b))
}

/// A session: writes into a packer of capacity `cap` (skipped if cap < 0), then reads from an
/// unpacker over `data` (explicit) or over what was written plus `pad` zero bytes.
/// input: {"cap", "writes":[{"k","x","b"}], "demo", "data": [..] | null, "pad", "reads":[{"o","n"}]}
fn do_session(s: &Value) -> Vec<Value> {
    let mut ev = Vec::new();
    let cap = s["cap"].as_i64().unwrap_or(-1);
    let mut written: Vec<u8> = vec![];
    let mut accepted: Vec<Value> = vec![];
    if cap >= 0 {
        let cap = cap as usize;
        ev.push(json!({"e": "pk_new", "cap": cap}));
        let mut g = Guarded::new(cap);
        let writes = s["writes"].as_array().cloned().unwrap_or_default();
        let mut wev = Vec::new();
        let res = catch(|| {
            with_packer(g.slice(), |mut p| {
                for w in &writes {
                    let k = w["k"].as_str().unwrap_or("");
                    let x = w["x"].as_i64().unwrap_or(0) as i32;
                    let b = bytes_of(&w["b"]);
                    let r = guarded(5000, || match k {
                        "int" => p.write_int(x),
                        "str" => p.write_string(&b),
                        "data" => p.write_data(&b),
                        "raw" => p.write_raw(&b),
                        _ => p.write_rest(&b),
                    });
                    let res = match r {
                        Ok(Ok(())) => "ok",
                        Ok(Err(_)) => "cap",
                        Err(_) => "panic",
                    };
                    let rem = catch(|| with_buffer(&mut p, |b| b.remaining())).unwrap_or(usize::MAX);
                    let after = if rem == usize::MAX { -1 } else { cap as i64 - rem as i64 };
                    wev.push(json!({"e": "w", "k": k, "x": x, "b": jbytes(&b), "res": res, "after": after}));
                }
                p.written().to_vec()
            })
        });
        for e in &wev {
            if e["res"] == "ok" {
                let n = e["b"].as_array().map(|a| a.len()).unwrap_or(0);
                accepted.push(if e["k"] == "raw" { json!({"o": "raw", "n": n}) } else { json!({"o": e["k"], "n": 0}) });
            }
        }
        ev.append(&mut wev);
        match res {
            Ok(w) => {
                written = w;
                ev.push(json!({"e": "pk_end", "res": "ok", "written": jbytes(&written), "canary": g.intact()}));
            }
            Err(_) => ev.push(json!({"e": "pk_end", "res": "panic", "written": [], "canary": g.intact()})),
        }
    }
    if s["reads"].is_null() {
        return ev;
    }
    let demo = s["demo"].as_bool().unwrap_or(false);
    let pad = s["pad"].as_u64().unwrap_or(0) as usize;
    let (data, src) = if s["data"].is_array() {
        (bytes_of(&s["data"]), "raw")
    } else {
        let mut d = written.clone();
        d.extend(std::iter::repeat(0).take(pad));
        (d, "packer")
    };
    if demo && data.len() % 4 != 0 {
        // new_from_demo asserts the padding: a call the state does not permit
        return ev;
    }
    ev.push(json!({"e": "up_new", "demo": demo, "data": jbytes(&data), "src": src, "pad": pad}));
    let mut u = if demo { Unpacker::new_from_demo(&data) } else { Unpacker::new(&data) };
    let base = data.as_ptr() as usize;
    // "mirror": read back what was ACCEPTED (the caller carried on after refused writes), then the
    // reads given explicitly
    let mut reads: Vec<Value> = if s["mirror"] == true { accepted } else { vec![] };
    reads.extend(s["reads"].as_array().cloned().unwrap_or_default());
    for r in reads {
        let o = r["o"].as_str().unwrap_or("").to_string();
        let n = r["n"].as_u64().unwrap_or(0) as usize;
        let mut warns: Vec<Warning> = vec![];
        let mut ex: Vec<libtw2_packer::ExcessData> = vec![];
        let res = guarded(5000, || match o.as_str() {
            "int" => u.read_int(&mut warns).map(|v| (v, None)).ok(),
            "str" => u.read_string().map(|b| (0, Some(b))).ok(),
            "data" => u.read_data(&mut warns).map(|b| (0, Some(b))).ok(),
            "raw" => u.read_raw(n).map(|b| (0, Some(b))).ok(),
            "rest" => u.read_rest().map(|b| (0, Some(b))).ok(),
            _ => {
                u.finish(&mut ex);
                Some((0, None))
            }
        });
        let mut w = warn_names(&warns);
        if !ex.is_empty() {
            w = Value::Array(ex.iter().map(|_| json!("ExcessData")).collect());
        }
        let to = u.num_bytes_read();
        let rest = u.as_slice();
        let sfx = to <= data.len() && rest == &data[to..] && u.is_empty() == rest.is_empty();
        let mut e = json!({"e": "r", "o": o, "n": n, "w": w, "to": to, "rl": rest.len(), "sfx": sfx, "v": 0, "b": [], "off": -1});
        match res {
            Ok(Some((v, b))) => {
                e["res"] = json!("ok");
                e["v"] = json!(v);
                if let Some(b) = b {
                    e["b"] = jbytes(b);
                    let p = b.as_ptr() as usize;
                    // offset of the returned slice inside the input (-1: not a slice of the input)
                    e["off"] = if p >= base && p + b.len() <= base + data.len() { json!(p - base) } else { json!(-1) };
                }
            }
            Ok(None) => e["res"] = json!("end"),
            Err(_) => e["res"] = json!("panic"),
        }
        ev.push(e);
    }
    ev
}

// ---------------------------------------------------------------- direction A

struct Mismatches {
    out: std::fs::File,
    cases: usize,
    written: usize,
    samples: Vec<Value>,
}

impl Mismatches {
    fn add(&mut self, what: &str, events: Vec<Value>, expected: Value) {
        self.cases += 1;
        if self.samples.len() < 5 {
            self.samples.push(json!({"what": what, "expected": expected, "real": events.clone()}));
        }
        if self.written < 300 {
            self.written += 1;
            for e in events {
                let _ = writeln!(self.out, "{}", e);
            }
        }
    }
}

fn sorted_strs(v: &Value) -> Vec<String> {
    let mut s: Vec<String> = v.as_array().map(|a| a.iter().map(|x| x.as_str().unwrap_or("").to_string()).collect()).unwrap_or_default();
    s.sort();
    s
}

fn replay(path: &str) {
    let mut mm = Mismatches { out: std::fs::File::create(path).expect("create"), cases: 0, written: 0, samples: vec![] };
    let (mut ints, mut decs, mut sessions, mut ops, mut nontrivial) = (0u64, 0u64, 0u64, 0u64, 0u64);
    let mut sample: Vec<Value> = vec![];
    for_each_export(|tag, v| match tag {
        'I' => {
            for c in v.as_array().unwrap() {
                let x = c[0].as_i64().unwrap() as i32;
                let enc = bytes_of(&c[1]);
                let r = do_int(x);
                ints += 1;
                nontrivial += (enc.len() >= 2) as u64;
                let ok = r["wres"] == "ok"
                    && bytes_of(&r["enc"]) == enc
                    && r["canary"] == true
                    && r["rres"] == "ok"
                    && r["rv"] == json!(x)
                    && r["rused"] == json!(enc.len())
                    && r["rw"].as_array().map(|a| a.is_empty()).unwrap_or(false)
                    && r["xres"] == "ok"
                    && bytes_of(&r["xenc"]) == enc
                    && r["sres"] == "cap";
                if !ok {
                    mm.add("int", vec![json!({"e": "ints", "items": [r]})], c.clone());
                } else if sample.len() < 2 && (x as i64).abs() > 70000 {
                    sample.push(json!({"int": r}));
                }
            }
        }
        'B' => {
            vh_common::set_case(&format!("read_int batch starting at {}", v[0][0]));
            for c in v.as_array().unwrap() {
                let b = bytes_of(&c[0]);
                let used = c[1].as_u64().unwrap() as usize;
                let r = raw_dec(&b);
                decs += 1;
                nontrivial += (b.len() >= 2) as u64;
                let ok = match &r {
                    Ok((None, _, _)) => used == 0,
                    Ok((Some(val), u, w)) => {
                        used != 0 && *u == used && Some(*val as i64) == c[2].as_i64() && {
                            let mut code = 0;
                            for x in w {
                                code |= match x {
                                    Warning::OverlongIntEncoding => 1,
                                    Warning::NonZeroIntPadding => 2,
                                    _ => 4,
                                };
                            }
                            w.len() <= 1 && Some(code) == c[3].as_i64()
                        }
                    }
                    Err(_) => false,
                };
                if !ok {
                    mm.add("dec", vec![json!({"e": "decs", "items": [dec_json(&b, &r)]})], c.clone());
                } else if sample.len() < 4 && b.len() == 5 && used == 5 {
                    sample.push(json!({"dec": dec_json(&b, &r)}));
                }
            }
        }
        'P' => {
            // <<cap, writes[<<k, x, b, res, after>>], buf, demo, data, reads[<<o, n, res, v, b, w, to>>]>>
            let cap = v[0].as_i64().unwrap();
            let writes: Vec<Value> = v[1].as_array().unwrap().iter().map(|w| json!({"k": w[0], "x": w[1], "b": w[2]})).collect();
            let reads: Vec<Value> = v[5].as_array().unwrap().iter().map(|r| json!({"o": r[0], "n": r[1]})).collect();
            let buf = bytes_of(&v[2]);
            let data = bytes_of(&v[4]);
            let mut s = json!({"cap": cap, "writes": writes, "demo": v[3], "reads": reads});
            if cap < 0 {
                s["data"] = jbytes(&data);
            } else {
                s["pad"] = json!(data.len() - buf.len());
            }
            let ev = do_session(&s);
            sessions += 1;
            nontrivial += (v[1].as_array().unwrap().len() + v[5].as_array().unwrap().len() >= 2) as u64;
            let mut ok = true;
            let mut wi = 0;
            let mut ri = 0;
            for e in &ev {
                ops += 1;
                match e["e"].as_str().unwrap() {
                    "w" => {
                        let x = &v[1][wi];
                        ok &= e["res"] == x[3] && e["after"] == x[4];
                        wi += 1;
                    }
                    "pk_end" => ok &= e["res"] == "ok" && bytes_of(&e["written"]) == buf && e["canary"] == true,
                    "up_new" => ok &= bytes_of(&e["data"]) == data,
                    "r" => {
                        let x = &v[5][ri];
                        ok &= e["res"] == x[2] && e["v"] == x[3] && e["b"] == x[4] && sorted_strs(&e["w"]) == sorted_strs(&x[5])
                            && e["to"] == x[6] && e["sfx"] == true
                            && (e["off"] == json!(-1) || e["b"].as_array().map(|a| a.is_empty()).unwrap_or(true)
                                || e["off"].as_i64().unwrap() + e["b"].as_array().unwrap().len() as i64 <= x[6].as_i64().unwrap());
                        ri += 1;
                    }
                    _ => {}
                }
            }
            ok &= wi == v[1].as_array().unwrap().len() && ri == v[5].as_array().unwrap().len();
            if !ok {
                mm.add("session", ev, v.clone());
            } else if sample.len() < 6 && wi >= 2 && ri >= 3 {
                sample.push(json!({"session": ev}));
            }
        }
        _ => {}
    });
    println!(
        "SUMMARY {}",
        json!({"ints": ints, "decs": decs, "sessions": sessions, "ops": ops, "nontrivial": nontrivial, "mismatch_cases": mm.cases,
               "mismatch_samples": mm.samples, "samples": sample})
    );
}

// ---------------------------------------------------------------- direction B

fn rnd_int(rng: &mut StdRng) -> i32 {
    match rng.gen_range(0..10) {
        0 => {
            let k = rng.gen_range(0..32);
            let p = 1i64 << k;
            let v = [p, p - 1, p + 1, -p, -p - 1, -p + 1][rng.gen_range(0..6)];
            v.clamp(i32::MIN as i64, i32::MAX as i64) as i32
        }
        1 => [0, 1, -1, i32::MIN, i32::MAX, i32::MIN + 1, i32::MAX - 1, 63, 64, -64, -65][rng.gen_range(0..11)],
        2 => rng.gen(),
        _ => {
            // uniformly distributed bit width
            let k = rng.gen_range(0..32);
            let m = if k == 0 { 0 } else { rng.gen::<u32>() >> (32 - k) } as i64;
            let v = if rng.gen() { m } else { -m - 1 };
            v.clamp(i32::MIN as i64, i32::MAX as i64) as i32
        }
    }
}

fn encode_ref(x: i32) -> Vec<u8> {
    // only used to *generate* interesting decoder inputs (mutated afterwards); not an oracle
    let r = do_int(x);
    bytes_of(&r["enc"])
}

fn rnd_bytes_for_decoder(rng: &mut StdRng) -> Vec<u8> {
    match rng.gen_range(0..6) {
        0 => {
            let n = rng.gen_range(0..8);
            (0..n).map(|_| rng.gen()).collect()
        }
        1 => {
            // all-extend prefixes, then anything
            let n = rng.gen_range(0..7);
            (0..n).map(|i| if i < 4 { rng.gen::<u8>() | 0x80 } else { rng.gen() }).collect()
        }
        _ => {
            let mut e = encode_ref(rnd_int(rng));
            match rng.gen_range(0..6) {
                0 => {
                    // overlong: set the extend bit of the last byte and append zero bytes
                    let k = rng.gen_range(1..3);
                    for _ in 0..k {
                        if e.len() < 5 {
                            let l = e.len();
                            e[l - 1] |= 0x80;
                            e.push(if rng.gen() { 0 } else { 0x80 });
                        }
                    }
                    let n = e.len();
                    if n < 5 {
                        e[n - 1] &= 0x7f;
                    }
                }
                1 => {
                    // padding bits of byte five
                    while e.len() < 5 {
                        let l = e.len();
                        e[l - 1] |= 0x80;
                        e.push(rng.gen::<u8>() & 0x7f);
                    }
                    e[4] = (e[4] & 0x0f) | (rng.gen::<u8>() & 0xf0);
                }
                2 => {
                    let l = rng.gen_range(0..=e.len());
                    e.truncate(l);
                }
                3 => {
                    let i = rng.gen_range(0..e.len());
                    e[i] ^= 1 << rng.gen_range(0..8);
                }
                _ => {}
            }
            let extra = rng.gen_range(0..3);
            for _ in 0..extra {
                e.push(rng.gen());
            }
            e
        }
    }
}

fn rnd_session(rng: &mut StdRng) -> Value {
    let nw = rng.gen_range(0..8);
    let mut writes = Vec::new();
    let mut total = 0usize;
    for _ in 0..nw {
        let w = match rng.gen_range(0..5) {
            0 | 1 => {
                let x = rnd_int(rng);
                total += 3;
                json!({"k": "int", "x": x, "b": []})
            }
            2 => {
                let n = rng.gen_range(0..10);
                let b: Vec<u8> = (0..n).map(|_| rng.gen_range(1..=255)).collect();
                total += n + 1;
                json!({"k": "str", "x": 0, "b": jbytes(&b)})
            }
            3 => {
                let n = if rng.gen_range(0..6) == 0 { rng.gen_range(60..200) } else { rng.gen_range(0..12) };
                let b: Vec<u8> = (0..n).map(|_| rng.gen()).collect();
                total += n + 1;
                json!({"k": "data", "x": 0, "b": jbytes(&b)})
            }
            _ => {
                let n = rng.gen_range(0..6);
                let b: Vec<u8> = (0..n).map(|_| rng.gen()).collect();
                total += n;
                json!({"k": "raw", "x": 0, "b": jbytes(&b)})
            }
        };
        writes.push(w);
    }
    let cap = match rng.gen_range(0..4) {
        0 => rng.gen_range(0..=total + 2),
        _ => total + 8,
    };
    let demo = rng.gen_range(0..3) == 0;
    // a caller that carries on: small items behind the others (they may still fit after a refusal)
    if rng.gen_range(0..3) == 0 {
        for _ in 0..rng.gen_range(1..4) {
            writes.push(match rng.gen_range(0..4) {
                0 => json!({"k": "int", "x": rng.gen_range(-64..64), "b": []}),
                1 => json!({"k": "raw", "x": 0, "b": [rng.gen::<u8>()]}),
                2 => json!({"k": "str", "x": 0, "b": []}),
                _ => json!({"k": "data", "x": 0, "b": []}),
            });
        }
    }
    // reads: usually exactly what was accepted ("mirror", resolved after the write phase); otherwise one
    // read per write, some of a different kind; plus extras and a finish
    let mirror = rng.gen_range(0..4) != 0;
    let mut reads = Vec::new();
    if !mirror {
        for w in &writes {
            let k = w["k"].as_str().unwrap();
            if rng.gen_range(0..12) == 0 {
                let o = ["int", "str", "data", "raw", "rest"][rng.gen_range(0..5)];
                reads.push(json!({"o": o, "n": rng.gen_range(0..4)}));
            } else if k == "raw" {
                reads.push(json!({"o": "raw", "n": w["b"].as_array().unwrap().len()}));
            } else {
                reads.push(json!({"o": k, "n": 0}));
            }
        }
    }
    for _ in 0..rng.gen_range(0..3) {
        let o = ["int", "str", "data", "raw", "rest", "finish"][rng.gen_range(0..6)];
        reads.push(json!({"o": o, "n": rng.gen_range(0..5)}));
    }
    reads.push(json!({"o": "finish", "n": 0}));
    if rng.gen_range(0..4) == 0 {
        let o = ["int", "str", "data", "rest", "finish"][rng.gen_range(0..5)];
        reads.push(json!({"o": o, "n": 0}));
    }
    let mut s = json!({"cap": cap, "writes": writes, "demo": demo, "reads": reads, "mirror": mirror});
    match rng.gen_range(0..8) {
        0 => {
            // arbitrary input for the unpacker
            let n = rng.gen_range(0..24);
            let mut d: Vec<u8> = (0..n).map(|_| if rng.gen_range(0..3) == 0 { [0u8, 0x80, 0xff, 0x40][rng.gen_range(0..4)] } else { rng.gen() }).collect();
            if demo {
                while d.len() % 4 != 0 {
                    d.push(0);
                }
            }
            s["data"] = jbytes(&d);
        }
        _ => {
            // pad is fixed up below once the written length is known (demo: padding rule, sometimes 4 more)
            s["pad"] = json!(rng.gen_range(0..2) * if rng.gen_range(0..4) == 0 { 1 } else { 0 });
        }
    }
    s
}

fn drive(seed: u64, n_ints: usize, n_decs: usize, n_sessions: usize, path: &str) {
    let mut rng = StdRng::seed_from_u64(seed);
    let mut out = std::io::BufWriter::new(std::fs::File::create(path).expect("create"));
    let mut events = 0u64;
    for chunk in 0..(n_ints + 499) / 500 {
        let n = 500.min(n_ints - chunk * 500);
        let items: Vec<Value> = (0..n).map(|_| do_int(rnd_int(&mut rng))).collect();
        writeln!(out, "{}", json!({"e": "ints", "items": items})).unwrap();
        events += 1;
    }
    for chunk in 0..(n_decs + 499) / 500 {
        let n = 500.min(n_decs - chunk * 500);
        let items: Vec<Value> = (0..n).map(|_| do_dec(&rnd_bytes_for_decoder(&mut rng))).collect();
        writeln!(out, "{}", json!({"e": "decs", "items": items})).unwrap();
        events += 1;
    }
    for _ in 0..n_sessions {
        let mut s = rnd_session(&mut rng);
        if s["data"].is_null() && s["demo"] == true {
            // the written length is only known after the write phase: run it once to learn it
            let probe = do_session(&json!({"cap": s["cap"], "writes": s["writes"], "reads": null}));
            let wl = probe.last().map(|e| e["written"].as_array().map(|a| a.len()).unwrap_or(0)).unwrap_or(0);
            let min = (4 - wl % 4) % 4;
            s["pad"] = json!(if rng.gen_range(0..5) == 0 { min + 4 } else { min });
        }
        if rng.gen_range(0..2) == 0 && s["cap"].as_i64().unwrap_or(-1) >= 0 {
            // exact fit: learn the real length after each write (generous buffer), then leave item j
            // exactly its length, one byte less or one byte more of room
            let probe = do_session(&json!({"cap": 4096, "writes": s["writes"], "reads": null}));
            let afters: Vec<i64> = probe.iter().filter(|e| e["e"] == "w").map(|e| e["after"].as_i64().unwrap_or(0)).collect();
            if !afters.is_empty() {
                let j = rng.gen_range(0..afters.len());
                s["cap"] = json!((afters[j] + rng.gen_range(-1..=1)).max(0));
            }
        }
        for e in do_session(&s) {
            writeln!(out, "{}", e).unwrap();
            events += 1;
        }
    }
    out.flush().unwrap();
    println!("SUMMARY {}", json!({"events": events, "ints": n_ints, "decs": n_decs, "sessions": n_sessions}));
}

/// Re-executes the inputs found in recorded events (recorded outputs are ignored).
fn rerun(inp: &str, outp: &str) {
    let text = std::fs::read_to_string(inp).expect("read");
    let mut out = std::fs::File::create(outp).expect("create");
    let mut cur: Option<Value> = None;
    let flush = |cur: &mut Option<Value>, out: &mut std::fs::File| {
        if let Some(s) = cur.take() {
            for e in do_session(&s) {
                writeln!(out, "{}", e).unwrap();
            }
        }
    };
    for line in text.lines().filter(|l| !l.trim().is_empty()) {
        let e: Value = serde_json::from_str(line).expect("json");
        match e["e"].as_str().unwrap_or("") {
            "ints" => {
                flush(&mut cur, &mut out);
                let items: Vec<Value> = e["items"].as_array().unwrap().iter().map(|i| do_int(i["x"].as_i64().unwrap() as i32)).collect();
                writeln!(out, "{}", json!({"e": "ints", "items": items})).unwrap();
            }
            "decs" => {
                flush(&mut cur, &mut out);
                let items: Vec<Value> = e["items"].as_array().unwrap().iter().map(|i| do_dec(&bytes_of(&i["b"]))).collect();
                writeln!(out, "{}", json!({"e": "decs", "items": items})).unwrap();
            }
            "pk_new" => {
                flush(&mut cur, &mut out);
                cur = Some(json!({"cap": e["cap"], "writes": [], "reads": null}));
            }
            "w" => {
                if let Some(s) = cur.as_mut() {
                    s["writes"].as_array_mut().unwrap().push(json!({"k": e["k"], "x": e["x"], "b": e["b"]}));
                }
            }
            "up_new" => {
                if e["src"] == "raw" || cur.is_none() {
                    flush(&mut cur, &mut out);
                    cur = Some(json!({"cap": -1, "writes": [], "demo": e["demo"], "data": e["data"], "reads": []}));
                } else if let Some(s) = cur.as_mut() {
                    s["demo"] = e["demo"].clone();
                    s["pad"] = e["pad"].clone();
                    s["reads"] = json!([]);
                }
            }
            "r" => {
                if let Some(s) = cur.as_mut() {
                    if s["reads"].is_array() {
                        s["reads"].as_array_mut().unwrap().push(json!({"o": e["o"], "n": e["n"]}));
                    }
                }
            }
            _ => {}
        }
    }
    flush(&mut cur, &mut out);
}

fn main() {
    vh_common::quiet_panics();
    vh_common::start_watchdog();
    let a: Vec<String> = std::env::args().collect();
    if let Err(msg) = catch(|| run(&a)) {
        // a panic of the harness itself (not of the code under test, which is always caught)
        println!("HARNESS-ERROR {} at {}", msg, vh_common::last_panic_location());
        std::process::exit(3);
    }
}

fn run(a: &[String]) {
    match a.get(1).map(|s| s.as_str()) {
        Some("replay") => replay(&a[2]),
        Some("drive") => drive(a[2].parse().unwrap(), a[3].parse().unwrap(), a[4].parse().unwrap(), a[5].parse().unwrap(), &a[6]),
        Some("rerun") => rerun(&a[2], &a[3]),
        _ => {
            eprintln!("usage: vh-varint replay <mismatches> | drive <seed> <ints> <decs> <sessions> <trace> | rerun <in> <out>");
            std::process::exit(2);
        }
    }
}
