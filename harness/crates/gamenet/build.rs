//! Generates `$OUT_DIR/built.rs`: for every message and snapshot object of the four protocol
//! descriptions a constructor that builds the generated Rust struct **through its public fields** from
//! a JSON value tuple (the `vals` of a GameNetMC vector) and hands it to `encode`.
//!
//! Only names are taken from the description (datatypes.py `title` / `snake`, the member order, the
//! parent of an object); the field *types* are left to type inference (`Cv::cv`), so the constructors
//! follow whatever types the generated crate declares. The descriptions are read from the checkout
//! the crate is built against (the path of the `libtw2-gamenet-common` dependency in Cargo.toml).
use serde_json::Value;
use std::fmt::Write;

const PROTOS: [(&str, &str, &str); 4] = [
    ("p05", "libtw2_gamenet_teeworlds_0_5", "teeworlds-0.5.json"),
    ("p06", "libtw2_gamenet_teeworlds_0_6", "teeworlds-0.6.json"),
    ("p07", "libtw2_gamenet_teeworlds_0_7", "teeworlds-0.7-trunk.json"),
    ("pdd", "libtw2_gamenet_ddnet", "ddnet-19.6.json"),
];

fn words(v: &Value) -> Vec<String> {
    v.as_array().map(|a| a.iter().map(|x| x.as_str().unwrap_or("").to_string()).collect()).unwrap_or_default()
}

/// datatypes.py `title(name)`: "".join(p.title() for p in name) (Python str.title: a cased letter is
/// upper-cased iff it does not follow a cased letter)
fn title(name: &[String]) -> String {
    let mut r = String::new();
    for w in name {
        let mut prev = false;
        for c in w.chars() {
            if c.is_alphabetic() {
                if prev {
                    r.extend(c.to_lowercase());
                } else {
                    r.extend(c.to_uppercase());
                }
                prev = true;
            } else {
                r.push(c);
                prev = false;
            }
        }
    }
    r
}

/// datatypes.py `snake(name)` with SNAKE_REPLACEMENTS
fn snake(name: &[String]) -> String {
    if name.len() == 1 && (name[0] == "self" || name[0] == "type") {
        return format!("{}_", name[0]);
    }
    name.join("_")
}

fn repo_root() -> String {
    let dir = std::env::var("CARGO_MANIFEST_DIR").unwrap();
    let toml = std::fs::read_to_string(format!("{}/Cargo.toml", dir)).unwrap();
    for line in toml.lines() {
        if line.starts_with("libtw2-gamenet-common") {
            let a = line.find("path = \"").unwrap() + 8;
            let b = line[a..].find('"').unwrap() + a;
            return line[a..b].trim_end_matches("/gamenet/common").to_string();
        }
    }
    panic!("no libtw2-gamenet-common dependency");
}

fn n_members(desc: &Value, obj: &Value) -> usize {
    let own = obj["members"].as_array().map(|a| a.len()).unwrap_or(0);
    match obj.get("super") {
        Some(s) => {
            let sn = words(s);
            let parent = desc["snapshot_objects"].as_array().unwrap().iter().find(|o| words(&o["name"]) == sn).unwrap();
            own + n_members(desc, parent)
        }
        None => own,
    }
}

fn main() {
    let root = repo_root();
    let mut out = String::new();
    for (m, krate, file) in PROTOS.iter() {
        let path = format!("{}/gamenet/generate/spec/{}", root, file);
        println!("cargo:rerun-if-changed={}", path);
        let desc: Value = serde_json::from_str(&std::fs::read_to_string(&path).unwrap()).unwrap();
        writeln!(out, "pub mod b{} {{", m).unwrap();
        writeln!(out, "    #![allow(unused_variables, unused_imports, clippy::all)]").unwrap();
        writeln!(out, "    use super::*;\n    use {} as g;", krate).unwrap();
        for e in desc["game_enumerations"].as_array().unwrap() {
            writeln!(out, "    impl Cv for g::enums::{} {{ fn cv(v: &Value) -> Option<Self> {{ g::enums::{}::from_i32(i32::cv(v)?).ok() }} }}",
                     title(&words(&e["name"])), title(&words(&e["name"]))).unwrap();
        }
        // every snapshot object: from a flat slice of member values (parent's members first)
        for o in desc["snapshot_objects"].as_array().unwrap() {
            let t = title(&words(&o["name"]));
            let n = n_members(&desc, o);
            writeln!(out, "    impl Cvs for g::snap_obj::{} {{\n        const N: usize = {};\n        fn cvs(v: &[Value]) -> Option<Self> {{\n            if v.len() != {} {{ return None; }}", t, n, n).unwrap();
            let mut off = 0;
            write!(out, "            Some(g::snap_obj::{} {{", t).unwrap();
            if let Some(s) = o.get("super") {
                let sn = words(s);
                let parent = desc["snapshot_objects"].as_array().unwrap().iter().find(|p| words(&p["name"]) == sn).unwrap();
                let pn = n_members(&desc, parent);
                write!(out, " {}: Cvs::cvs(&v[0..{}])?,", snake(&sn), pn).unwrap();
                off = pn;
            }
            for (i, mem) in o["members"].as_array().unwrap().iter().enumerate() {
                write!(out, " {}: Cv::cv(&v[{}])?,", snake(&words(&mem["name"])), off + i).unwrap();
            }
            writeln!(out, " }})\n        }}\n    }}").unwrap();
            // embedded in a message: one JSON array
            writeln!(out, "    impl Cv for g::snap_obj::{} {{ fn cv(v: &Value) -> Option<Self> {{ Cvs::cvs(v.as_array()?) }} }}", t).unwrap();
        }
        let mut arms = String::new();
        for (sec, key, module, wrap) in [("system", "system_messages", "system", "System"),
                                          ("game", "game_messages", "game", "Game"),
                                          ("connless", "connless_messages", "connless", "Connless")] {
            for (i, msg) in desc[key].as_array().unwrap().iter().enumerate() {
                let t = title(&words(&msg["name"]));
                let mems = msg["members"].as_array().unwrap();
                writeln!(out, "    fn {}_{}(v: &[Value]) -> Option<Built> {{\n        if v.len() != {} {{ return None; }}", sec, i + 1, mems.len()).unwrap();
                write!(out, "        let x = g::msg::{}::{} {{", module, t).unwrap();
                for (j, mem) in mems.iter().enumerate() {
                    write!(out, " {}: Cv::cv(&v[{}])?,", snake(&words(&mem["name"])), j).unwrap();
                }
                writeln!(out, " }};\n        let m: g::msg::{} = x.into();\n        Some(enc_bytes(|p| m.encode(p)))\n    }}", wrap).unwrap();
                writeln!(arms, "            (\"{}\", {}) => {}_{}(v),", sec, i + 1, sec, i + 1).unwrap();
            }
        }
        for (i, o) in desc["snapshot_objects"].as_array().unwrap().iter().enumerate() {
            let t = title(&words(&o["name"]));
            writeln!(out, "    fn obj_{}(v: &[Value]) -> Option<Built> {{\n        let x: g::snap_obj::{} = Cvs::cvs(v)?;\n        let o: g::SnapObj = x.into();\n        Some(enc_words(|| o.encode().to_vec()))\n    }}", i + 1, t).unwrap();
            writeln!(arms, "            (\"obj\", {}) => obj_{}(v),", i + 1, i + 1).unwrap();
        }
        writeln!(out, "    pub fn build(sec: &str, mi: usize, v: &[Value]) -> Option<Built> {{\n        match (sec, mi) {{\n{}            _ => None,\n        }}\n    }}\n}}", arms).unwrap();
    }
    let dest = format!("{}/built.rs", std::env::var("OUT_DIR").unwrap());
    std::fs::write(dest, out).unwrap();
    println!("cargo:rerun-if-changed=build.rs");
    println!("cargo:rerun-if-changed=Cargo.toml");
}
