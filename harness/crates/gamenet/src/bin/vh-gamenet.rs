//! vh-gamenet replay <proto> --trace <path> [--tier quick|thorough]
//!     direction A: reads the GameNetMC export of TLC on stdin (`<<"V", json>>` lines, or bare
//!     JSON vector lines of a replay file), decodes every vector with the real generated crate
//!     through its generic entry points, re-encodes it and compares with what the spec expects.
//!     direction B: derives truncations, single-position mutations and random inputs from the
//!     vectors (seeded), executes them and records an NDJSON trace for GameNetTrace.tla.
//!
//! The expected outcome of a vector comes from the TLA+ spec (field `exp`); this program only
//! calls the API, projects the result into the spec's vocabulary and turns panics/hangs into data.
use libtw2_gamenet_common::error::Error;
use libtw2_gamenet_common::msg::SystemOrGame;
use libtw2_gamenet_common::snap_obj::TypeId;
use libtw2_gamenet_common::traits;
use libtw2_packer::with_packer;
use libtw2_packer::ExcessData;
use libtw2_packer::IntUnpacker;
use libtw2_packer::Unpacker;
use libtw2_packer::Warning;
use serde_json::json;
use serde_json::Value;
use std::io::BufRead;
use std::io::Write;
use uuid::Uuid;
use vh_common::catch;
use vh_common::guarded;
use vh_common::parse_tlc_tuple;
use vh_common::rand::rngs::StdRng;
use vh_common::rand::Rng;
use vh_common::rand::SeedableRng;

const CAP: usize = 1 << 16;

#[derive(Clone, Debug, Default)]
struct Got {
    r: String,      // ok | err | panic
    e: String,      // error class in the spec's vocabulary
    w: Vec<String>, // warnings (sorted, unique)
    enc: String,    // ok | panic | cap | none
    re: Vec<i64>,   // re-encoded bytes / words
    sec: String,    // system | game | connless | obj
    tname: String,  // Debug name of the decoded value
    size: i64,      // obj_size(ordinal), -1 = None / not applicable
    idok: bool,     // obj_type_id() of the decoded object is the identifier it was decoded with
    panic: String,
}

fn err_class(e: &Error) -> &'static str {
    match e {
        Error::ControlCharacters => "cc",
        Error::IntOutOfRange => "range",
        Error::InvalidIntString => "intstr",
        Error::UnexpectedEnd => "end",
        Error::UnknownId => "unknown_id",
    }
}

fn warn_names<T: std::fmt::Debug>(w: &[T]) -> Vec<String> {
    let mut v: Vec<String> = w.iter().map(|x| format!("{:?}", x)).collect();
    v.sort();
    v.dedup();
    v
}

fn debug_name(s: &str) -> String {
    s.split(|c: char| !(c.is_alphanumeric() || c == '_'))
        .next()
        .unwrap_or("")
        .to_string()
}

fn finish<F: FnOnce() -> Got>(f: F) -> Got {
    match guarded(10_000, f) {
        Ok(g) => g,
        Err(msg) => Got {
            r: "panic".into(),
            enc: "none".into(),
            size: -1,
            idok: true,
            panic: format!("{} at {}", msg, vh_common::last_panic_location()),
            ..Got::default()
        },
    }
}

/// `libtw2_gamenet_common::traits::MessageExt::{decode, encode}` of a protocol's System / Game type
fn generic_msg<'a, M: traits::Message<'a> + std::fmt::Debug>(data: &'a [u8], sec: &str, demo: bool) -> Got {
    finish(|| {
        let mut warn: Vec<Warning> = Vec::new();
        let mut p = unp(data, demo);
        let mut got = Got { size: -1, idok: true, enc: "none".into(), ..Got::default() };
        match <M as traits::MessageExt>::decode(&mut warn, &mut p) {
            Ok(m) => {
                got.r = "ok".into();
                got.sec = sec.into();
                got.tname = debug_name(&format!("{:?}", m));
                let enc = catch(|| {
                    let mut buf: Vec<u8> = Vec::with_capacity(CAP);
                    with_packer(&mut buf, |p| traits::MessageExt::encode(&m, p).map(|b| b.to_vec()))
                });
                match enc {
                    Ok(Ok(b)) => {
                        got.enc = "ok".into();
                        got.re = b.iter().map(|&x| x as i64).collect();
                    }
                    Ok(Err(_)) => got.enc = "cap".into(),
                    Err(msg) => {
                        got.enc = "panic".into();
                        got.panic = format!("{} at {}", msg, vh_common::last_panic_location());
                    }
                }
            }
            Err(e) => {
                got.r = "err".into();
                got.e = err_class(&e).into();
            }
        }
        got.w = warn_names(&warn);
        got
    })
}

/// `traits::SnapObj::{decode_obj, obj_type_id, encode}` and `traits::ProtocolStatic::obj_size`
fn generic_obj<P: traits::ProtocolStatic>(ord: i64, uuid: &[u8], words: &[i32]) -> Got
where
    P::SnapObj: std::fmt::Debug,
{
    finish(|| {
        let tid = if uuid.len() == 16 {
            TypeId::Uuid(Uuid::from_slice(uuid).unwrap())
        } else {
            TypeId::Ordinal(ord as u16)
        };
        let mut warn: Vec<ExcessData> = Vec::new();
        let mut p = IntUnpacker::new(words);
        let mut got = Got { size: -1, idok: true, enc: "none".into(), ..Got::default() };
        if uuid.len() != 16 {
            got.size = P::obj_size(ord as u16).map(|x| x as i64).unwrap_or(-1);
        }
        match <P::SnapObj as traits::SnapObj>::decode_obj(&mut warn, tid, &mut p) {
            Ok(o) => {
                got.r = "ok".into();
                got.sec = "obj".into();
                got.tname = debug_name(&format!("{:?}", o));
                got.idok = traits::SnapObj::obj_type_id(&o) == tid;
                match catch(|| traits::SnapObj::encode(&o).to_vec()) {
                    Ok(ws) => {
                        got.enc = "ok".into();
                        got.re = ws.iter().map(|&x| x as i64).collect();
                    }
                    Err(msg) => {
                        got.enc = "panic".into();
                        got.panic = format!("{} at {}", msg, vh_common::last_panic_location());
                    }
                }
            }
            Err(e) => {
                got.r = "err".into();
                got.e = err_class(&e).into();
            }
        }
        got.w = warn_names(&warn);
        got
    })
}

macro_rules! proto {
    ($m:ident, $c:ident) => {
        mod $m {
            use super::*;
            use $c as g;

            pub fn msg(data: &[u8], demo: bool) -> Got {
                finish(|| {
                    let mut warn: Vec<Warning> = Vec::new();
                    let mut p = unp(data, demo);
                    let mut got = Got { size: -1, idok: true, enc: "none".into(), ..Got::default() };
                    match g::msg::decode(&mut warn, &mut p) {
                        Ok(m) => {
                            got.r = "ok".into();
                            let dbg = match &m {
                                SystemOrGame::System(s) => {
                                    got.sec = "system".into();
                                    format!("{:?}", s)
                                }
                                SystemOrGame::Game(x) => {
                                    got.sec = "game".into();
                                    format!("{:?}", x)
                                }
                            };
                            got.tname = debug_name(&dbg);
                            let enc = catch(|| {
                                let mut buf: Vec<u8> = Vec::with_capacity(CAP);
                                match &m {
                                    SystemOrGame::System(s) => {
                                        with_packer(&mut buf, |p| s.encode(p).map(|b| b.to_vec()))
                                    }
                                    SystemOrGame::Game(x) => {
                                        with_packer(&mut buf, |p| x.encode(p).map(|b| b.to_vec()))
                                    }
                                }
                            });
                            match enc {
                                Ok(Ok(b)) => {
                                    got.enc = "ok".into();
                                    got.re = b.iter().map(|&x| x as i64).collect();
                                }
                                Ok(Err(_)) => got.enc = "cap".into(),
                                Err(msg) => {
                                    got.enc = "panic".into();
                                    got.panic = format!("{} at {}", msg, vh_common::last_panic_location());
                                }
                            }
                        }
                        Err(e) => {
                            got.r = "err".into();
                            got.e = err_class(&e).into();
                        }
                    }
                    got.w = warn_names(&warn);
                    got
                })
            }

            pub fn tsystem(data: &[u8], demo: bool) -> Got {
                generic_msg::<<g::Protocol as traits::Protocol<'_>>::System>(data, "system", demo)
            }
            pub fn tgame(data: &[u8], demo: bool) -> Got {
                generic_msg::<<g::Protocol as traits::Protocol<'_>>::Game>(data, "game", demo)
            }
            pub fn tobj(ord: i64, uuid: &[u8], words: &[i32]) -> Got {
                generic_obj::<g::Protocol>(ord, uuid, words)
            }

            /// inherent `System::decode` + `System::encode`
            pub fn system(data: &[u8], demo: bool) -> Got {
                finish(|| {
                    let mut warn: Vec<Warning> = Vec::new();
                    let mut p = unp(data, demo);
                    let mut got = Got { size: -1, idok: true, enc: "none".into(), ..Got::default() };
                    match g::msg::System::decode(&mut warn, &mut p) {
                        Ok(m) => {
                            got.r = "ok".into();
                            got.sec = "system".into();
                            got.tname = debug_name(&format!("{:?}", m));
                            let enc = catch(|| {
                                let mut buf: Vec<u8> = Vec::with_capacity(CAP);
                                with_packer(&mut buf, |p| m.encode(p).map(|b| b.to_vec()))
                            });
                            match enc {
                                Ok(Ok(b)) => {
                                    got.enc = "ok".into();
                                    got.re = b.iter().map(|&x| x as i64).collect();
                                }
                                Ok(Err(_)) => got.enc = "cap".into(),
                                Err(msg) => {
                                    got.enc = "panic".into();
                                    got.panic = format!("{} at {}", msg, vh_common::last_panic_location());
                                }
                            }
                        }
                        Err(e) => {
                            got.r = "err".into();
                            got.e = err_class(&e).into();
                        }
                    }
                    got.w = warn_names(&warn);
                    got
                })
            }

            /// inherent `Game::decode` + `Game::encode`
            pub fn game(data: &[u8], demo: bool) -> Got {
                finish(|| {
                    let mut warn: Vec<Warning> = Vec::new();
                    let mut p = unp(data, demo);
                    let mut got = Got { size: -1, idok: true, enc: "none".into(), ..Got::default() };
                    match g::msg::Game::decode(&mut warn, &mut p) {
                        Ok(m) => {
                            got.r = "ok".into();
                            got.sec = "game".into();
                            got.tname = debug_name(&format!("{:?}", m));
                            let enc = catch(|| {
                                let mut buf: Vec<u8> = Vec::with_capacity(CAP);
                                with_packer(&mut buf, |p| m.encode(p).map(|b| b.to_vec()))
                            });
                            match enc {
                                Ok(Ok(b)) => {
                                    got.enc = "ok".into();
                                    got.re = b.iter().map(|&x| x as i64).collect();
                                }
                                Ok(Err(_)) => got.enc = "cap".into(),
                                Err(msg) => {
                                    got.enc = "panic".into();
                                    got.panic = format!("{} at {}", msg, vh_common::last_panic_location());
                                }
                            }
                        }
                        Err(e) => {
                            got.r = "err".into();
                            got.e = err_class(&e).into();
                        }
                    }
                    got.w = warn_names(&warn);
                    got
                })
            }

            pub fn connless(data: &[u8], demo: bool) -> Got {
                finish(|| {
                    let mut warn: Vec<Warning> = Vec::new();
                    let mut p = unp(data, demo);
                    let mut got = Got { size: -1, idok: true, enc: "none".into(), ..Got::default() };
                    match g::msg::Connless::decode(&mut warn, &mut p) {
                        Ok(m) => {
                            got.r = "ok".into();
                            got.sec = "connless".into();
                            got.tname = debug_name(&format!("{:?}", m));
                            let enc = catch(|| {
                                let mut buf: Vec<u8> = Vec::with_capacity(CAP);
                                with_packer(&mut buf, |p| m.encode(p).map(|b| b.to_vec()))
                            });
                            match enc {
                                Ok(Ok(b)) => {
                                    got.enc = "ok".into();
                                    got.re = b.iter().map(|&x| x as i64).collect();
                                }
                                Ok(Err(_)) => got.enc = "cap".into(),
                                Err(msg) => {
                                    got.enc = "panic".into();
                                    got.panic = format!("{} at {}", msg, vh_common::last_panic_location());
                                }
                            }
                        }
                        Err(e) => {
                            got.r = "err".into();
                            got.e = err_class(&e).into();
                        }
                    }
                    got.w = warn_names(&warn);
                    got
                })
            }

            pub fn obj(ord: i64, uuid: &[u8], words: &[i32]) -> Got {
                finish(|| {
                    let tid = if uuid.len() == 16 {
                        TypeId::Uuid(Uuid::from_slice(uuid).unwrap())
                    } else {
                        TypeId::Ordinal(ord as u16)
                    };
                    let mut warn: Vec<ExcessData> = Vec::new();
                    let mut p = IntUnpacker::new(words);
                    let mut got = Got { size: -1, idok: true, enc: "none".into(), ..Got::default() };
                    if uuid.len() != 16 {
                        got.size = g::snap_obj::obj_size(ord as u16).map(|x| x as i64).unwrap_or(-1);
                    }
                    match g::SnapObj::decode_obj(&mut warn, tid, &mut p) {
                        Ok(o) => {
                            got.r = "ok".into();
                            got.sec = "obj".into();
                            got.tname = debug_name(&format!("{:?}", o));
                            got.idok = o.obj_type_id() == tid;
                            match catch(|| o.encode().to_vec()) {
                                Ok(ws) => {
                                    got.enc = "ok".into();
                                    got.re = ws.iter().map(|&x| x as i64).collect();
                                }
                                Err(msg) => {
                                    got.enc = "panic".into();
                                    got.panic = format!("{} at {}", msg, vh_common::last_panic_location());
                                }
                            }
                        }
                        Err(e) => {
                            got.r = "err".into();
                            got.e = err_class(&e).into();
                        }
                    }
                    got.w = warn_names(&warn);
                    got
                })
            }
        }
    };
}

proto!(p05, libtw2_gamenet_teeworlds_0_5);
proto!(p06, libtw2_gamenet_teeworlds_0_6);
proto!(p07, libtw2_gamenet_teeworlds_0_7);
proto!(pdd, libtw2_gamenet_ddnet);

fn unp(data: &[u8], demo: bool) -> Unpacker<'_> {
    if demo {
        Unpacker::new_from_demo(data)
    } else {
        Unpacker::new(data)
    }
}

fn run(proto: &str, entry0: &str, ord: i64, uuid: &[u8], data: &[i64]) -> Got {
    // entry points behind Unpacker::new_from_demo: "d" + name
    let demo = entry0.starts_with('d');
    let entry = if demo { &entry0[1..] } else { entry0 };
    if demo && data.len() % 4 != 0 {
        // the documented precondition of the constructor
        let bytes: Vec<u8> = data.iter().map(|&x| x as u8).collect();
        if let Err(msg) = catch(|| {
            let _ = Unpacker::new_from_demo(&bytes);
        }) {
            if msg.contains("multiple of four") {
                return Got { r: "precond".into(), enc: "none".into(), size: -1, idok: true, panic: msg, ..Got::default() };
            }
        }
    }
    match entry {
        "tobj" => {
            let words: Vec<i32> = data.iter().map(|&x| x as i32).collect();
            match proto {
                "0.5" => p05::tobj(ord, uuid, &words),
                "0.6" => p06::tobj(ord, uuid, &words),
                "0.7" => p07::tobj(ord, uuid, &words),
                _ => pdd::tobj(ord, uuid, &words),
            }
        }
        "tsystem" | "tgame" => {
            let bytes: Vec<u8> = data.iter().map(|&x| x as u8).collect();
            match (proto, entry) {
                ("0.5", "tsystem") => p05::tsystem(&bytes, demo),
                ("0.6", "tsystem") => p06::tsystem(&bytes, demo),
                ("0.7", "tsystem") => p07::tsystem(&bytes, demo),
                (_, "tsystem") => pdd::tsystem(&bytes, demo),
                ("0.5", _) => p05::tgame(&bytes, demo),
                ("0.6", _) => p06::tgame(&bytes, demo),
                ("0.7", _) => p07::tgame(&bytes, demo),
                _ => pdd::tgame(&bytes, demo),
            }
        }
        "obj" => {
            let words: Vec<i32> = data.iter().map(|&x| x as i32).collect();
            match proto {
                "0.5" => p05::obj(ord, uuid, &words),
                "0.6" => p06::obj(ord, uuid, &words),
                "0.7" => p07::obj(ord, uuid, &words),
                _ => pdd::obj(ord, uuid, &words),
            }
        }
        "connless" => {
            let bytes: Vec<u8> = data.iter().map(|&x| x as u8).collect();
            match proto {
                "0.5" => p05::connless(&bytes, demo),
                "0.6" => p06::connless(&bytes, demo),
                "0.7" => p07::connless(&bytes, demo),
                _ => pdd::connless(&bytes, demo),
            }
        }
        "system" => {
            let bytes: Vec<u8> = data.iter().map(|&x| x as u8).collect();
            match proto {
                "0.5" => p05::system(&bytes, demo),
                "0.6" => p06::system(&bytes, demo),
                "0.7" => p07::system(&bytes, demo),
                _ => pdd::system(&bytes, demo),
            }
        }
        "game" => {
            let bytes: Vec<u8> = data.iter().map(|&x| x as u8).collect();
            match proto {
                "0.5" => p05::game(&bytes, demo),
                "0.6" => p06::game(&bytes, demo),
                "0.7" => p07::game(&bytes, demo),
                _ => pdd::game(&bytes, demo),
            }
        }
        _ => {
            let bytes: Vec<u8> = data.iter().map(|&x| x as u8).collect();
            match proto {
                "0.5" => p05::msg(&bytes, demo),
                "0.6" => p06::msg(&bytes, demo),
                "0.7" => p07::msg(&bytes, demo),
                _ => pdd::msg(&bytes, demo),
            }
        }
    }
}

// ---------------------------------------------------------------------------------------------
// `encode` of values built through the public struct fields (constructors generated by build.rs)

pub enum Built {
    Ok(Vec<i64>),
    Cap,
    Panic(String),
}

/// one field value from its JSON form; the target type is inferred from the struct definition
pub trait Cv: Sized {
    fn cv(v: &Value) -> Option<Self>;
}
/// a snapshot object from the flat list of its members' values (parent's members first)
pub trait Cvs: Sized {
    const N: usize;
    fn cvs(v: &[Value]) -> Option<Self>;
}
fn leak_bytes(v: &Value) -> Option<&'static [u8]> {
    let a = v.as_array()?;
    let mut b = Vec::with_capacity(a.len());
    for x in a {
        let n = x.as_i64()?;
        if !(0..=255).contains(&n) {
            return None;
        }
        b.push(n as u8);
    }
    Some(Box::leak(b.into_boxed_slice()))
}
impl Cv for i32 {
    fn cv(v: &Value) -> Option<i32> {
        match v {
            // the i32 behind an int32_string member: what the decimal string denotes
            Value::Array(_) => std::str::from_utf8(leak_bytes(v)?).ok()?.parse::<i32>().ok(),
            _ => {
                let n = v.as_i64()?;
                if n < i32::MIN as i64 || n > i32::MAX as i64 {
                    None
                } else {
                    Some(n as i32)
                }
            }
        }
    }
}
impl Cv for bool {
    fn cv(v: &Value) -> Option<bool> {
        match v.as_i64()? {
            0 => Some(false),
            1 => Some(true),
            _ => None,
        }
    }
}
impl Cv for u8 {
    fn cv(v: &Value) -> Option<u8> {
        let n = v.as_i64()?;
        if (0..=255).contains(&n) { Some(n as u8) } else { None }
    }
}
impl Cv for u16 {
    fn cv(v: &Value) -> Option<u16> {
        let n = v.as_i64()?;
        if (0..=65535).contains(&n) { Some(n as u16) } else { None }
    }
}
impl Cv for libtw2_gamenet_common::msg::TuneParam {
    fn cv(v: &Value) -> Option<Self> {
        Some(libtw2_gamenet_common::msg::TuneParam(i32::cv(v)?))
    }
}
impl Cv for libtw2_gamenet_common::snap_obj::Tick {
    fn cv(v: &Value) -> Option<Self> {
        Some(libtw2_gamenet_common::snap_obj::Tick(i32::cv(v)?))
    }
}
impl Cv for &'static [u8] {
    fn cv(v: &Value) -> Option<Self> {
        leak_bytes(v)
    }
}
impl Cv for libtw2_common::digest::Sha256 {
    fn cv(v: &Value) -> Option<Self> {
        libtw2_common::digest::Sha256::from_slice(leak_bytes(v)?).ok()
    }
}
impl Cv for Uuid {
    fn cv(v: &Value) -> Option<Self> {
        Uuid::from_slice(leak_bytes(v)?).ok()
    }
}
impl Cv for libtw2_gamenet_common::msg::ClientsData<'static> {
    fn cv(v: &Value) -> Option<Self> {
        Some(libtw2_gamenet_common::msg::ClientsData::from_bytes(leak_bytes(v)?))
    }
}
impl Cv for &'static [libtw2_gamenet_common::msg::AddrPacked] {
    fn cv(v: &Value) -> Option<Self> {
        use libtw2_gamenet_common::msg::AddrPackedSliceExt;
        let mut w: Vec<ExcessData> = Vec::new();
        Some(<[libtw2_gamenet_common::msg::AddrPacked] as AddrPackedSliceExt>::from_bytes(&mut w, leak_bytes(v)?))
    }
}
impl<T: Cv> Cv for Option<T> {
    fn cv(v: &Value) -> Option<Self> {
        let a = v.as_array()?;
        match a.len() {
            0 => Some(None),
            1 => Some(Some(T::cv(&a[0])?)),
            _ => None,
        }
    }
}
impl<T: Cv, const N: usize> Cv for [T; N] {
    fn cv(v: &Value) -> Option<Self> {
        let a = v.as_array()?;
        if a.len() != N {
            return None;
        }
        let mut r = Vec::with_capacity(N);
        for x in a {
            r.push(T::cv(x)?);
        }
        <[T; N]>::try_from(r).ok()
    }
}
fn enc_bytes<F>(f: F) -> Built
where
    F: for<'d, 's> FnOnce(libtw2_packer::Packer<'d, 's>) -> Result<&'d [u8], libtw2_buffer::CapacityError>,
{
    match catch(|| {
        let mut buf: Vec<u8> = Vec::with_capacity(CAP);
        with_packer(&mut buf, |p| f(p).map(|b| b.to_vec()))
    }) {
        Ok(Ok(b)) => Built::Ok(b.iter().map(|&x| x as i64).collect()),
        Ok(Err(_)) => Built::Cap,
        Err(msg) => Built::Panic(format!("{} at {}", msg, vh_common::last_panic_location())),
    }
}
fn enc_words<F: FnOnce() -> Vec<i32>>(f: F) -> Built {
    match catch(f) {
        Ok(w) => Built::Ok(w.iter().map(|&x| x as i64).collect()),
        Err(msg) => Built::Panic(format!("{} at {}", msg, vh_common::last_panic_location())),
    }
}
include!(concat!(env!("OUT_DIR"), "/built.rs"));

/// builds message / object `mi` of section `sec` from `vals` and encodes it: (r, bytes, panic message)
/// r: ok | panic | cap | unrep (the Rust types of the fields cannot hold the values)
fn build(proto: &str, sec: &str, mi: usize, vals: &Value) -> (String, Vec<i64>, String) {
    let empty = Vec::new();
    let v = vals.as_array().unwrap_or(&empty);
    vh_common::set_case(&json!({"proto": proto, "build": sec, "mi": mi, "vals": vals}).to_string());
    let b = guarded(10_000, || match proto {
        "0.5" => bp05::build(sec, mi, v),
        "0.6" => bp06::build(sec, mi, v),
        "0.7" => bp07::build(sec, mi, v),
        _ => bpdd::build(sec, mi, v),
    });
    match b {
        Ok(None) => ("unrep".into(), vec![], String::new()),
        Ok(Some(Built::Ok(b))) => ("ok".into(), b, String::new()),
        Ok(Some(Built::Cap)) => ("cap".into(), vec![], String::new()),
        Ok(Some(Built::Panic(m))) => ("panic".into(), vec![], m),
        Err(m) => ("panic".into(), vec![], format!("constructor: {}", m)),
    }
}

/// Compares `encode` of the built value with the spec's expectation (`bexp`). "build-canon" breaks the
/// property (the value is the one the canonical bytes decode to); the others are detail.
fn compare_build(vec: &Value, r: &str, bytes: &[i64], msg: &str) -> Vec<(String, String)> {
    let be = &vec["bexp"];
    let rep = be["rep"].as_bool().unwrap_or(false);
    let ok = be["ok"].as_bool().unwrap_or(false);
    let ebytes = ints(&be["bytes"]);
    let mut out = Vec::new();
    let canon = vec["exp"]["class"] == "canon" && ok && ints(&vec["data"]) == ebytes;
    if !rep {
        if r != "unrep" {
            out.push(("build-detail".into(), format!("a value the description's types cannot hold was built and encode gave {} {:?}", r, bytes)));
        }
    } else if ok {
        if r != "ok" || bytes != &ebytes[..] {
            let kind = if canon { "build-canon" } else { "build-detail" };
            out.push((kind.into(), format!("encode of a value built through the struct fields gave {} {:?} {} instead of {:?}", r, bytes, msg, ebytes)));
        }
    } else if r != "panic" {
        out.push(("build-detail".into(), format!("encode of a value that violates an assertion of encode gave {} {:?} instead of panicking", r, bytes)));
    } else if !(msg.contains("assertion failed") || msg.contains("ControlCharacters")) {
        out.push(("build-detail".into(), format!("encode panicked with an undocumented message: {}", msg)));
    }
    out
}

fn got_json(g: &Got) -> Value {
    json!({"r": g.r, "e": g.e, "w": g.w, "enc": g.enc, "re": g.re, "sec": g.sec,
           "tname": g.tname, "size": g.size, "idok": g.idok, "panic": g.panic})
}

fn ints(v: &Value) -> Vec<i64> {
    v.as_array()
        .map(|a| a.iter().map(|x| x.as_i64().unwrap_or(0)).collect())
        .unwrap_or_default()
}

fn strs(v: &Value) -> Vec<String> {
    let mut r: Vec<String> = v
        .as_array()
        .map(|a| a.iter().map(|x| x.as_str().unwrap_or("").to_string()).collect())
        .unwrap_or_default();
    r.sort();
    r.dedup();
    r
}

/// Compares what the real code did with the spec's expectation of a vector.
/// Returns (kind, text): kinds "panic", "canon", "reject-accepted", "unknown-accepted",
/// "encode-panic", "obj-size" break the property; "accept-rejected", "detail" are deviations
/// from the detailed spec only.
fn compare(vec: &Value, got: &Got) -> Vec<(String, String)> {
    let exp = &vec["exp"];
    let class = exp["class"].as_str().unwrap_or("");
    let data = ints(&vec["data"]);
    let mut out = Vec::new();
    if got.r == "panic" {
        out.push(("panic".into(), format!("decode panicked: {}", got.panic)));
        return out;
    }
    let exp_enc = exp["enc"].as_bool().unwrap_or(false);
    if class == "none" {
        return out;
    }
    if class == "precond" || got.r == "precond" {
        if class != got.r {
            out.push(("detail".into(), format!("outcome {} instead of {} (precondition of Unpacker::new_from_demo)", got.r, class)));
        }
        return out;
    }
    match class {
        "soft" => {
            if got.r != exp["r"].as_str().unwrap_or("") {
                out.push(("detail".into(), format!("outcome {} {} instead of {} {}", got.r, got.e, exp["r"], exp["e"])));
            } else if exp_enc && got.enc == "panic" {
                out.push(("encode-panic".into(), format!("encode of a decoded value panicked: {}", got.panic)));
            }
        }
        "canon" => {
            if got.r != "ok" {
                out.push(("canon".into(), format!("canonical input rejected with {}", got.e)));
            } else {
                if !got.w.is_empty() {
                    out.push(("canon".into(), format!("canonical input decoded with warnings {:?}", got.w)));
                }
                if got.enc == "panic" {
                    out.push(("encode-panic".into(), format!("encode of the decoded canonical value panicked: {}", got.panic)));
                } else if got.enc != "ok" {
                    out.push(("canon".into(), format!("encode of the decoded canonical value failed: {}", got.enc)));
                } else if !got.idok {
                    out.push(("canon".into(), "obj_type_id() of the decoded object differs from the identifier it was decoded with".into()));
                } else if got.re != data {
                    out.push(("canon".into(), format!("re-encoding differs: {:?} instead of {:?}", got.re, data)));
                }
            }
        }
        "reject" => {
            if got.r == "ok" {
                out.push(("reject-accepted".into(), format!("input violating a declared constraint ({}) was accepted", exp["e"].as_str().unwrap_or(""))));
            }
        }
        "unknown" => {
            if got.r == "ok" {
                out.push(("unknown-accepted".into(), "identifier not in the description was accepted".into()));
            }
        }
        _ => {
            if got.r != "ok" {
                out.push(("accept-rejected".into(), format!("non-canonical but readable input rejected with {}", got.e)));
            } else if exp_enc && got.enc == "panic" {
                out.push(("encode-panic".into(), format!("encode of a decoded value panicked: {}", got.panic)));
            }
        }
    }
    // object sizes: obj_size(ordinal) = described number of words
    if vec["entry"] == "obj" && ints(&vec["uuid"]).is_empty() && vec["fam"].as_str().unwrap_or("main") != "build" {
        let size = vec["size"].as_i64().unwrap_or(-1);
        if got.size != size {
            out.push(("obj-size".into(), format!("obj_size = {} but the description has {} words", got.size, size)));
        }
    }
    if out.is_empty() {
        // the detailed expectation
        let er = exp["r"].as_str().unwrap_or("");
        if er == "err" && got.r == "err" && got.e != exp["e"].as_str().unwrap_or("") {
            out.push(("detail".into(), format!("error class {} instead of {}", got.e, exp["e"])));
        }
        if er == "ok" && got.r == "ok" {
            if got.w != strs(&exp["w"]) {
                out.push(("detail".into(), format!("warnings {:?} instead of {}", got.w, exp["w"])));
            }
            if exp_enc && got.enc == "ok" && got.re != ints(&exp["re"]) {
                out.push(("detail".into(), format!("re-encoding {:?} instead of {}", got.re, exp["re"])));
            }
            if got.sec != exp["sec"].as_str().unwrap_or("") {
                out.push(("detail".into(), format!("decoded as {} instead of {}", got.sec, exp["sec"])));
            }
            if got.tname != exp["tname"].as_str().unwrap_or("") {
                out.push(("detail".into(), format!("decoded as type {} instead of {}", got.tname, exp["tname"])));
            }
        }
    }
    out
}

struct Tracer {
    out: Option<std::io::BufWriter<std::fs::File>>,
    logged: u64,
    forced: u64,
    triple: bool,
    seq: u64,
    bulk_n: u64,
    bulk_ok: u64,
    bulk_err: u64,
    bulk_panic: u64,
    panics: Vec<Value>,
}

impl Tracer {
    fn event(&mut self, proto: &str, src: &str, entry: &str, ord: i64, uuid: &[i64], data: &[i64], log: bool) -> Got {
        if entry == "msg" && self.triple {
            self.event1(proto, src, "system", ord, uuid, data, log);
            self.event1(proto, src, "game", ord, uuid, data, log);
            self.event1(proto, src, "tsystem", ord, uuid, data, log);
            self.event1(proto, src, "tgame", ord, uuid, data, log);
        }
        if entry == "dmsg" && self.triple {
            self.event1(proto, src, "dsystem", ord, uuid, data, log);
            self.event1(proto, src, "dgame", ord, uuid, data, log);
            self.event1(proto, src, "dtsystem", ord, uuid, data, log);
            self.event1(proto, src, "dtgame", ord, uuid, data, log);
        }
        if entry == "obj" && self.triple {
            self.event1(proto, src, "tobj", ord, uuid, data, log);
        }
        self.event1(proto, src, entry, ord, uuid, data, log)
    }
    fn event1(&mut self, proto: &str, src: &str, entry: &str, ord: i64, uuid: &[i64], data: &[i64], log: bool) -> Got {
        let ub: Vec<u8> = uuid.iter().map(|&x| x as u8).collect();
        vh_common::set_case(&json!({"proto": proto, "entry": entry, "ord": ord, "uuid": uuid, "data": data}).to_string());
        let g = run(proto, entry, ord, &ub, data);
        // a panic of decode is always recorded; a panic of encode (by design for an absent optional) up to a budget
        let is_panic = g.r == "panic" || (g.enc == "panic" && self.forced < 400);
        if is_panic && !log {
            self.forced += 1;
        }
        if log || is_panic {
            let ev = json!({"k": "ev", "n": self.seq + 1, "src": src, "entry": entry, "ord": ord, "uuid": uuid, "data": data,
                            "r": g.r, "e": g.e, "w": g.w, "enc": g.enc, "re": g.re, "sec": g.sec, "tname": g.tname, "idok": g.idok});
            if let Some(o) = self.out.as_mut() {
                writeln!(o, "{}", ev).unwrap();
            }
            self.logged += 1;
            self.seq += 1;
            if g.r == "panic" && self.panics.len() < 20 {
                self.panics.push(json!({"src": src, "entry": entry, "ord": ord, "uuid": uuid, "data": data,
                                        "panic": g.panic, "r": g.r, "enc": g.enc}));
            }
        } else {
            self.bulk_n += 1;
            match g.r.as_str() {
                "ok" => self.bulk_ok += 1,
                "err" => self.bulk_err += 1,
                _ => self.bulk_panic += 1,
            }
        }
        g
    }
    /// `encode` of a built value, recorded for GameNetTrace (BuildOK)
    fn benc(&mut self, proto: &str, src: &str, sec: &str, mi: usize, vals: &Value, log: bool) -> (String, Vec<i64>, String) {
        let (r, bytes, msg) = build(proto, sec, mi, vals);
        if log {
            let ev = json!({"k": "benc", "n": self.seq + 1, "src": src, "sec": sec, "mi": mi, "vals": vals,
                            "r": r, "bytes": bytes, "msg": msg});
            if let Some(o) = self.out.as_mut() {
                writeln!(o, "{}", ev).unwrap();
            }
            self.logged += 1;
            self.seq += 1;
        }
        (r, bytes, msg)
    }
    fn flush_bulk(&mut self) {
        if self.bulk_n > 0 {
            if let Some(o) = self.out.as_mut() {
                self.seq += 1;
                writeln!(o, "{}", json!({"k": "bulk", "n": self.seq, "count": self.bulk_n, "ok": self.bulk_ok, "err": self.bulk_err,
                                          "panic": self.bulk_panic, "hang": 0})).unwrap();
            }
        }
        if let Some(o) = self.out.as_mut() {
            o.flush().unwrap();
        }
    }
}

const WORD_POINTS: [i64; 12] = [0, 1, -1, 2, 3, 5, 16, 64, 127, 128, 256, 1 << 20];

fn main() {
    let args: Vec<String> = std::env::args().collect();
    if args.len() >= 3 && args[1] == "run" {
        // raw inputs {entry, ord, uuid, data} on stdin -> one trace event per line on stdout
        vh_common::quiet_panics();
        vh_common::start_watchdog();
        let mut tr = Tracer { out: None, logged: 0, forced: 0, triple: false, seq: 0, bulk_n: 0, bulk_ok: 0, bulk_err: 0, bulk_panic: 0, panics: Vec::new() };
        let stdin = std::io::stdin();
        let mut n = 0u64;
        for line in stdin.lock().lines() {
            let line = line.unwrap_or_default();
            let v: Value = match serde_json::from_str(&line) {
                Ok(v) => v,
                Err(_) => continue,
            };
            if v.get("vals").is_some() {
                // a value tuple for `encode` through the struct fields
                let sec = v["sec"].as_str().unwrap_or("").to_string();
                let mi = v["mi"].as_u64().unwrap_or(0) as usize;
                let (r, bytes, msg) = build(&args[2], &sec, mi, &v["vals"]);
                n += 1;
                println!("{}", json!({"k": "benc", "n": n, "src": v["src"].as_str().unwrap_or("run"), "sec": sec, "mi": mi,
                                      "vals": v["vals"], "r": r, "bytes": bytes, "msg": msg}));
                continue;
            }
            let entry = v["entry"].as_str().unwrap_or("msg").to_string();
            let g = tr.event(&args[2], "run", &entry, v["ord"].as_i64().unwrap_or(0), &ints(&v["uuid"]), &ints(&v["data"]), false);
            n += 1;
            println!("{}", json!({"k": "ev", "n": n, "src": v["src"].as_str().unwrap_or("run"), "entry": entry, "ord": v["ord"], "uuid": v["uuid"], "data": v["data"],
                                  "r": g.r, "e": g.e, "w": g.w, "enc": g.enc, "re": g.re, "sec": g.sec, "tname": g.tname, "idok": g.idok, "panic": g.panic}));
        }
        return;
    }
    if args.len() < 3 || args[1] != "replay" {
        eprintln!("usage: vh-gamenet replay <0.5|0.6|0.7|ddnet> [--trace PATH] [--tier quick|thorough]");
        std::process::exit(2);
    }
    let proto = args[2].clone();
    let arg = |name: &str, default: &str| -> String {
        args.iter()
            .position(|a| a == name)
            .and_then(|i| args.get(i + 1).cloned())
            .unwrap_or_else(|| default.to_string())
    };
    let tier = arg("--tier", "quick");
    let trace_path = arg("--trace", "");
    let thorough = tier == "thorough";
    let seed = vh_common::seed_from_env();
    let mut rng = StdRng::seed_from_u64(seed ^ (proto.len() as u64 * 0x9e37_79b9) ^ proto.bytes().fold(0u64, |a, b| a * 31 + b as u64));
    vh_common::quiet_panics();
    vh_common::start_watchdog();

    let mut tr = Tracer {
        out: if trace_path.is_empty() { None } else { Some(std::io::BufWriter::new(std::fs::File::create(&trace_path).unwrap())) },
        logged: 0, forced: 0, triple: true, seq: 0, bulk_n: 0, bulk_ok: 0, bulk_err: 0, bulk_panic: 0, panics: Vec::new(),
    };
    // how many derived inputs are logged individually (validated event by event by TLC)
    let mut trunc_log_budget: i64 = if thorough { 5_000 } else { 300 };
    let mut mut_log_budget: i64 = if thorough { 2_000 } else { 100 };
    let muts_per_vec = if thorough { 6 } else { 2 };

    let stdin = std::io::stdin();
    let stdout = std::io::stdout();
    let mut so = stdout.lock();
    let mut n_vec = 0u64;
    let mut by_class: std::collections::BTreeMap<String, u64> = Default::default();
    let mut n_mismatch = 0u64;
    let mut by_fam: std::collections::BTreeMap<String, u64> = Default::default();
    let mut n_built = 0u64;
    let mut built_by: std::collections::BTreeMap<String, u64> = Default::default();
    let mut benc_log_budget: i64 = if thorough { 6_000 } else { 500 };
    let mut demo_log_budget: i64 = if thorough { 3_000 } else { 150 };
    let mut samples: Vec<Value> = Vec::new();
    let mut canon_seen: Vec<(String, i64, Vec<i64>, Vec<i64>)> = Vec::new();
    for line in stdin.lock().lines() {
        let line = match line {
            Ok(l) => l,
            Err(_) => break,
        };
        let vec: Value = if line.starts_with('{') {
            match serde_json::from_str(&line) {
                Ok(v) => v,
                Err(_) => continue,
            }
        } else if let Some(t) = parse_tlc_tuple(&line) {
            if t.len() == 2 && t[0] == "V" {
                match serde_json::from_str(&t[1]) {
                    Ok(v) => v,
                    Err(e) => {
                        writeln!(so, "{}", json!({"t": "bad", "line": line, "err": e.to_string()})).unwrap();
                        continue;
                    }
                }
            } else if t.len() == 2 && (t[0] == "U" || t[0] == "N" || t[0] == "K") {
                let v: Value = serde_json::from_str(&t[1]).unwrap_or(Value::Null);
                writeln!(so, "{}", json!({"t": t[0], "v": v})).unwrap();
                continue;
            } else {
                writeln!(so, "{}", json!({"t": "tlc", "line": line})).unwrap();
                continue;
            }
        } else {
            if !line.starts_with("Semantic") && !line.starts_with("Parsing") && !line.starts_with("Linting") && !line.starts_with("Computed") {
                writeln!(so, "{}", json!({"t": "tlc", "line": line})).unwrap();
            }
            continue;
        };
        n_vec += 1;
        let entry = vec["entry"].as_str().unwrap_or("msg").to_string();
        let ord = vec["ord"].as_i64().unwrap_or(0);
        let uuid = ints(&vec["uuid"]);
        let data = ints(&vec["data"]);
        let class = vec["exp"]["class"].as_str().unwrap_or("").to_string();
        *by_class.entry(class.clone()).or_insert(0) += 1;
        let fam = vec["fam"].as_str().unwrap_or("main").to_string();
        *by_fam.entry(fam.clone()).or_insert(0) += 1;
        let is_canonical_vec = match vec.get("canonvec") {
            Some(c) => c.as_bool().unwrap_or(false),
            None => vec["id"][2] == 0 && vec["id"][3] == 1,
        };

        // direction A
        let mut mism = Vec::new();
        let mut got = Got { r: "none".into(), enc: "none".into(), size: -1, idok: true, ..Got::default() };
        if fam != "build" {
            tr.triple = is_canonical_vec || (fam == "demo" && (vec["id"][3] == 1 || thorough)) || (thorough && class != "canon");
            got = tr.event(&proto, "vec", &entry, ord, &uuid, &data, is_canonical_vec || class != "canon" || thorough);
            tr.triple = true;
            mism = compare(&vec, &got);
        }
        // `encode` of the value tuple built through the struct fields
        if vec["hasb"].as_bool().unwrap_or(false) {
            let sec = vec["sec"].as_str().unwrap_or("").to_string();
            let mi = vec["mi"].as_u64().unwrap_or(0) as usize;
            let interesting = fam == "build" || is_canonical_vec || !vec["bexp"]["ok"].as_bool().unwrap_or(false);
            let log = (interesting || thorough) && benc_log_budget > 0;
            if log {
                benc_log_budget -= 1;
            }
            let (r, bytes, msg) = tr.benc(&proto, "vec", &sec, mi, &vec["vals"], log);
            n_built += 1;
            *built_by.entry(r.clone()).or_insert(0) += 1;
            mism.extend(compare_build(&vec, &r, &bytes, &msg));
            if r == "ok" && fam == "build" {
                // what `encode` wrote is an input like any other: decoded, re-encoded, judged by the trace spec
                tr.event(&proto, "built", &entry, ord, &uuid, &bytes, true);
            }
            // direction B: the same tuple with one top-level integer member moved (seeded)
            if let Some(a) = vec["vals"].as_array() {
                let nums: Vec<usize> = (0..a.len()).filter(|&i| a[i].is_i64()).collect();
                if !nums.is_empty() && (is_canonical_vec || fam == "pair") {
                    for _ in 0..(if thorough { 4 } else { 1 }) {
                        let i = nums[rng.gen_range(0..nums.len())];
                        let old = a[i].as_i64().unwrap_or(0);
                        let nv: i64 = match rng.gen_range(0..5) {
                            0 => old + 1,
                            1 => old - 1,
                            2 => WORD_POINTS[rng.gen_range(0..WORD_POINTS.len())],
                            3 => -WORD_POINTS[rng.gen_range(0..WORD_POINTS.len())],
                            _ => rng.gen::<i32>() as i64,
                        };
                        let mut b = a.clone();
                        b[i] = json!(nv.max(i32::MIN as i64).min(i32::MAX as i64));
                        let log = benc_log_budget > 0;
                        if log {
                            benc_log_budget -= 1;
                        }
                        let (r2, bytes2, _) = tr.benc(&proto, "mutvals", &sec, mi, &Value::Array(b), log);
                        if r2 == "ok" && log {
                            tr.event(&proto, "built", &entry, ord, &uuid, &bytes2, true);
                        }
                    }
                }
            }
        }
        // direction B behind Unpacker::new_from_demo: the canonical bytes padded with zero / random bytes,
        // cut at every multiple of four, and random tails
        if is_canonical_vec && (entry == "msg" || entry == "connless") {
            let dentry = format!("d{}", entry);
            let p = (4 - data.len() % 4) % 4;
            let mut cases: Vec<Vec<i64>> = Vec::new();
            let mut d0 = data.clone();
            d0.extend(std::iter::repeat(0).take(p));
            cases.push(d0.clone());
            let mut d1 = data.clone();
            d1.extend((0..p).map(|_| rng.gen_range(0..3)));
            cases.push(d1);
            let mut d2 = d0.clone();
            d2.extend((0..4).map(|_| if rng.gen() { 0 } else { rng.gen_range(0..256) }));
            cases.push(d2);
            let mut cut = 0;
            while cut < d0.len() {
                cases.push(d0[..cut].to_vec());
                cut += 4;
            }
            for c in cases {
                let log = demo_log_budget > 0;
                if log {
                    demo_log_budget -= 1;
                }
                tr.event(&proto, "demo", &dentry, ord, &uuid, &c, log);
            }
        }
        if !mism.is_empty() {
            n_mismatch += 1;
            for (kind, text) in mism {
                writeln!(so, "{}", json!({"t": "M", "kind": kind, "text": text, "vec": vec, "got": got_json(&got)})).unwrap();
            }
        } else if samples.len() < 3 && (n_vec % 397 == 1) {
            samples.push(json!({"vec": {"id": vec["id"], "name": vec["name"], "tag": vec["tag"], "data": vec["data"], "exp": vec["exp"]}, "got": got_json(&got)}));
        }

        // direction B: truncations of every vector, mutations, executed now and recorded
        let n = if fam == "main" || fam == "pair" { data.len() } else { 0 };
        for cut in 0..(if fam == "main" { n } else { 0 }) {
            let log = is_canonical_vec && trunc_log_budget > 0;
            if log {
                trunc_log_budget -= 1;
            }
            tr.event(&proto, "trunc", &entry, ord, &uuid, &data[..cut], log);
        }
        if n > 0 {
            for _ in 0..muts_per_vec {
                let mut d = data.clone();
                let pos = rng.gen_range(0..n);
                if entry == "obj" {
                    d[pos] = match rng.gen_range(0..4) {
                        0 => WORD_POINTS[rng.gen_range(0..WORD_POINTS.len())],
                        1 => -WORD_POINTS[rng.gen_range(0..WORD_POINTS.len())],
                        2 => rng.gen::<i32>() as i64,
                        _ => d[pos] + if rng.gen() { 1 } else { -1 },
                    };
                    d[pos] = d[pos].max(i32::MIN as i64).min(i32::MAX as i64);
                } else {
                    d[pos] = match rng.gen_range(0..4) {
                        0 => 0,
                        1 => (d[pos] ^ (1 << rng.gen_range(0..8))) & 0xff,
                        2 => rng.gen_range(0..256),
                        _ => 0x80 | d[pos],
                    };
                }
                let log = is_canonical_vec && mut_log_budget > 0;
                if log {
                    mut_log_budget -= 1;
                }
                tr.event(&proto, "mut", &entry, ord, &uuid, &d, log);
            }
        }
        if is_canonical_vec {
            canon_seen.push((entry.clone(), ord, uuid.clone(), data.clone()));
        }
    }

    // direction B: random inputs. (a) random bodies behind a valid identifier, (b) random bytes.
    let n_rand = if thorough { 40 } else { 6 };
    let mut rand_log_budget: i64 = if thorough { 2_000 } else { 120 };
    for (entry, ord, uuid, data) in canon_seen.iter() {
        for _ in 0..n_rand {
            let len = rng.gen_range(0..(data.len() * 2 + 4));
            let d: Vec<i64> = if entry == "obj" {
                (0..len).map(|_| match rng.gen_range(0..3) {
                    0 => WORD_POINTS[rng.gen_range(0..WORD_POINTS.len())],
                    1 => rng.gen_range(-4..300),
                    _ => rng.gen::<i32>() as i64,
                }).collect()
            } else {
                // keep the identifier of the canonical vector (its first bytes), randomise the rest
                let hdr = if entry == "connless" { 8 } else if !uuid.is_empty() { 17 } else { 1 + (data[0] >= 128) as usize };
                let mut d: Vec<i64> = data.iter().take(hdr).cloned().collect();
                for _ in 0..len {
                    d.push(match rng.gen_range(0..4) {
                        0 => 0,
                        1 => rng.gen_range(0..64),
                        2 => rng.gen_range(32..127),
                        _ => rng.gen_range(0..256),
                    });
                }
                d
            };
            let log = rand_log_budget > 0;
            if log {
                rand_log_budget -= 1;
            }
            tr.event(&proto, "rand", entry, *ord, uuid, &d, log);
        }
    }
    let n_pure = if thorough { 20_000 } else { 2_000 };
    let mut pure_log_budget: i64 = if thorough { 1_000 } else { 60 };
    for i in 0..n_pure {
        let len = rng.gen_range(0..40);
        let entry = if i % 3 == 2 { "connless" } else { "msg" };
        let mut d: Vec<i64> = (0..len).map(|_| rng.gen_range(0..256)).collect();
        if entry == "connless" && len >= 4 && i % 2 == 0 {
            for b in d.iter_mut().take(4) {
                *b = 255;
            }
        }
        let log = pure_log_budget > 0;
        if log {
            pure_log_budget -= 1;
        }
        tr.event(&proto, "rand", entry, 0, &[], &d, log);
    }
    for i in 0..(n_pure / 4) {
        let len = rng.gen_range(0..30);
        let d: Vec<i64> = (0..len).map(|_| if rng.gen() { rng.gen_range(-2..20) } else { rng.gen::<i32>() as i64 }).collect();
        let ord = rng.gen_range(0..80);
        let log = i < if thorough { 400 } else { 100 };
        tr.event(&proto, "rand", "obj", ord, &[], &d, log);
    }
    tr.flush_bulk();
    for p in tr.panics.iter() {
        writeln!(so, "{}", json!({"t": "P", "ev": p})).unwrap();
    }
    writeln!(so, "{}", json!({"t": "S", "proto": proto, "vectors": n_vec, "by_class": by_class, "mismatching_vectors": n_mismatch, "by_family": by_fam, "built": n_built, "built_by_outcome": built_by,
                              "events_logged": tr.logged, "events_bulk": tr.bulk_n, "bulk_ok": tr.bulk_ok, "bulk_err": tr.bulk_err,
                              "bulk_panic": tr.bulk_panic, "samples": samples})).unwrap();
}
