//! Harness for the snapshot algebra and wire formats (properties C09, C10, C11).
//!
//! It never judges. It (i) turns a *case* (a JSON object produced by TLC from
//! `spec/snapalg/MC_SnapAlg.tla` or by the seeded random driver below) into calls of the
//! real `libtw2_snapshot` API (and of the bundled DDNet reference), (ii) projects what the
//! code really did (items, integers, bytes, outcomes, warnings, peak allocation) into the
//! vocabulary of `SnapAlg.tla`, (iii) turns panics and hangs into data. Every case becomes
//! one NDJSON *event*; `SnapAlgTrace.tla` judges the events with the operators of the spec.
//!
//! Sub-commands
//!   run <out.ndjson>            cases on stdin (TLC `<<"C", "json">>` lines or plain JSON lines)
//!   drive <fam> <seed> <n> <out.ndjson>   seeded random cases of real size (direction B)
//!   one <replay.json> <out.ndjson>        the case stored in a replay file
use libtw2_buffer::CapacityError;
use libtw2_gamenet_common::snap_obj::TypeId;
use libtw2_packer::with_packer;
use libtw2_packer::IntUnpacker;
use libtw2_packer::Unpacker;
use libtw2_snapshot::format::Warning;
use libtw2_snapshot::snap::Builder;
use libtw2_snapshot::snap::Delta;
use libtw2_snapshot::snap::RawBuilder;
use libtw2_snapshot::snap::RawSnap;
use libtw2_snapshot::snap::Snap;
use libtw2_snapshot_reference::snap as reference;
use serde_json::json;
use serde_json::Value;
use std::alloc::GlobalAlloc;
use std::alloc::Layout;
use std::alloc::System;
use std::cell::RefCell;
use std::collections::BTreeMap;
use std::io::BufRead;
use std::io::Write;
use std::sync::atomic::AtomicUsize;
use std::sync::atomic::Ordering;
use uuid::Uuid;
use vh_common::rand::rngs::StdRng;
use vh_common::rand::seq::SliceRandom;
use vh_common::rand::Rng;
use vh_common::rand::SeedableRng;

// ---------------------------------------------------------------- counting allocator
struct Counting;
static CUR: AtomicUsize = AtomicUsize::new(0);
static PEAK: AtomicUsize = AtomicUsize::new(0);
unsafe impl GlobalAlloc for Counting {
    unsafe fn alloc(&self, l: Layout) -> *mut u8 {
        let p = System.alloc(l);
        if !p.is_null() {
            let c = CUR.fetch_add(l.size(), Ordering::Relaxed) + l.size();
            PEAK.fetch_max(c, Ordering::Relaxed);
        }
        p
    }
    unsafe fn dealloc(&self, p: *mut u8, l: Layout) {
        System.dealloc(p, l);
        CUR.fetch_sub(l.size(), Ordering::Relaxed);
    }
    unsafe fn realloc(&self, p: *mut u8, l: Layout, new: usize) -> *mut u8 {
        let q = System.realloc(p, l, new);
        if !q.is_null() {
            if new >= l.size() {
                let c = CUR.fetch_add(new - l.size(), Ordering::Relaxed) + (new - l.size());
                PEAK.fetch_max(c, Ordering::Relaxed);
            } else {
                CUR.fetch_sub(l.size() - new, Ordering::Relaxed);
            }
        }
        q
    }
}
#[global_allocator]
static ALLOC: Counting = Counting;

/// Runs `f` and returns the peak of *additional* heap bytes it held at any time.
fn measured<T, F: FnOnce() -> T>(f: F) -> (T, usize) {
    let base = CUR.load(Ordering::Relaxed);
    PEAK.store(base, Ordering::Relaxed);
    let r = f();
    let peak = PEAK.load(Ordering::Relaxed);
    (r, peak.saturating_sub(base))
}

const CALL_MS: u64 = 20_000;

// ---------------------------------------------------------------- projection helpers
fn ints(v: &Value) -> Vec<i32> {
    v.as_array()
        .map(|a| a.iter().map(|x| x.as_i64().unwrap() as i32).collect())
        .unwrap_or_default()
}
fn bytes(v: &Value) -> Vec<u8> {
    v.as_array()
        .map(|a| a.iter().map(|x| x.as_i64().unwrap() as u8).collect())
        .unwrap_or_default()
}
fn jbytes(b: &[u8]) -> Value {
    Value::Array(b.iter().map(|&x| json!(x)).collect())
}
fn warns(w: &[Warning]) -> Value {
    // projected to the *set* of warning names (Packer(..) warnings keep their inner name)
    let mut names: Vec<String> = w
        .iter()
        .map(|x| match x {
            Warning::Packer(p) => format!("Packer{:?}", p),
            o => format!("{:?}", o),
        })
        .collect();
    names.sort();
    names.dedup();
    json!(names)
}
#[derive(Clone)]
struct RItem {
    t: u16,
    i: u16,
    d: Vec<i32>,
}
fn raw_items_in(v: &Value) -> Vec<RItem> {
    v.as_array()
        .map(|a| {
            a.iter()
                .map(|it| RItem {
                    t: it["t"].as_u64().unwrap() as u16,
                    i: it["i"].as_u64().unwrap() as u16,
                    d: ints(&it["d"]),
                })
                .collect()
        })
        .unwrap_or_default()
}
/// Items of a raw snapshot, in the order of the unsigned key (the spec's order).
fn raw_items_out(s: &RawSnap) -> Value {
    let mut v: Vec<(u32, Value)> = s
        .items()
        .map(|it| {
            (
                ((it.raw_type_id as u32) << 16) | it.id as u32,
                json!({"t": it.raw_type_id, "i": it.id, "d": it.data}),
            )
        })
        .collect();
    v.sort_by_key(|x| x.0);
    Value::Array(v.into_iter().map(|x| x.1).collect())
}
fn osz_in(v: &Value) -> BTreeMap<u16, u32> {
    let mut m = BTreeMap::new();
    if let Some(a) = v.as_array() {
        for p in a {
            m.insert(p[0].as_u64().unwrap() as u16, p[1].as_u64().unwrap() as u32);
        }
    }
    m
}
fn uuid_of(t: &[i32]) -> Uuid {
    let mut b = [0u8; 16];
    for (k, x) in t.iter().enumerate() {
        b[4 * k..4 * k + 4].copy_from_slice(&x.to_be_bytes());
    }
    Uuid::from_bytes(b)
}
fn ty_in(v: &Value) -> TypeId {
    let t = ints(v);
    if t.len() == 1 {
        TypeId::Ordinal(t[0] as u16)
    } else {
        TypeId::Uuid(uuid_of(&t))
    }
}
fn ty_out(t: TypeId) -> Value {
    match t {
        TypeId::Ordinal(o) => json!([o]),
        TypeId::Uuid(u) => {
            let b = u.as_bytes();
            let v: Vec<i32> = (0..4)
                .map(|k| i32::from_be_bytes([b[4 * k], b[4 * k + 1], b[4 * k + 2], b[4 * k + 3]]))
                .collect();
            json!(v)
        }
    }
}
fn out_of<T, E: std::fmt::Debug>(r: &Result<Result<T, E>, String>) -> String {
    match r {
        Err(_) => "panic".to_string(),
        Ok(Err(e)) => format!("{:?}", e),
        Ok(Ok(_)) => "ok".to_string(),
    }
}
fn panic_note(r: &Result<impl Sized, String>) -> Value {
    match r {
        Err(m) => json!(format!("{} @ {}", m, vh_common::last_panic_location())),
        Ok(_) => json!(""),
    }
}

fn snap_write_ints(s: &RawSnap) -> Result<Vec<i32>, String> {
    vh_common::guarded(CALL_MS, || {
        let mut buf = Vec::new();
        let mut out = vec![0i32; 16384 + 16];
        let r: Result<Vec<i32>, CapacityError> = s.write_to_ints(&mut buf, &mut out).map(|x| x.to_vec());
        r
    })
    .and_then(|r| r.map_err(|_| "capacity".to_string()))
}
fn snap_write_bytes(s: &RawSnap) -> Result<Vec<u8>, String> {
    vh_common::guarded(CALL_MS, || {
        let mut buf = Vec::new();
        let mut out: Vec<u8> = Vec::with_capacity(5 * 16400);
        let r: Result<Vec<u8>, CapacityError> = with_packer(&mut out, |p| s.write(&mut buf, p).map(|x| x.to_vec()));
        r
    })
    .and_then(|r| r.map_err(|_| "capacity".to_string()))
}
fn wres<T: serde::Serialize>(r: &Result<T, String>) -> Value {
    match r {
        Ok(v) => json!({"out": "ok", "v": v}),
        Err(m) if m == "capacity" => json!({"out": "capacity", "v": []}),
        Err(_) => json!({"out": "panic", "v": []}),
    }
}

fn delta_write_ints(d: &Delta, osz: &BTreeMap<u16, u32>) -> Result<Vec<i32>, String> {
    vh_common::guarded(CALL_MS, || {
        let mut out = vec![0i32; 70000];
        let r: Result<Vec<i32>, CapacityError> =
            d.write_to_ints(|t| osz.get(&t).copied(), &mut out).map(|x| x.to_vec());
        r
    })
    .and_then(|r| r.map_err(|_| "capacity".to_string()))
}
fn delta_write_bytes(d: &Delta, osz: &BTreeMap<u16, u32>) -> Result<Vec<u8>, String> {
    vh_common::guarded(CALL_MS, || {
        let mut out: Vec<u8> = Vec::with_capacity(5 * 70000);
        let r: Result<Vec<u8>, CapacityError> =
            with_packer(&mut out, |p| d.write(|t| osz.get(&t).copied(), p).map(|x| x.to_vec()));
        r
    })
    .and_then(|r| r.map_err(|_| "capacity".to_string()))
}

/// Observables of a raw snapshot that came out of some operation.
fn raw_obs(s: &RawSnap) -> Value {
    let crc = vh_common::guarded(CALL_MS, || s.crc());
    json!({"items": raw_items_out(s), "crc": crc.clone().unwrap_or(0), "crc_out": if crc.is_ok() {"ok"} else {"panic"}})
}

fn build_raw(items: &[RItem]) -> (RawSnap, Vec<String>) {
    let mut b = RawBuilder::new();
    let mut outs = Vec::new();
    for it in items {
        let r = vh_common::guarded(CALL_MS, || b.add_item(it.t, it.i, &it.d));
        outs.push(out_of(&r));
    }
    (b.finish(), outs)
}

/// Applies a delta given in its integer / byte wire form to `from`.
fn apply_wire(from: &RawSnap, w_ints: Option<&[i32]>, w_bytes: Option<&[u8]>, osz: &BTreeMap<u16, u32>, full: bool) -> Value {
    apply_wire_obj(from, w_ints, w_bytes, osz, full).0
}
/// The same, also handing out the snapshot obtained (for chains: the next delta is applied to it).
fn apply_wire_obj(from: &RawSnap, w_ints: Option<&[i32]>, w_bytes: Option<&[u8]>, osz: &BTreeMap<u16, u32>, full: bool) -> (Value, Option<RawSnap>) {
    let mut d = used_delta();
    let mut w: Vec<Warning> = Vec::new();
    let (rd, peak) = measured(|| {
        vh_common::guarded(CALL_MS, || match (w_ints, w_bytes) {
            (Some(x), _) => d.read_from_ints(&mut w, |t| osz.get(&t).copied(), &mut IntUnpacker::new(x)),
            (_, Some(b)) => d.read(&mut w, |t| osz.get(&t).copied(), &mut Unpacker::new(b)),
            _ => {
                d.clear();
                Ok(())
            }
        })
    });
    let inb = w_ints.map(|x| 4 * x.len()).or(w_bytes.map(|b| b.len())).unwrap_or(0);
    let mut o = json!({"read": out_of(&rd), "read_warn": warns(&w), "read_note": panic_note(&rd), "peak": peak, "inb": inb});
    if out_of(&rd) != "ok" {
        return (o, None);
    }
    // the parsed delta, as it is written out again
    if full {
        let rew = delta_write_ints(&d, osz);
        o["rewrite"] = wres(&rew);
    }
    let mut to = used_raw();
    let mut w2: Vec<Warning> = Vec::new();
    let (ra, peak2) = measured(|| vh_common::guarded(CALL_MS, || to.read_with_delta(&mut w2, from, &d)));
    o["apply"] = json!(out_of(&ra));
    o["apply_note"] = panic_note(&ra);
    o["apply_warn"] = warns(&w2);
    o["apply_peak"] = json!(peak2);
    if out_of(&ra) == "ok" {
        o["res"] = raw_obs(&to);
        o["res_wi"] = wres(&snap_write_ints(&to));
        if full {
            o["res_follow"] = follow_raw(&to);
        }
        return (o, Some(to));
    }
    (o, None)
}

/// What a client does with an accepted raw snapshot: write it (ints and bytes), read both back.
fn follow_raw(s: &RawSnap) -> Value {
    let wi = snap_write_ints(s);
    let wb = snap_write_bytes(s);
    let mut o = json!({"wi": wres(&wi), "wb_out": wres(&wb)["out"]});
    if let Ok(x) = &wi {
        let mut s2 = used_raw();
        let mut w: Vec<Warning> = Vec::new();
        let r = vh_common::guarded(CALL_MS, || s2.read_from_ints(&mut w, x));
        o["re_i"] = json!({"out": out_of(&r), "warn": warns(&w), "items": raw_items_out(&s2)});
    }
    if let Ok(b) = &wb {
        let mut s3 = used_raw();
        let mut w: Vec<Warning> = Vec::new();
        let mut buf = Vec::new();
        let r = vh_common::guarded(CALL_MS, || s3.read(&mut w, &mut buf, b));
        o["re_b"] = json!({"out": out_of(&r), "warn": warns(&w), "items": raw_items_out(&s3)});
    }
    o
}

// ---------------------------------------------------------------- the DDNet reference
thread_local! {
    static REF_OSZ: RefCell<BTreeMap<u16, u32>> = RefCell::new(BTreeMap::new());
    static REF_DELTAS: RefCell<BTreeMap<Vec<(u16, u32)>, reference::Delta>> = RefCell::new(BTreeMap::new());
}
fn ref_obj_size(t: u16) -> Option<u32> {
    REF_OSZ.with(|m| m.borrow().get(&t).copied())
}
/// The reference aborts the process on its own assertion failures; it is only called
/// with what it can express (types <= 0x7fff, pre-agreed types < 64 with sizes > 0,
/// snapshots within the limits).
fn reference_ok(a: &[RItem], b: &[RItem], osz: &BTreeMap<u16, u32>) -> bool {
    let lim = |x: &[RItem]| x.len() <= 1024 && 4 * (2 + 2 * x.len() + x.iter().map(|i| i.d.len()).sum::<usize>()) <= 65536;
    // CSnapshotDelta::CreateDelta writes into a 16384-integer buffer without a bounds check
    let delta_fits = 3 + a.len() + 3 * b.len() + b.iter().map(|i| i.d.len()).sum::<usize>() <= 16384;
    a.iter().chain(b.iter()).all(|i| i.t <= 0x7fff) && osz.iter().all(|(&t, &s)| t < 64 && s > 0 && s < 8000) && lim(a) && lim(b) && delta_fits
}
fn sorted_unsigned(x: &[RItem]) -> Vec<RItem> {
    let mut v = x.to_vec();
    v.sort_by_key(|i| ((i.t as u32) << 16) | i.i as u32);
    v
}
fn ref_build(items: &[RItem]) -> (reference::RawSnap, Option<Vec<i32>>) {
    let mut b = reference::RawBuilder::new();
    // the reference keeps insertion order; the format wants the order of the unsigned key
    for it in sorted_unsigned(items) {
        let _ = b.add_item(it.t, it.i, &it.d);
    }
    let mut s = b.finish();
    let mut buf = Vec::new();
    let mut out = vec![0i32; 16384];
    let w = s.write_to_ints(&mut buf, &mut out).ok().map(|x| x.to_vec());
    (s, w)
}
fn ref_delta(a: &reference::RawSnap, b: &reference::RawSnap, osz: &BTreeMap<u16, u32>) -> Option<Vec<i32>> {
    REF_OSZ.with(|m| *m.borrow_mut() = osz.clone());
    let key: Vec<(u16, u32)> = osz.iter().map(|(&t, &s)| (t, s)).collect();
    REF_DELTAS.with(|c| {
        let mut c = c.borrow_mut();
        let d = c.entry(key).or_insert_with(reference::Delta::new);
        let mut out = vec![0i32; 16384];
        d.create_raw_and_write_to_ints(a, b, ref_obj_size, &mut out).ok().map(|x| x.to_vec())
    })
}

// ---------------------------------------------------------------- op "pair" (C09)
fn op_pair(c: &Value) -> Value {
    let a_items = raw_items_in(&c["A"]);
    let b_items = raw_items_in(&c["B"]);
    let osz = osz_in(&c["osz"]);
    let arr = |v: &Value| if v.is_array() { v.clone() } else { json!([]) };
    let mut e = json!({"op": "pair", "A": arr(&c["A"]), "B": arr(&c["B"]), "osz": arr(&c["osz"])});
    let (a, outs_a) = build_raw(&a_items);
    let (b, outs_b) = build_raw(&b_items);
    e["build"] = json!(outs_a.iter().chain(outs_b.iter()).all(|o| o == "ok"));
    if e["build"] != json!(true) {
        e["build_outs"] = json!([outs_a, outs_b]);
        return e;
    }
    e["crc_a"] = json!(vh_common::guarded(CALL_MS, || a.crc()).unwrap_or(0));
    e["crc_b"] = json!(vh_common::guarded(CALL_MS, || b.crc()).unwrap_or(0));
    e["wa"] = wres(&snap_write_ints(&a));
    e["wb"] = wres(&snap_write_ints(&b));
    let mut d = Delta::new();
    let rc = vh_common::guarded(CALL_MS, || d.create_raw(&a, &b));
    e["create"] = json!(if rc.is_ok() { "ok" } else { "panic" });
    e["create_note"] = panic_note(&rc);
    if rc.is_ok() {
        let dw = delta_write_ints(&d, &osz);
        let dwb = delta_write_bytes(&d, &osz);
        e["dw"] = wres(&dw);
        e["dwb"] = wres(&dwb);
        if let Ok(x) = &dw {
            e["r_ints"] = apply_wire(&a, Some(x), None, &osz, false);
        }
        if let Ok(x) = &dwb {
            e["r_bytes"] = apply_wire(&a, None, Some(x), &osz, false);
        }
    }
    // the bundled DDNet reference on the same pair
    if reference_ok(&a_items, &b_items, &osz) {
        // a panic inside the reference *wrapper* is not an observation of libtw2: the clause is
        // skipped for the case and the reason is logged
        let built = vh_common::catch(|| (ref_build(&a_items), ref_build(&b_items)));
        if let Err(m) = &built {
            e["ref_skipped"] = json!(format!("{} @ {}", m, vh_common::last_panic_location()));
        }
        if let Ok(((ra, Some(rwa)), (rb, Some(rwb)))) = built {
            let rd = vh_common::catch(|| ref_delta(&ra, &rb, &osz)).unwrap_or(None);
            e["ref"] = json!({"wa": rwa, "wb": rwb, "dw_out": if rd.is_some() {"ok"} else {"capacity"}, "dw": rd.clone().unwrap_or_default()});
            if let Some(rd) = rd {
                // an empty reference delta is transmitted as "no delta": the cleared Delta
                e["r_ref"] = if rd.is_empty() { apply_wire(&a, None, None, &osz, false) } else { apply_wire(&a, Some(&rd), None, &osz, false) };
            }
        }
    }
    e
}

// ---------------------------------------------------------------- op "snap" (C10)
struct Add {
    ty: TypeId,
    i: u16,
    d: Vec<i32>,
}
fn adds_in(v: &Value) -> Vec<Add> {
    v.as_array()
        .map(|a| {
            a.iter()
                .map(|x| Add { ty: ty_in(&x["ty"]), i: x["i"].as_u64().unwrap() as u16, d: ints(&x["d"]) })
                .collect()
        })
        .unwrap_or_default()
}
fn view_out(s: &Snap) -> Result<Value, String> {
    vh_common::guarded(CALL_MS, || {
        let it = s.items();
        let announced = it.len();
        let v: Vec<Value> = it.map(|x| json!({"ty": ty_out(x.type_id), "i": x.id, "d": x.data})).collect();
        json!({"n": announced, "items": v})
    })
}
fn looks_out(s: &Snap, probes: &[(TypeId, u16)]) -> Result<Value, String> {
    vh_common::guarded(CALL_MS, || {
        Value::Array(
            probes
                .iter()
                .map(|&(ty, i)| match s.item(ty, i) {
                    Some(d) => json!({"some": true, "d": d}),
                    None => json!({"some": false, "d": []}),
                })
                .collect(),
        )
    })
}
fn snap_ints(s: &Snap) -> Result<Vec<i32>, String> {
    vh_common::guarded(CALL_MS, || {
        let mut buf = Vec::new();
        let mut out = vec![0i32; 16384 + 16];
        let r: Result<Vec<i32>, CapacityError> = s.write_to_ints(&mut buf, &mut out).map(|x| x.to_vec());
        r
    })
    .and_then(|r| r.map_err(|_| "capacity".to_string()))
}
fn snap_bytes(s: &Snap) -> Result<Vec<u8>, String> {
    vh_common::guarded(CALL_MS, || {
        let mut buf = Vec::new();
        let mut out: Vec<u8> = Vec::with_capacity(5 * 16400);
        let r: Result<Vec<u8>, CapacityError> = with_packer(&mut out, |p| s.write(&mut buf, p).map(|x| x.to_vec()));
        r
    })
    .and_then(|r| r.map_err(|_| "capacity".to_string()))
}
fn snap_obs(s: &Snap, probes: &[(TypeId, u16)]) -> Value {
    let view = view_out(s);
    let looks = looks_out(s, probes);
    let crc = vh_common::guarded(CALL_MS, || s.crc());
    json!({
        "view_out": if view.is_ok() {"ok"} else {"panic"}, "view": view.clone().unwrap_or(json!({"n": 0, "items": []})),
        "view_note": panic_note(&view),
        "look_out": if looks.is_ok() {"ok"} else {"panic"}, "look": looks.clone().unwrap_or(json!([])),
        "crc_out": if crc.is_ok() {"ok"} else {"panic"}, "crc": crc.unwrap_or(0),
    })
}
/// recycle() the snapshot, add `adds2`, finish, observe.
fn recycle_obs(s: Snap, adds2: &[Add], probes: &[(TypeId, u16)]) -> Value {
    let r = vh_common::guarded(CALL_MS, move || s.recycle());
    let mut o = json!({"out": if r.is_ok() {"ok"} else {"panic"}, "note": panic_note(&r)});
    if let Ok(mut b) = r {
        let mut outs = Vec::new();
        let mut notes = Vec::new();
        for a in adds2 {
            let r = vh_common::guarded(CALL_MS, || b.add_item(a.ty, a.i, &a.d));
            outs.push(out_of(&r));
            if r.is_err() {
                notes.push(panic_note(&r));
            }
        }
        let t = b.finish();
        o["outs"] = json!(outs);
        o["notes"] = json!(notes);
        o["obs"] = snap_obs(&t, probes);
        o["wi"] = wres(&snap_ints(&t));
    }
    o
}
/// A copy (read from a wire form or obtained by a delta) is itself written out and read back:
/// the serialisation laws hold for every snapshot, not only for built ones.
fn rewritten(t: &Snap, probes: &[(TypeId, u16)]) -> (Value, Value) {
    let wi = snap_ints(t);
    let mut re = Vec::new();
    let small = wi.as_ref().map(|x| x.len() < 400).unwrap_or(true);
    if let Ok(x) = &wi {
        let mut t2 = used_snap();
        let mut w: Vec<Warning> = Vec::new();
        let r = vh_common::guarded(CALL_MS, || t2.read_from_ints(&mut w, x));
        re.push(json!({"form": "ints", "out": out_of(&r), "warn": warns(&w), "obs": snap_obs(&t2, probes)}));
    }
    if small {
        match snap_bytes(t) {
            Ok(b) => {
                let mut t3 = used_snap();
                let mut w: Vec<Warning> = Vec::new();
                let mut buf = Vec::new();
                let r = vh_common::guarded(CALL_MS, || t3.read(&mut w, &mut buf, &b));
                re.push(json!({"form": "bytes", "out": out_of(&r), "warn": warns(&w), "obs": snap_obs(&t3, probes)}));
            }
            Err(m) => re.push(json!({"form": "bytes", "out": format!("write-{}", m), "warn": [], "obs": {}})),
        }
    }
    (wres(&wi), json!(re))
}
fn op_snap(c: &Value) -> Value {
    let adds = adds_in(&c["adds"]);
    let adds2 = adds_in(&c["adds2"]);
    let mut probes: Vec<(TypeId, u16)> = adds.iter().chain(adds2.iter()).map(|a| (a.ty, a.i)).collect();
    for p in c["probe"].as_array().cloned().unwrap_or_default() {
        probes.push((ty_in(&p[0]), p[1].as_u64().unwrap() as u16));
    }
    let jprobes: Vec<Value> = probes.iter().map(|&(t, i)| json!({"ty": ty_out(t), "i": i})).collect();
    let arr = |v: &Value| if v.is_array() { v.clone() } else { json!([]) };
    let mut e = json!({"op": "snap", "adds": arr(&c["adds"]), "adds2": arr(&c["adds2"]), "probes": jprobes});
    let mut b = Builder::new();
    let mut outs = Vec::new();
    for a in &adds {
        let r = vh_common::guarded(CALL_MS, || b.add_item(a.ty, a.i, &a.d));
        outs.push(out_of(&r));
    }
    e["outs"] = json!(outs);
    let s = b.finish();
    e["built"] = snap_obs(&s, &probes);
    let wi = snap_ints(&s);
    let wb = snap_bytes(&s);
    e["wi"] = wres(&wi);
    e["wb"] = wres(&wb);
    let want = |n: &str| c["copies"].as_array().map(|a| a.iter().any(|x| x.as_str() == Some(n))).unwrap_or(true);
    let mut copies: Vec<(String, Snap)> = Vec::new();
    if want("built") {
        copies.push(("built".to_string(), s.clone()));
    }
    let mut jc = Vec::new();
    if let (Ok(x), true) = (&wi, want("ints")) {
        let mut t = used_snap();
        let mut w: Vec<Warning> = Vec::new();
        let r = vh_common::guarded(CALL_MS, || t.read_from_ints(&mut w, x));
        let mut o = json!({"src": "ints", "out": out_of(&r), "warn": warns(&w), "obs": snap_obs(&t, &probes)});
        if out_of(&r) == "ok" {
            let (rewi, re) = rewritten(&t, &probes);
            o["rewi"] = rewi;
            o["re"] = re;
            copies.push(("ints".to_string(), t));
        }
        jc.push(o);
    }
    if let (Ok(x), true) = (&wb, want("bytes")) {
        let mut t = used_snap();
        let mut w: Vec<Warning> = Vec::new();
        let mut buf = Vec::new();
        let r = vh_common::guarded(CALL_MS, || t.read(&mut w, &mut buf, x));
        let mut o = json!({"src": "bytes", "out": out_of(&r), "warn": warns(&w), "obs": snap_obs(&t, &probes)});
        if out_of(&r) == "ok" {
            let (rewi, re) = rewritten(&t, &probes);
            o["rewi"] = rewi;
            o["re"] = re;
            copies.push(("bytes".to_string(), t));
        }
        jc.push(o);
    }
    if want("delta") {
        // the same snapshot obtained by applying a delta that went through its byte wire form with
        // explicit sizes; the delta is taken from the snapshot built by the call sequence `base`
        // (more, fewer, the same or other UUID types than the target), or from the empty snapshot
        let none = BTreeMap::new();
        let mut empty = Snap::empty();
        if c["base"].is_array() {
            let mut bb = Builder::new();
            for a in adds_in(&c["base"]) {
                let _ = vh_common::guarded(CALL_MS, || bb.add_item(a.ty, a.i, &a.d));
            }
            let cand = bb.finish();
            // Delta::create wants the common keys to agree on the item length (its contract)
            let raw_of = |x: &Snap| -> Option<RawSnap> {
                let w = snap_ints(x).ok()?;
                let mut r = RawSnap::empty();
                r.read_from_ints(&mut libtw2_warn::Ignore, &w).ok()?;
                Some(r)
            };
            let compatible = match (raw_of(&cand), raw_of(&s)) {
                (Some(ra), Some(rs)) => ra.items().all(|x| rs.item(x.raw_type_id, x.id).map(|d| d.len() == x.data.len()).unwrap_or(true)),
                _ => false,
            };
            e["base"] = c["base"].clone();
            e["base_used"] = json!(compatible);
            if compatible {
                empty = cand;
            }
        }
        let mut d = Delta::new();
        let rc = vh_common::guarded(CALL_MS, || d.create(&empty, &s));
        let mut o = json!({"src": "delta", "out": "panic", "warn": [], "obs": {}});
        if rc.is_ok() {
            if let Ok(db) = delta_write_bytes(&d, &none) {
                let mut d2 = used_delta();
                let mut w: Vec<Warning> = Vec::new();
                let r1 = vh_common::guarded(CALL_MS, || d2.read(&mut w, |_| None, &mut Unpacker::new(&db)));
                if out_of(&r1) == "ok" {
                    let mut t = used_snap();
                    let r = vh_common::guarded(CALL_MS, || t.read_with_delta(&mut w, &empty, &d2));
                    o = json!({"src": "delta", "out": out_of(&r), "warn": warns(&w), "obs": snap_obs(&t, &probes)});
                    if out_of(&r) == "ok" {
                        let (rewi, re) = rewritten(&t, &probes);
                        o["rewi"] = rewi;
                        o["re"] = re;
                        copies.push(("delta".to_string(), t));
                    }
                } else {
                    o["out"] = json!(out_of(&r1));
                }
            }
        }
        jc.push(o);
    }
    e["copies"] = json!(jc);
    let mut rec = Vec::new();
    for (src, t) in copies {
        let mut o = recycle_obs(t, &adds2, &probes);
        o["src"] = json!(src);
        rec.push(o);
    }
    e["rec"] = json!(rec);
    e
}

// ---------------------------------------------------------------- op "parse" (C11)
fn op_parse(c: &Value) -> Value {
    let kind = c["kind"].as_str().unwrap_or("si").to_string();
    let osz = osz_in(&c["osz"]);
    let adds2 = adds_in(&c["adds2"]);
    let arr = |v: &Value| if v.is_array() { v.clone() } else { json!([]) };
    let mut e = json!({"op": "parse", "kind": kind, "w": arr(&c["w"]), "osz": arr(&c["osz"]), "adds2": arr(&c["adds2"]),
                       "base": arr(&c["base"]), "other": arr(&c["other"])});
    let wi = ints(&c["w"]);
    let wb = bytes(&c["w"]);
    let is_bytes = kind == "sb" || kind == "db";
    e["inb"] = json!(if is_bytes { wb.len() } else { 4 * wi.len() });
    if kind == "si" || kind == "sb" {
        // raw level
        let mut raw = used_raw();
        let mut w: Vec<Warning> = Vec::new();
        let (r, peak) = measured(|| {
            vh_common::guarded(CALL_MS, || {
                if is_bytes {
                    let mut buf = Vec::new();
                    raw.read(&mut w, &mut buf, &wb)
                } else {
                    raw.read_from_ints(&mut w, &wi)
                }
            })
        });
        e["raw"] = json!({"out": out_of(&r), "note": panic_note(&r), "warn": warns(&w), "peak": peak});
        if out_of(&r) == "ok" {
            e["raw"]["obs"] = raw_obs(&raw);
            e["raw"]["follow"] = follow_raw(&raw);
            // diff against / from another accepted snapshot where the item sizes agree
            if let Some(_) = c["other"].as_array() {
                let mut other = RawSnap::empty();
                let ro = other.read_from_ints(&mut libtw2_warn::Ignore, &ints(&c["other"]));
                if ro.is_ok() {
                    let compatible = raw.items().all(|x| other.item(x.raw_type_id, x.id).map(|d| d.len() == x.data.len()).unwrap_or(true));
                    if compatible {
                        let none: BTreeMap<u16, u32> = BTreeMap::new();
                        let mut d = Delta::new();
                        let r1 = vh_common::guarded(CALL_MS, || d.create_raw(&other, &raw));
                        let mut o = json!({"create": if r1.is_ok() {"ok"} else {"panic"}, "note": panic_note(&r1)});
                        if r1.is_ok() {
                            if let Ok(x) = delta_write_ints(&d, &none) {
                                o["r"] = apply_wire(&other, Some(&x), None, &none, false);
                            }
                        }
                        e["raw"]["diff"] = o;
                    }
                }
            }
        }
        // Snap level (adds the registry check), then the follow-up operations of a client
        let mut s = used_snap();
        let mut w2: Vec<Warning> = Vec::new();
        let (r2, peak2) = measured(|| {
            vh_common::guarded(CALL_MS, || {
                if is_bytes {
                    let mut buf = Vec::new();
                    s.read(&mut w2, &mut buf, &wb)
                } else {
                    s.read_from_ints(&mut w2, &wi)
                }
            })
        });
        e["snap"] = json!({"out": out_of(&r2), "note": panic_note(&r2), "warn": warns(&w2), "peak": peak2});
        if out_of(&r2) == "ok" {
            let probes: Vec<(TypeId, u16)> = adds2.iter().map(|a| (a.ty, a.i)).collect();
            e["snap"]["obs"] = snap_obs(&s, &probes);
            e["snap"]["wi"] = wres(&snap_ints(&s));
            e["snap"]["wb_out"] = wres(&snap_bytes(&s))["out"].clone();
            e["snap"]["rec"] = recycle_obs(s, &adds2, &probes);
        }
    } else {
        let mut base = RawSnap::empty();
        let rb = base.read_from_ints(&mut libtw2_warn::Ignore, &ints(&c["base"]));
        e["base_ok"] = json!(rb.is_ok());
        e["base_items"] = raw_items_out(&base);
        e["d"] = if is_bytes { apply_wire(&base, None, Some(&wb), &osz, true) } else { apply_wire(&base, Some(&wi), None, &osz, true) };
        // the same through the Snap level (adds the registry check of the result)
        let mut sbase = Snap::empty();
        if sbase.read_from_ints(&mut libtw2_warn::Ignore, &ints(&c["base"])).is_ok() {
            let mut d = used_delta();
            let mut w: Vec<Warning> = Vec::new();
            let r1 = vh_common::guarded(CALL_MS, || {
                if is_bytes {
                    d.read(&mut w, |t| osz.get(&t).copied(), &mut Unpacker::new(&wb))
                } else {
                    d.read_from_ints(&mut w, |t| osz.get(&t).copied(), &mut IntUnpacker::new(&wi))
                }
            });
            if out_of(&r1) == "ok" {
                let mut t = used_snap();
                let r2 = vh_common::guarded(CALL_MS, || t.read_with_delta(&mut w, &sbase, &d));
                let mut o = json!({"out": out_of(&r2), "note": panic_note(&r2)});
                if out_of(&r2) == "ok" {
                    let probes: Vec<(TypeId, u16)> = adds2.iter().map(|a| (a.ty, a.i)).collect();
                    o["obs"] = snap_obs(&t, &probes);
                    o["rec"] = recycle_obs(t, &adds2, &probes);
                }
                e["snap"] = o;
            }
        }
    }
    e
}

// ---------------------------------------------------------------- op "chain" (C09 / C10 / C11)
// A sender builds snapshot after snapshot and diffs each against one of its earlier ones; a
// receiver applies every delta to a snapshot it *obtained by the previous applications* (never
// to a freshly built one). The objects live as long as the chain: the sender's Delta, the
// receiver's Delta (applied once more by an "again" step without being read again), builders
// recycled from old snapshot objects, receiving objects that held an older snapshot, written and
// re-read intermediates. One event per step; indices in the steps are 1-based (hist[1] and
// store[1] are the empty snapshot); entries more than KEEP behind the newest are forgotten
// (the empty snapshot at index 1 stays: a delta against it is a full snapshot).
const KEEP: usize = 4;
enum Wire {
    Ints(Vec<i32>),
    Bytes(Vec<u8>),
}
struct Chain {
    snap_level: bool,
    n: usize,
    adds2: Vec<Add>,
    jadds2: Value,
    probes: Vec<(TypeId, u16)>,
    jprobes: Value,
    s_raw: Vec<RawSnap>,
    r_raw: Vec<RawSnap>,
    /// the receiver chain fed by the deltas of the DDNet reference (parallel to `r_raw`)
    ref_raw: Vec<Option<RawSnap>>,
    s_snap: Vec<Snap>,
    r_snap: Vec<Snap>,
    s_delta: Delta,
    r_delta: Delta,
    have_delta: bool,
    /// sender index -> receiver index holding the same snapshot (steps that were in sync)
    pair: Vec<Option<usize>>,
}
fn default_adds2() -> Value {
    json!([{"ty": [1, -1, i32::MIN, i32::MAX], "i": 9, "d": [1]}, {"ty": [0, 0, 0, 7], "i": 0, "d": [2, 3]}, {"ty": [5], "i": 1, "d": [4]}])
}
impl Chain {
    fn new(c: &Value) -> Chain {
        let steps = c["steps"].as_array().cloned().unwrap_or_default();
        let snap_level = c["lvl"].as_str().map(|l| l == "snap").unwrap_or_else(|| steps.first().map(|s| s["lvl"] == "snap").unwrap_or(false));
        let jadds2 = if c["adds2"].is_array() { c["adds2"].clone() } else { default_adds2() };
        let adds2 = adds_in(&jadds2);
        let mut probes: Vec<(TypeId, u16)> = Vec::new();
        let push = |p: (TypeId, u16), v: &mut Vec<(TypeId, u16)>| {
            if !v.contains(&p) {
                v.push(p);
            }
        };
        if snap_level {
            for s in &steps {
                for a in adds_in(&s["adds"]) {
                    push((a.ty, a.i), &mut probes);
                }
            }
            for a in &adds2 {
                push((a.ty, a.i), &mut probes);
            }
            for p in c["probe"].as_array().cloned().unwrap_or_default() {
                push((ty_in(&p[0]), p[1].as_u64().unwrap_or(0) as u16), &mut probes);
            }
            push((TypeId::Ordinal(3), 0), &mut probes);
        }
        let jprobes = Value::Array(probes.iter().map(|&(t, i)| json!({"ty": ty_out(t), "i": i})).collect());
        Chain {
            snap_level,
            n: 0,
            adds2,
            jadds2,
            probes,
            jprobes,
            s_raw: vec![RawSnap::empty()],
            r_raw: vec![RawSnap::empty()],
            ref_raw: vec![Some(RawSnap::empty())],
            s_snap: vec![Snap::empty()],
            r_snap: vec![Snap::empty()],
            s_delta: Delta::new(),
            r_delta: Delta::new(),
            have_delta: false,
            pair: vec![Some(0)],
        }
    }
    fn n_hist(&self) -> usize {
        if self.snap_level { self.s_snap.len() } else { self.s_raw.len() }
    }
    fn n_store(&self) -> usize {
        if self.snap_level { self.r_snap.len() } else { self.r_raw.len() }
    }
    fn header(&self) -> Value {
        let mut h = json!({"op": "chain", "lvl": if self.snap_level {"snap"} else {"raw"}});
        if self.snap_level {
            h["adds2"] = self.jadds2.clone();
            h["probe"] = Value::Array(self.probes.iter().map(|&(t, i)| json!([ty_out(t), i])).collect());
        }
        h
    }
}
/// index `j` (0-based) of a sequence of length `len` can still be referred to
fn remembered(j: usize, len: usize) -> bool {
    j < len && (j == 0 || j + KEEP >= len)
}
fn items_of_raw(s: &RawSnap) -> Vec<RItem> {
    s.items().map(|x| RItem { t: x.raw_type_id, i: x.id, d: x.data.to_vec() }).collect()
}
fn raw_ints_len(s: &RawSnap) -> usize {
    2 + s.items().map(|x| 2 + x.data.len()).sum::<usize>()
}
fn reuse_raw(store: &[RawSnap], rb: usize, reuse: &str) -> RawSnap {
    match reuse {
        "prev" if rb >= 1 => store[rb - 1].clone(),
        "base" => store[rb].clone(),
        _ => RawSnap::empty(),
    }
}
fn reuse_snap(store: &[Snap], rb: usize, reuse: &str) -> Snap {
    match reuse {
        "prev" if rb >= 1 => store[rb - 1].clone(),
        "base" => store[rb].clone(),
        _ => Snap::empty(),
    }
}
/// Reads the delta (or keeps the one read last: "again") and applies it to store[rb].
fn chain_receive(ch: &mut Chain, rb: usize, wire: Option<(&Wire, &BTreeMap<u16, u32>)>, s: &Value) -> Value {
    let mut o = json!({});
    if let Some((w, osz)) = wire {
        let mut wn: Vec<Warning> = Vec::new();
        let d = &mut ch.r_delta;
        let (rd, peak) = measured(|| {
            vh_common::guarded(CALL_MS, || match w {
                Wire::Ints(x) => d.read_from_ints(&mut wn, |t| osz.get(&t).copied(), &mut IntUnpacker::new(x)),
                Wire::Bytes(b) => d.read(&mut wn, |t| osz.get(&t).copied(), &mut Unpacker::new(b)),
            })
        });
        o["read"] = json!(out_of(&rd));
        o["read_warn"] = warns(&wn);
        o["read_note"] = panic_note(&rd);
        o["peak"] = json!(peak);
        o["inb"] = json!(match w {
            Wire::Ints(x) => 4 * x.len(),
            Wire::Bytes(b) => b.len(),
        });
        ch.have_delta = out_of(&rd) == "ok";
        if !ch.have_delta {
            o["stored"] = json!(false);
            return o;
        }
    } else if !ch.have_delta {
        o["read"] = json!("none");
        o["stored"] = json!(false);
        return o;
    } else {
        o["read"] = json!("kept");
    }
    let reuse = s["reuse"].as_str().unwrap_or("none").to_string();
    let reread = s["reread"].as_str().unwrap_or("no").to_string();
    let mut w2: Vec<Warning> = Vec::new();
    if !ch.snap_level {
        let mut to = reuse_raw(&ch.r_raw, rb, &reuse);
        let (ra, peak2) = {
            let Chain { r_raw, r_delta, .. } = &*ch;
            measured(|| vh_common::guarded(CALL_MS, || to.read_with_delta(&mut w2, &r_raw[rb], r_delta)))
        };
        o["apply"] = json!(out_of(&ra));
        o["apply_note"] = panic_note(&ra);
        o["apply_warn"] = warns(&w2);
        o["apply_peak"] = json!(peak2);
        o["base_ints"] = json!(raw_ints_len(&ch.r_raw[rb]));
        if out_of(&ra) != "ok" {
            o["stored"] = json!(false);
            return o;
        }
        o["res"] = raw_obs(&to);
        let wi = snap_write_ints(&to);
        o["res_wi"] = wres(&wi);
        if reread != "no" {
            // the intermediate is written out and read back: the next delta is applied to the re-read object
            let mut t2 = reuse_raw(&ch.r_raw, rb, &reuse);
            let mut w3: Vec<Warning> = Vec::new();
            let r = if reread == "bytes" {
                match snap_write_bytes(&to) {
                    Ok(b) => {
                        let mut buf = Vec::new();
                        out_of(&vh_common::guarded(CALL_MS, || t2.read(&mut w3, &mut buf, &b)))
                    }
                    Err(m) => format!("write-{}", m),
                }
            } else {
                match &wi {
                    Ok(x) => out_of(&vh_common::guarded(CALL_MS, || t2.read_from_ints(&mut w3, x))),
                    Err(m) => format!("write-{}", m),
                }
            };
            o["rr"] = json!({"form": reread, "out": r, "warn": warns(&w3), "wi": wres(&snap_write_ints(&t2)), "crc": vh_common::guarded(CALL_MS, || t2.crc()).unwrap_or(0)});
            if r == "ok" {
                to = t2;
            }
        }
        ch.r_raw.push(to);
    } else {
        let mut to = reuse_snap(&ch.r_snap, rb, &reuse);
        let (ra, peak2) = {
            let Chain { r_snap, r_delta, .. } = &*ch;
            measured(|| vh_common::guarded(CALL_MS, || to.read_with_delta(&mut w2, &r_snap[rb], r_delta)))
        };
        o["apply"] = json!(out_of(&ra));
        o["apply_note"] = panic_note(&ra);
        o["apply_warn"] = warns(&w2);
        o["apply_peak"] = json!(peak2);
        if out_of(&ra) != "ok" {
            o["stored"] = json!(false);
            return o;
        }
        o["obs"] = snap_obs(&to, &ch.probes);
        let wi = snap_ints(&to);
        o["res_wi"] = wres(&wi);
        o["rec"] = recycle_obs(to.clone(), &ch.adds2, &ch.probes);
        if reread != "no" {
            let mut t2 = reuse_snap(&ch.r_snap, rb, &reuse);
            let mut w3: Vec<Warning> = Vec::new();
            let r = if reread == "bytes" {
                match snap_bytes(&to) {
                    Ok(b) => {
                        let mut buf = Vec::new();
                        out_of(&vh_common::guarded(CALL_MS, || t2.read(&mut w3, &mut buf, &b)))
                    }
                    Err(m) => format!("write-{}", m),
                }
            } else {
                match &wi {
                    Ok(x) => out_of(&vh_common::guarded(CALL_MS, || t2.read_from_ints(&mut w3, x))),
                    Err(m) => format!("write-{}", m),
                }
            };
            o["rr"] = json!({"form": reread, "out": r, "warn": warns(&w3), "wi": wres(&snap_ints(&t2)), "obs": snap_obs(&t2, &ch.probes)});
            if r == "ok" {
                to = t2;
            }
        }
        ch.r_snap.push(to);
    }
    o["stored"] = json!(true);
    o
}
fn chain_step(ch: &mut Chain, s: &Value) -> Value {
    ch.n += 1;
    let mut e = json!({"op": "chain", "n": ch.n, "lvl": if ch.snap_level {"snap"} else {"raw"}, "step": s.clone(), "hdr": ch.header()});
    if ch.snap_level {
        e["probes"] = ch.jprobes.clone();
        e["adds2"] = ch.jadds2.clone();
    }
    let kind = s["k"].as_str().unwrap_or("next").to_string();
    let rb = (s["rb"].as_u64().unwrap_or(1) as usize).saturating_sub(1);
    if !remembered(rb, ch.n_store()) {
        e["bad_index"] = json!(true);
        return e;
    }
    if kind == "again" {
        e["rcv"] = chain_receive(ch, rb, None, s);
        if e["rcv"]["stored"] == json!(true) && !ch.snap_level {
            ch.ref_raw.push(None);
        }
        return e;
    }
    let sb = (s["sb"].as_u64().unwrap_or(1) as usize).saturating_sub(1);
    if !remembered(sb, ch.n_hist()) {
        e["bad_index"] = json!(true);
        return e;
    }
    let osz = osz_in(&s["osz"]);
    let via_bytes = s["via"] == json!("bytes");
    let nh = ch.n_hist();
    let sync = ch.pair[sb] == Some(rb);
    let mut new_ref: Option<RawSnap> = None;
    // ---- the sender builds the next snapshot
    let contract;
    if !ch.snap_level {
        let items = raw_items_in(&s["items"]);
        let mut b = if s["bld"] == json!("recycle") {
            // a builder recycled from an old snapshot object of the sender
            let old = if nh > KEEP + 1 { std::mem::take(&mut ch.s_raw[nh - KEEP - 1]) } else { ch.s_raw[nh - 1].clone() };
            old.recycle()
        } else {
            RawBuilder::new()
        };
        let mut outs = Vec::new();
        for it in &items {
            let r = vh_common::guarded(CALL_MS, || b.add_item(it.t, it.i, &it.d));
            outs.push(out_of(&r));
        }
        let bs = b.finish();
        e["snd"] = json!({"outs": outs, "wi": wres(&snap_write_ints(&bs)), "crc": vh_common::guarded(CALL_MS, || bs.crc()).unwrap_or(0)});
        let a = &ch.s_raw[sb];
        // contracts of Delta::create (common keys agree on the length) and Delta::write (pre-agreed sizes)
        let compatible = bs.items().all(|x| a.item(x.raw_type_id, x.id).map(|d| d.len() == x.data.len()).unwrap_or(true));
        let writable = bs.items().all(|x| osz.get(&x.raw_type_id).map(|&z| z as usize == x.data.len()).unwrap_or(true));
        contract = compatible && writable;
        if contract {
            let rc = {
                let Chain { s_delta, s_raw, .. } = &mut *ch;
                vh_common::guarded(CALL_MS, || s_delta.create_raw(&s_raw[sb], &bs))
            };
            e["create"] = json!(if rc.is_ok() { "ok" } else { "panic" });
            e["create_note"] = panic_note(&rc);
            if rc.is_ok() {
                // the DDNet reference on the same step; its delta goes to the receiver chain fed by reference deltas
                let a_items = items_of_raw(&ch.s_raw[sb]);
                let b_items = items_of_raw(&bs);
                if reference_ok(&a_items, &b_items, &osz) {
                    let built = vh_common::catch(|| (ref_build(&a_items), ref_build(&b_items)));
                    if let Ok(((ra, Some(_)), (rbb, Some(rwb)))) = built {
                        let rd = vh_common::catch(|| ref_delta(&ra, &rbb, &osz)).unwrap_or(None);
                        e["ref"] = json!({"wb": rwb, "dw_out": if rd.is_some() {"ok"} else {"capacity"}, "dw": rd.clone().unwrap_or_default()});
                        if let (Some(rd), Some(Some(base))) = (rd, ch.ref_raw.get(rb)) {
                            let (o, obj) = if rd.is_empty() { apply_wire_obj(base, None, None, &osz, false) } else { apply_wire_obj(base, Some(&rd), None, &osz, false) };
                            e["r_ref"] = o;
                            new_ref = obj;
                        }
                    }
                }
            }
        }
        ch.s_raw.push(bs);
    } else {
        let src = s["src"]["k"].as_str().unwrap_or("fresh").to_string();
        let j = (s["src"]["j"].as_u64().unwrap_or(1) as usize).saturating_sub(1);
        let o_ = (s["src"]["o"].as_u64().unwrap_or(1) as usize).saturating_sub(1);
        if src != "fresh" && (!remembered(j, nh) || (src == "like" && !remembered(o_, nh))) {
            e["bad_index"] = json!(true);
            return e;
        }
        let rb_ = vh_common::guarded(CALL_MS, || match src.as_str() {
            "recycle" => ch.s_snap[j].clone().recycle(),
            "like" => ch.s_snap[o_].clone().recycle_like(&ch.s_snap[j]),
            _ => Builder::new(),
        });
        let adds = adds_in(&s["adds"]);
        let mut snd = json!({"src_out": if rb_.is_ok() {"ok"} else {"panic"}, "src_note": panic_note(&rb_)});
        let mut b = match rb_ {
            Ok(b) => b,
            Err(_) => {
                e["snd"] = snd;
                return e;
            }
        };
        let mut outs = Vec::new();
        for a in &adds {
            let r = vh_common::guarded(CALL_MS, || b.add_item(a.ty, a.i, &a.d));
            outs.push(out_of(&r));
        }
        let bs = b.finish();
        let wi = snap_ints(&bs);
        snd["outs"] = json!(outs);
        snd["wi"] = wres(&wi);
        snd["obs"] = snap_obs(&bs, &ch.probes);
        e["snd"] = snd;
        let raw_of = |x: &Snap| -> Option<RawSnap> {
            let w = snap_ints(x).ok()?;
            let mut r = RawSnap::empty();
            r.read_from_ints(&mut libtw2_warn::Ignore, &w).ok()?;
            Some(r)
        };
        contract = match (raw_of(&ch.s_snap[sb]), raw_of(&bs)) {
            (Some(ra), Some(rs)) => {
                rs.items().all(|x| ra.item(x.raw_type_id, x.id).map(|d| d.len() == x.data.len()).unwrap_or(true))
                    && rs.items().all(|x| osz.get(&x.raw_type_id).map(|&z| z as usize == x.data.len()).unwrap_or(true))
            }
            _ => false,
        };
        if contract {
            let rc = {
                let Chain { s_delta, s_snap, .. } = &mut *ch;
                vh_common::guarded(CALL_MS, || s_delta.create(&s_snap[sb], &bs))
            };
            e["create"] = json!(if rc.is_ok() { "ok" } else { "panic" });
            e["create_note"] = panic_note(&rc);
        }
        ch.s_snap.push(bs);
    }
    e["contract"] = json!(contract);
    let mut stored = false;
    if contract && e["create"] == json!("ok") {
        // ---- the delta travels in its wire form
        let dw = delta_write_ints(&ch.s_delta, &osz);
        e["dw"] = wres(&dw);
        let wire = if via_bytes {
            let x = delta_write_bytes(&ch.s_delta, &osz);
            e["dwb"] = wres(&x);
            x.ok().map(Wire::Bytes)
        } else {
            dw.ok().map(Wire::Ints)
        };
        // ---- the receiver applies it to the snapshot it obtained earlier
        if let Some(w) = wire {
            let r = chain_receive(ch, rb, Some((&w, &osz)), s);
            stored = r["stored"] == json!(true);
            e["rcv"] = r;
        }
    }
    if stored && !ch.snap_level {
        ch.ref_raw.push(new_ref);
    }
    let ns = ch.n_store();
    ch.pair.push(if sync && stored { Some(ns - 1) } else { None });
    // forget what is out of reach (keeps long chains cheap)
    let (nh, ns) = (ch.n_hist(), ch.n_store());
    if nh > KEEP + 2 {
        if ch.snap_level { ch.s_snap[nh - KEEP - 2] = Snap::empty(); } else { ch.s_raw[nh - KEEP - 2] = RawSnap::empty(); }
    }
    if ns > KEEP + 2 {
        if ch.snap_level { ch.r_snap[ns - KEEP - 2] = Snap::empty(); } else { ch.r_raw[ns - KEEP - 2] = RawSnap::empty(); ch.ref_raw[ns - KEEP - 2] = None; }
    }
    e
}
fn op_chain(c: &Value) -> Vec<Value> {
    let mut ch = Chain::new(c);
    let mut out = Vec::new();
    for s in c["steps"].as_array().cloned().unwrap_or_default() {
        out.push(chain_step(&mut ch, &s));
    }
    out
}

// ---------------------------------------------------------------- op "api"
// The public functions of snap.rs / format.rs that the other ops only use indirectly: key
// helpers, UUID <-> item data, item deltas, the header codecs, enumeration order and announced
// lengths of the item iterators, look-ups of absent keys, buffers that are too small, finish on
// an empty builder, recycled raw builders, TypeId conversions, one delta written with several
// size tables. Everything observed is logged; SnapAlgTrace.tla (JudgeApi) judges.
fn opt_ints(v: &Value) -> Option<Vec<i32>> {
    if v.is_array() { Some(ints(v)) } else { None }
}
fn item_delta_out(r: &Result<Result<(), libtw2_snapshot::format::DeltaDifferingSizes>, String>) -> &'static str {
    match r {
        Err(_) => "panic",
        Ok(Err(_)) => "DeltaDifferingSizes",
        Ok(Ok(())) => "ok",
    }
}
fn op_api(c: &Value) -> Value {
    use libtw2_snapshot::format;
    let arr = |v: &Value| if v.is_array() { v.clone() } else { json!([]) };
    let mut e = json!({"op": "api", "keys": arr(&c["keys"]), "kints": arr(&c["kints"]), "udata": arr(&c["udata"]), "dpairs": arr(&c["dpairs"]),
                       "hw": arr(&c["hw"]), "items": arr(&c["items"]), "probe": arr(&c["probe"]), "adds": arr(&c["adds"]), "sprobe": arr(&c["sprobe"]),
                       "osz": arr(&c["osz"]), "osz2": arr(&c["osz2"]), "cap": c["cap"].as_u64().unwrap_or(1)});
    // ---- key helpers
    let mut ko = Vec::new();
    for k in c["keys"].as_array().cloned().unwrap_or_default() {
        let (t, i) = (k[0].as_u64().unwrap() as u16, k[1].as_u64().unwrap() as u16);
        let r = vh_common::guarded(CALL_MS, || {
            let x = format::key(t, i);
            let it = format::RawItem { raw_type_id: t, id: i, data: &[] };
            let fk = format::RawItem::from_key(x, &[]);
            json!({"key": x, "t": format::key_to_raw_type_id(x), "i": format::key_to_id(x), "rk": it.key(), "fk": [fk.raw_type_id, fk.id]})
        });
        ko.push(r.unwrap_or(json!({"panic": true})));
    }
    e["keys_out"] = json!(ko);
    let mut xo = Vec::new();
    for x in ints(&c["kints"]) {
        let r = vh_common::guarded(CALL_MS, || {
            let (t, i) = (format::key_to_raw_type_id(x), format::key_to_id(x));
            json!({"t": t, "i": i, "back": format::key(t, i)})
        });
        xo.push(r.unwrap_or(json!({"panic": true})));
    }
    e["kints_out"] = json!(xo);
    // ---- UUID <-> item data
    let mut uo = Vec::new();
    for d in c["udata"].as_array().cloned().unwrap_or_default() {
        let d = ints(&d);
        let r = vh_common::guarded(CALL_MS, || {
            let mut w: Vec<Warning> = Vec::new();
            match format::item_data_to_uuid(&mut w, &d) {
                Some(u) => json!({"some": true, "bytes": u.as_bytes().to_vec(), "back": format::uuid_to_item_data(u).to_vec(), "warn": warns(&w),
                                  "ty": ty_out(TypeId::from(u))}),
                None => json!({"some": false, "bytes": [], "back": [], "warn": warns(&w), "ty": []}),
            }
        });
        uo.push(r.unwrap_or(json!({"panic": true})));
    }
    e["udata_out"] = json!(uo);
    // ---- item deltas
    let mut po = Vec::new();
    for p in c["dpairs"].as_array().cloned().unwrap_or_default() {
        let a = opt_ints(&p["a"]);
        let b = ints(&p["b"]);
        let mut delta = vec![0i32; b.len()];
        let r1 = vh_common::guarded(CALL_MS, || format::create_item_delta(a.as_deref(), &b, &mut delta));
        let mut o = json!({"create": item_delta_out(&r1), "delta": delta});
        if item_delta_out(&r1) == "ok" {
            let mut out = vec![0i32; delta.len()];
            let r2 = vh_common::guarded(CALL_MS, || format::apply_item_delta(a.as_deref(), &delta, &mut out));
            o["apply"] = json!(item_delta_out(&r2));
            o["out"] = json!(out);
        }
        // the difference `b` itself applied to `a` (sizes may disagree: an error, not a panic)
        let mut out2 = vec![0i32; b.len()];
        let r3 = vh_common::guarded(CALL_MS, || format::apply_item_delta(a.as_deref(), &b, &mut out2));
        o["patch"] = json!(item_delta_out(&r3));
        o["patched"] = json!(out2);
        po.push(o);
    }
    e["dpairs_out"] = json!(po);
    // ---- header codecs
    if c["hw"].is_array() {
        let hw = ints(&c["hw"]);
        let hb = enc_ints(&hw);
        let sh = |r: Result<Result<format::SnapHeader, libtw2_snapshot::snap::Error>, String>| match r {
            Err(_) => json!({"out": "panic"}),
            Ok(Err(x)) => json!({"out": format!("{:?}", x)}),
            Ok(Ok(h)) => json!({"out": "ok", "data_size": h.data_size, "num_items": h.num_items}),
        };
        let dh = |r: Result<Result<format::DeltaHeader, libtw2_snapshot::snap::Error>, String>, w: &[Warning]| match r {
            Err(_) => json!({"out": "panic"}),
            Ok(Err(x)) => json!({"out": format!("{:?}", x)}),
            Ok(Ok(h)) => json!({"out": "ok", "nd": h.num_deleted_items, "nu": h.num_updated_items, "warn": warns(w)}),
        };
        let mut o = json!({"bytes": jbytes(&hb)});
        o["snap_obj"] = sh(vh_common::guarded(CALL_MS, || format::SnapHeader::decode_obj(&mut IntUnpacker::new(&hw))));
        let mut w0: Vec<Warning> = Vec::new();
        o["snap_bytes"] = sh(vh_common::guarded(CALL_MS, || format::SnapHeader::decode(&mut w0, &mut Unpacker::new(&hb))));
        let mut w1: Vec<Warning> = Vec::new();
        let r1 = vh_common::guarded(CALL_MS, || format::DeltaHeader::decode_obj(&mut w1, &mut IntUnpacker::new(&hw)));
        o["delta_obj"] = dh(r1, &w1);
        let mut w2: Vec<Warning> = Vec::new();
        let r2 = vh_common::guarded(CALL_MS, || format::DeltaHeader::decode(&mut w2, &mut Unpacker::new(&hb)));
        o["delta_bytes"] = dh(r2, &w2);
        if hw.len() >= 2 {
            let h = format::DeltaHeader { num_deleted_items: hw[0], num_updated_items: hw[1] };
            o["enc_obj"] = json!(vh_common::guarded(CALL_MS, || h.encode_obj().to_vec()).unwrap_or_default());
            let eb = vh_common::guarded(CALL_MS, || {
                let mut buf: Vec<u8> = Vec::with_capacity(32);
                with_packer(&mut buf, |p| h.encode(p).map(|x| x.to_vec()))
            });
            o["enc_bytes"] = match eb {
                Ok(Ok(b)) => json!({"out": "ok", "v": jbytes(&b)}),
                Ok(Err(_)) => json!({"out": "capacity", "v": []}),
                Err(_) => json!({"out": "panic", "v": []}),
            };
        }
        e["hdr_out"] = o;
    }
    // ---- the raw snapshot: enumeration, look-ups, short buffers, recycling
    let items = raw_items_in(&c["items"]);
    let (raw, outs) = build_raw(&items);
    let cap = c["cap"].as_u64().unwrap_or(1) as usize;
    let enumr = vh_common::guarded(CALL_MS, || {
        let mut it = raw.items();
        let mut order = Vec::new();
        let mut lens = vec![it.len()];
        let mut hints = vec![json!([it.size_hint().0, it.size_hint().1])];
        while let Some(x) = it.next() {
            order.push(json!([x.raw_type_id, x.id]));
            lens.push(it.len());
            hints.push(json!([it.size_hint().0, it.size_hint().1]));
        }
        json!({"order": order, "lens": lens, "hints": hints})
    });
    let looks = vh_common::guarded(CALL_MS, || {
        Value::Array(c["probe"].as_array().cloned().unwrap_or_default().iter().map(|p| {
            match raw.item(p[0].as_u64().unwrap() as u16, p[1].as_u64().unwrap() as u16) {
                Some(d) => json!({"some": true, "d": d}),
                None => json!({"some": false, "d": []}),
            }
        }).collect())
    });
    let wi = snap_write_ints(&raw);
    let wb = snap_write_bytes(&raw);
    let mut ro = json!({"outs": outs, "enum_out": if enumr.is_ok() {"ok"} else {"panic"}, "enum": enumr.unwrap_or(json!({"order": [], "lens": [], "hints": []})),
                        "look_out": if looks.is_ok() {"ok"} else {"panic"}, "look": looks.unwrap_or(json!([])),
                        "crc": vh_common::guarded(CALL_MS, || raw.crc()).unwrap_or(0), "wi": wres(&wi), "wb": wres(&wb)});
    if let (Ok(x), Ok(b)) = (&wi, &wb) {
        // buffers that are `cap` too short, and exactly long enough
        let short_i = vh_common::guarded(CALL_MS, || {
            let mut buf = Vec::new();
            let mut out = vec![0i32; x.len().saturating_sub(cap)];
            raw.write_to_ints(&mut buf, &mut out).map(|r| r.len()).map_err(|_| ())
        });
        let exact_i = vh_common::guarded(CALL_MS, || {
            let mut buf = Vec::new();
            let mut out = vec![0i32; x.len()];
            raw.write_to_ints(&mut buf, &mut out).map(|r| r.to_vec()).map_err(|_| ())
        });
        let short_b = vh_common::guarded(CALL_MS, || {
            let mut buf = Vec::new();
            let mut out: Vec<u8> = Vec::with_capacity(b.len().saturating_sub(cap));
            with_packer(&mut out, |p| raw.write(&mut buf, p).map(|r| r.len()).map_err(|_| ()))
        });
        let so = |r: &Result<Result<usize, ()>, String>| match r { Err(_) => "panic", Ok(Err(())) => "capacity", Ok(Ok(_)) => "ok" };
        ro["short_ints"] = json!(so(&short_i));
        ro["short_bytes"] = json!(so(&short_b));
        ro["exact_ints"] = match exact_i { Err(_) => json!({"out": "panic", "v": []}), Ok(Err(())) => json!({"out": "capacity", "v": []}), Ok(Ok(v)) => json!({"out": "ok", "v": v}) };
    }
    // the snapshot recycled into a raw builder: nothing of it is left, the items go in reversed
    let rec = vh_common::guarded(CALL_MS, || {
        let mut b = raw.clone().recycle();
        let mut outs = Vec::new();
        for it in items.iter().rev() {
            outs.push(match b.add_item(it.t, it.i, &it.d) { Ok(()) => "ok".to_string(), Err(x) => format!("{:?}", x) });
        }
        let s2 = b.finish();
        json!({"outs": outs, "wi": wres(&snap_write_ints(&s2))})
    });
    ro["recycled_out"] = json!(if rec.is_ok() { "ok" } else { "panic" });
    ro["recycled"] = rec.unwrap_or(json!({"outs": [], "wi": {"out": "panic", "v": []}}));
    ro["empty_finish"] = wres(&snap_write_ints(&RawBuilder::new().finish()));
    ro["empty"] = wres(&snap_write_ints(&RawSnap::empty()));
    e["raw"] = ro;
    // ---- one delta written with several size tables
    let osz = osz_in(&c["osz"]);
    let osz2 = osz_in(&c["osz2"]);
    let fits = |t: &BTreeMap<u16, u32>| raw.items().all(|x| t.get(&x.raw_type_id).map(|&z| z as usize == x.data.len()).unwrap_or(true));
    let mut d = Delta::new();
    let empty = RawSnap::empty();
    let rc = vh_common::guarded(CALL_MS, || d.create_raw(&empty, &raw));
    let mut dobj = json!({"create": if rc.is_ok() {"ok"} else {"panic"}, "fits1": fits(&osz), "fits2": fits(&osz2)});
    if rc.is_ok() {
        if fits(&osz) {
            let w1 = delta_write_ints(&d, &osz);
            dobj["w1"] = wres(&w1);
            if let Ok(x) = &w1 {
                dobj["r11"] = apply_wire(&empty, Some(x), None, &osz, false);
                // the same integers read with the other table: any outcome but a panic
                dobj["r12"] = apply_wire(&empty, Some(x), None, &osz2, false);
            }
        }
        if fits(&osz2) {
            let w2 = delta_write_bytes(&d, &osz2);
            dobj["w2b"] = wres(&w2);
            dobj["w2"] = wres(&delta_write_ints(&d, &osz2));
            if let Ok(b) = &w2 {
                dobj["r22"] = apply_wire(&empty, None, Some(b), &osz2, false);
            }
        }
        let cl = vh_common::guarded(CALL_MS, || {
            d.clear();
        });
        dobj["clear"] = json!(if cl.is_ok() { "ok" } else { "panic" });
        dobj["cleared"] = wres(&delta_write_ints(&d, &osz));
        dobj["new"] = wres(&delta_write_ints(&Delta::new(), &osz));
    }
    e["delta"] = dobj;
    // ---- the Snap level: enumeration order and announced lengths, look-ups, finish on empty, TypeId
    let adds = adds_in(&c["adds"]);
    let mut b = Builder::new();
    let mut souts = Vec::new();
    for a in &adds {
        let r = vh_common::guarded(CALL_MS, || b.add_item(a.ty, a.i, &a.d));
        souts.push(out_of(&r));
    }
    let sn = b.finish();
    let enums = vh_common::guarded(CALL_MS, || {
        let mut it = sn.items();
        let mut order = Vec::new();
        let mut lens = vec![it.len()];
        let mut hints = vec![json!([it.size_hint().0, it.size_hint().1])];
        while let Some(x) = it.next() {
            order.push(json!({"ty": ty_out(x.type_id), "i": x.id, "d": x.data}));
            lens.push(it.len());
            hints.push(json!([it.size_hint().0, it.size_hint().1]));
        }
        json!({"order": order, "lens": lens, "hints": hints})
    });
    let sprobes: Vec<(TypeId, u16)> = c["sprobe"].as_array().cloned().unwrap_or_default().iter().map(|p| (ty_in(&p[0]), p[1].as_u64().unwrap() as u16)).collect();
    let slook = looks_out(&sn, &sprobes);
    let empty_snap = Builder::new().finish();
    let tyconv: Vec<Value> = adds.iter().map(|a| match a.ty {
        TypeId::Ordinal(o) => json!({"from": ty_out(TypeId::from(o)), "shown": format!("{}", TypeId::from(o))}),
        TypeId::Uuid(u) => json!({"from": ty_out(TypeId::from(u)), "shown": format!("{}", TypeId::from(u))}),
    }).collect();
    e["snap"] = json!({"outs": souts, "enum_out": if enums.is_ok() {"ok"} else {"panic"}, "enum": enums.unwrap_or(json!({"order": [], "lens": [], "hints": []})),
                       "look_out": if slook.is_ok() {"ok"} else {"panic"}, "look": slook.unwrap_or(json!([])),
                       "crc": vh_common::guarded(CALL_MS, || sn.crc()).unwrap_or(0), "wi": wres(&snap_ints(&sn)),
                       "empty_finish": wres(&snap_ints(&empty_snap)), "empty_n": vh_common::guarded(CALL_MS, || empty_snap.items().len()).unwrap_or(99),
                       "empty": wres(&snap_ints(&Snap::empty())), "tyconv": tyconv});
    e
}

thread_local! {
    static CUR_FILE: RefCell<Option<String>> = RefCell::new(None);
}
// ---------------------------------------------------------------- object reuse
// A client reads into objects that held another snapshot / delta before (Storage keeps a free
// list of Snaps, Manager one Delta). With a `prev` in the case every object that is the target of
// a read first receives that previous content (whether or not it is accepted).
thread_local! {
    static PREV: RefCell<Option<Vec<i32>>> = RefCell::new(None);
}
fn used_raw() -> RawSnap {
    let mut r = RawSnap::empty();
    PREV.with(|p| {
        if let Some(w) = p.borrow().as_ref() {
            let _ = vh_common::catch(|| r.read_from_ints(&mut libtw2_warn::Ignore, w));
        }
    });
    r
}
fn used_snap() -> Snap {
    let mut s = Snap::empty();
    PREV.with(|p| {
        if let Some(w) = p.borrow().as_ref() {
            let _ = vh_common::catch(|| s.read_from_ints(&mut libtw2_warn::Ignore, w));
        }
    });
    s
}
fn used_delta() -> Delta {
    let mut d = Delta::new();
    PREV.with(|p| {
        if p.borrow().is_some() {
            // one deleted key, an update with data and an empty update (explicit sizes)
            let w = [1, 2, 0, 77, 5, 1, 1, 9, 6, 2, 0];
            let _ = vh_common::catch(|| d.read_from_ints(&mut libtw2_warn::Ignore, |_| None, &mut IntUnpacker::new(&w)));
        }
    });
    d
}

fn announce_case(c: &Value) {
    let cs = c.to_string();
    // the case about to run, for the post-mortem of a process abort (allocation failure, ...)
    CUR_FILE.with(|f| {
        if let Some(p) = f.borrow().as_ref() {
            let _ = std::fs::write(p, &cs);
        }
    });
    vh_common::set_case(&cs);
}
fn run_case(c: &Value) -> Vec<Value> {
    PREV.with(|p| *p.borrow_mut() = if c["prev"].as_array().map(|a| !a.is_empty()).unwrap_or(false) { Some(ints(&c["prev"])) } else { None });
    announce_case(c);
    let mut es = match c["op"].as_str().unwrap_or("") {
        "pair" => vec![op_pair(c)],
        "snap" => vec![op_snap(c)],
        "parse" => vec![op_parse(c)],
        "chain" => op_chain(c),
        "api" => vec![op_api(c)],
        other => vec![json!({"op": "unknown", "what": other})],
    };
    if c["prev"].is_array() {
        for e in es.iter_mut() {
            e["prev"] = c["prev"].clone();
        }
    }
    es
}

// ---------------------------------------------------------------- random driver (direction B)
fn rnd_val(r: &mut StdRng) -> i32 {
    match r.gen_range(0..10) {
        0 => 0,
        1 => 1,
        2 => -1,
        3 => i32::MIN,
        4 => i32::MAX,
        5 => r.gen_range(-64..64),
        6 => r.gen_range(-70000..70000),
        _ => r.gen(),
    }
}
/// 0.6 pre-agreed sizes (doc/snapshot.md, appendix)
const SIZES06: [u32; 20] = [10, 6, 5, 4, 3, 8, 4, 15, 22, 5, 17, 3, 2, 2, 2, 2, 3, 3, 3, 3];
fn osz06() -> Value {
    Value::Array(SIZES06.iter().enumerate().map(|(k, &s)| json!([k + 1, s])).collect())
}
fn osz06_zero() -> Value {
    let mut v = osz06();
    v.as_array_mut().unwrap().push(json!([63, 0]));
    v
}
/// A random type with its item length: pre-agreed (1..20), explicit small, explicit >= 0x4000
/// (numbers of UUID types at the raw level), >= 0x8000 (signed-key boundary), type 0.
fn rnd_type(r: &mut StdRng, allow_high: bool) -> (u16, usize) {
    match r.gen_range(0..10) {
        0..=4 => {
            let t = r.gen_range(1..=20u16);
            (t, SIZES06[t as usize - 1] as usize)
        }
        5 | 6 => {
            let t = if r.gen_bool(0.3) { 63 } else { r.gen_range(21..64u16) };
            (t, (t % 7) as usize)
        }
        7 => {
            let t = r.gen_range(64..0x4000u16);
            (t, (t % 5) as usize)
        }
        8 => {
            let t = r.gen_range(0x4000..0x8000u16);
            (t, (t % 4) as usize)
        }
        _ => {
            if allow_high {
                let t = *[0x8000u16, 0x8001, 0xfffe, 0xffff, 0].get(r.gen_range(0..5)).unwrap();
                (t, (t % 3) as usize + if t == 0 { 4 } else { 0 })
            } else {
                (0, 4)
            }
        }
    }
}
fn rnd_id(r: &mut StdRng) -> u16 {
    match r.gen_range(0..6) {
        0 => 0,
        1 => 0xffff,
        2 => r.gen_range(0..16),
        3 => r.gen_range(0x7ff0..0x8010),
        _ => r.gen(),
    }
}
/// A random raw snapshot (as item list) with at most `n` items; item length is a function of
/// the type (as in the game), so that two snapshots never disagree on the length of a key.
fn rnd_raw(r: &mut StdRng, n: usize, allow_high: bool, pool: &mut Vec<(u16, u16)>) -> Vec<Value> {
    let mut m: BTreeMap<(u16, u16), Vec<i32>> = BTreeMap::new();
    let mut ints_total = 0usize;
    let mut tries = 0;
    while m.len() < n && tries < 4 * n + 8 {
        tries += 1;
        let (t, i) = if !pool.is_empty() && r.gen_bool(0.7) {
            pool[r.gen_range(0..pool.len())]
        } else {
            let (t, _) = rnd_type(r, allow_high);
            (t, rnd_id(r))
        };
        let len = type_len(t);
        if m.contains_key(&(t, i)) {
            continue;
        }
        if 2 * (m.len() + 1) + ints_total + len > 16382 {
            continue;
        }
        ints_total += len;
        m.insert((t, i), (0..len).map(|_| rnd_val(r)).collect());
        pool.push((t, i));
    }
    m.into_iter().map(|((t, i), d)| json!({"t": t, "i": i, "d": d})).collect()
}
fn type_len(t: u16) -> usize {
    if (1..=20).contains(&t) {
        SIZES06[t as usize - 1] as usize
    } else if t == 0 {
        4
    } else if t < 64 {
        (t % 7) as usize
    } else if t < 0x4000 {
        (t % 5) as usize
    } else if t < 0x8000 {
        (t % 4) as usize
    } else {
        (t % 3) as usize
    }
}
fn size_class(r: &mut StdRng) -> usize {
    match r.gen_range(0..100) {
        0..=4 => 0,
        5..=59 => r.gen_range(1..8),
        60..=91 => r.gen_range(8..64),
        92..=97 => r.gen_range(64..400),
        _ => 1024,
    }
}
fn drive_pair(r: &mut StdRng) -> Value {
    let n = size_class(r);
    let allow_high = r.gen_bool(0.5);
    let mut pool = Vec::new();
    let a = rnd_raw(r, n, allow_high, &mut pool);
    // B: items of A untouched / changed / removed, new items added
    let mut b: BTreeMap<(u64, u64), Value> = BTreeMap::new();
    for it in &a {
        let k = (it["t"].as_u64().unwrap(), it["i"].as_u64().unwrap());
        match r.gen_range(0..10) {
            0 | 1 => {}
            2..=5 => {
                b.insert(k, it.clone());
            }
            _ => {
                let d: Vec<i32> = ints(&it["d"]).iter().map(|&x| if r.gen_bool(0.5) { x } else if r.gen_bool(0.5) { x.wrapping_add(rnd_val(r)) } else { rnd_val(r) }).collect();
                b.insert(k, json!({"t": k.0, "i": k.1, "d": d}));
            }
        }
    }
    let n_extra = size_class(r).min(1024usize.saturating_sub(b.len()));
    let extra = rnd_raw(r, n_extra, allow_high, &mut Vec::new());
    let mut ints_total: usize = b.values().map(|x| x["d"].as_array().unwrap().len()).sum();
    for it in extra {
        let k = (it["t"].as_u64().unwrap(), it["i"].as_u64().unwrap());
        let len = it["d"].as_array().unwrap().len();
        if b.contains_key(&k) || a.iter().any(|x| (x["t"].as_u64().unwrap(), x["i"].as_u64().unwrap()) == k) {
            continue;
        }
        if b.len() >= 1024 || 2 * (b.len() + 1) + ints_total + len > 16382 {
            continue;
        }
        ints_total += len;
        b.insert(k, it);
    }
    // size tables: the 0.6 table, the 0.6 table plus a data-less type with the pre-agreed size 0
    // (type 63; outside what the reference can express), no table at all
    let osz = match r.gen_range(0..10) {
        0..=4 => osz06(),
        5..=7 => osz06_zero(),
        _ => json!([]),
    };
    // insertion order: the order of the unsigned key, its reverse, or a shuffle
    let mut a = a;
    let mut b: Vec<Value> = b.into_values().collect();
    for v in [&mut a, &mut b] {
        match r.gen_range(0..4) {
            0 => v.sort_by_key(|x| (x["t"].as_u64().unwrap(), x["i"].as_u64().unwrap())),
            1 => {
                v.sort_by_key(|x| (x["t"].as_u64().unwrap(), x["i"].as_u64().unwrap()));
                v.reverse();
            }
            _ => v.shuffle(r),
        }
    }
    json!({"op": "pair", "A": a, "B": b, "osz": osz})
}
fn rnd_uuid(r: &mut StdRng, pool: &mut Vec<Vec<i32>>) -> Vec<i32> {
    if !pool.is_empty() && r.gen_bool(0.6) {
        return pool[r.gen_range(0..pool.len())].clone();
    }
    let u: Vec<i32> = (0..4).map(|_| rnd_val(r)).collect();
    pool.push(u.clone());
    u
}
fn rnd_adds(r: &mut StdRng, n: usize, upool: &mut Vec<Vec<i32>>, big: bool) -> Vec<Value> {
    let mut v = Vec::new();
    let mut budget: usize = 16382;
    for _ in 0..n {
        let ty: Vec<i32> = if r.gen_bool(0.45) { rnd_uuid(r, upool) } else { vec![*[1, 2, 5, 9, 20, 21, 100, 0x3fff].get(r.gen_range(0..8)).unwrap()] };
        let len = if big && r.gen_bool(0.02) { r.gen_range(100..4000) } else { r.gen_range(0..8) };
        if budget < len + 10 {
            break;
        }
        budget -= len + 8;
        let i = if r.gen_bool(0.5) { r.gen_range(0..4) } else { rnd_id(r) };
        v.push(json!({"ty": ty, "i": i, "d": (0..len).map(|_| rnd_val(r)).collect::<Vec<i32>>()}));
    }
    v
}
/// Previous content of the objects a case reads into: nothing, or the integers of a snapshot
/// (ordinal-only, with UUID types, hostile registry, larger or smaller than the new content)
fn rnd_prev(r: &mut StdRng) -> Value {
    match r.gen_range(0..6) {
        0 | 1 => json!([]),
        2 => {
            let n = r.gen_range(0..12);
            json!(wire_of(&rnd_raw(r, n, false, &mut Vec::new())))
        }
        3 => json!(wire_of(&rnd_registry_snapshot(r))),
        _ => {
            // well-formed: k UUID types with items
            let k = r.gen_range(1..4);
            let mut items: Vec<Value> = Vec::new();
            for j in 0..k {
                items.push(json!({"t": 0, "i": 0x4000 + j, "d": [rnd_val(r), j, 7, 7]}));
                if r.gen_bool(0.8) {
                    items.push(json!({"t": 0x4000 + j, "i": r.gen_range(0..3), "d": [rnd_val(r)]}));
                }
            }
            for j in 0..r.gen_range(0..5) {
                items.push(json!({"t": 5, "i": j, "d": [1, 2]}));
            }
            json!(wire_of(&items))
        }
    }
}
fn with_prev(r: &mut StdRng, mut c: Value) -> Value {
    c["prev"] = rnd_prev(r);
    c
}
fn drive_snap(r: &mut StdRng) -> Value {
    let c = drive_snap_inner(r);
    with_prev(r, c)
}
fn drive_snap_inner(r: &mut StdRng) -> Value {
    let n = match r.gen_range(0..100) {
        0..=7 => 0,
        8..=62 => r.gen_range(1..6),
        63..=91 => r.gen_range(6..40),
        92..=97 => r.gen_range(41..200),
        _ => r.gen_range(200..1100),
    };
    let mut upool = Vec::new();
    let mut adds = rnd_adds(r, n, &mut upool, true);
    if r.gen_range(0..100) < 3 {
        // fill 80..100 % of the 64 KiB with values of large magnitude: five bytes each in the
        // byte form, which is then longer than 64 KiB
        let used: usize = adds.iter().map(|a| 8 + a["d"].as_array().unwrap().len() + if a["ty"].as_array().unwrap().len() == 4 { 6 } else { 0 }).sum();
        let room = 16382usize.saturating_sub(used + 8);
        if room > 14000 {
            let len = r.gen_range(13150..=room.min(16370));
            let ty: Vec<i32> = if r.gen_bool(0.5) { vec![77] } else { rnd_uuid(r, &mut upool) };
            let d: Vec<i32> = (0..len).map(|_| if r.gen_bool(0.5) { r.gen_range(i32::MIN..-(1 << 27)) } else { r.gen_range((1 << 27)..i32::MAX) }).collect();
            let pos = r.gen_range(0..=adds.len());
            adds.insert(pos, json!({"ty": ty, "i": 4242, "d": d}));
        }
    }
    let n = adds.len();
    let n2 = r.gen_range(0..6);
    let adds2 = rnd_adds(r, n2, &mut upool, false);
    let probe = json!([[[3], 0], [rnd_uuid(r, &mut Vec::new()), 0]]);
    // the snapshot the delta leg starts from: some of the target's items (values changed), items
    // of UUID types the target may not have (one integer of data each), or nothing
    let mut base: Vec<Value> = Vec::new();
    if r.gen_bool(0.7) {
        for a in &adds {
            if r.gen_bool(0.5) && a["d"].as_array().unwrap().len() < 200 {
                let d: Vec<i32> = ints(&a["d"]).iter().map(|&x| if r.gen_bool(0.5) { x } else { rnd_val(r) }).collect();
                base.push(json!({"ty": a["ty"], "i": a["i"], "d": d}));
            }
        }
        for _ in 0..r.gen_range(0..4) {
            let u = rnd_uuid(r, &mut upool);
            let pos = r.gen_range(0..=base.len());
            base.insert(pos, json!({"ty": u, "i": r.gen_range(0..3), "d": [rnd_val(r)]}));
        }
    }
    if n > 40 {
        // large snapshots: one copy (alternating wire form) to keep the events small
        let which = *["ints", "bytes", "delta"].get(r.gen_range(0..3)).unwrap();
        return json!({"op": "snap", "adds": adds, "adds2": adds2, "probe": probe, "copies": [which], "base": base});
    }
    json!({"op": "snap", "adds": adds, "adds2": adds2, "probe": probe, "base": base})
}
fn enc_ints(v: &[i32]) -> Vec<u8> {
    let mut out: Vec<u8> = Vec::with_capacity(5 * v.len() + 8);
    with_packer(&mut out, |mut p| -> Vec<u8> {
        for &x in v {
            p.write_int(x).unwrap();
        }
        p.written().to_vec()
    })
}
fn wire_of(items: &[Value]) -> Vec<i32> {
    let (s, _) = build_raw(&raw_items_in(&Value::Array(items.to_vec())));
    snap_write_ints(&s).unwrap_or_default()
}
const BOUNDARY: [i32; 18] = [-1, 0, 1, 2, 3, 4, 5, 8, 0x3fff, 0x4000, 0x7fff, 0x8000, 0xffff, 0x10000, 1024, 65536, i32::MIN, i32::MAX];
fn corrupt(r: &mut StdRng, w: &mut Vec<i32>) {
    if w.is_empty() {
        return;
    }
    for _ in 0..r.gen_range(1..3) {
        let p = if r.gen_bool(0.5) { r.gen_range(0..w.len().min(8)) } else { r.gen_range(0..w.len()) };
        match r.gen_range(0..6) {
            0 => w[p] = BOUNDARY[r.gen_range(0..BOUNDARY.len())],
            1 => w[p] = w[p].wrapping_add(*[-4, -1, 1, 4].get(r.gen_range(0..4)).unwrap()),
            2 => {
                let q = r.gen_range(0..w.len());
                w[p] = w[q];
            }
            3 => {
                w.truncate(p);
                if w.is_empty() {
                    return;
                }
            }
            4 => w.insert(p, rnd_val(r)),
            _ => w[p] = r.gen(),
        }
    }
}
/// hostile registries: type-0 items with ids across the whole range, chains that climb in
/// steps below 256, wrong lengths
fn rnd_registry_snapshot(r: &mut StdRng) -> Vec<Value> {
    let mut m: BTreeMap<(u16, u16), Vec<i32>> = BTreeMap::new();
    let n = r.gen_range(1..260);
    let step = r.gen_range(1..300u32);
    let mut id: u32 = *[0u32, 5, 0x3fff, 0x4000, 0x40ff, 0x7f00, 0x8000, 0xfe00].get(r.gen_range(0..8)).unwrap();
    for k in 0..n {
        if id > 0xffff {
            break;
        }
        let len = if r.gen_bool(0.03) { r.gen_range(0..7) } else { 4 };
        let mut u: Vec<i32> = (0..len).map(|_| rnd_val(r)).collect();
        if len == 4 {
            u[0] = k;
        }
        m.insert((0, id as u16), u);
        if r.gen_bool(0.5) && id >= 0x4000 {
            m.insert((id as u16, rnd_id(r)), (0..r.gen_range(0..3)).map(|_| rnd_val(r)).collect());
        }
        id += if r.gen_bool(0.8) { step } else { r.gen_range(1..600) };
    }
    if r.gen_bool(0.2) {
        m.insert((r.gen_range(0x4000..=0xffffu32) as u16, 0), vec![]);
    }
    m.into_iter().map(|((t, i), d)| json!({"t": t, "i": i, "d": d})).collect()
}
fn drive_parse(r: &mut StdRng) -> Value {
    let c = drive_parse_inner(r);
    with_prev(r, c)
}
fn drive_parse_inner(r: &mut StdRng) -> Value {
    let mut upool = Vec::new();
    let n_adds2 = r.gen_range(0..4);
    let adds2 = rnd_adds(r, n_adds2, &mut upool, false);
    let kind = r.gen_range(0..10);
    let n = size_class(r).min(if r.gen_bool(0.9) { 60 } else { 1024 });
    let mut pool = Vec::new();
    let base_items = if r.gen_bool(0.25) { rnd_registry_snapshot(r) } else { rnd_raw(r, n, true, &mut pool) };
    let base = wire_of(&base_items);
    match kind {
        0..=3 => {
            // snapshot: valid / corrupted, ints or bytes
            let mut w = base.clone();
            if r.gen_bool(0.7) {
                corrupt(r, &mut w);
            }
            let other = wire_of(&rnd_raw(r, n.min(30), true, &mut pool));
            if r.gen_bool(0.5) {
                json!({"op": "parse", "kind": "si", "w": w, "adds2": adds2, "other": other})
            } else {
                let mut b = enc_ints(&w);
                if r.gen_bool(0.3) && !b.is_empty() {
                    let p = r.gen_range(0..b.len());
                    match r.gen_range(0..3) {
                        0 => b[p] = r.gen(),
                        1 => b.truncate(p),
                        _ => b.insert(p, r.gen()),
                    }
                }
                json!({"op": "parse", "kind": "sb", "w": jbytes(&b), "adds2": adds2, "other": other})
            }
        }
        4 => {
            // noise
            let len = r.gen_range(0..40);
            if r.gen_bool(0.5) {
                let w: Vec<i32> = (0..len).map(|_| if r.gen_bool(0.7) { r.gen_range(-2..12) } else { rnd_val(r) }).collect();
                json!({"op": "parse", "kind": if r.gen_bool(0.5) {"si"} else {"di"}, "w": w, "adds2": adds2, "base": base, "osz": osz06()})
            } else {
                let b: Vec<u8> = (0..len).map(|_| if r.gen_bool(0.7) { r.gen_range(0..12) } else { r.gen() }).collect();
                json!({"op": "parse", "kind": if r.gen_bool(0.5) {"sb"} else {"db"}, "w": jbytes(&b), "adds2": adds2, "base": base, "osz": osz06()})
            }
        }
        _ => {
            // delta: valid / corrupted, applied to the base
            let osz = match r.gen_range(0..10) {
                0..=3 => osz06(),
                4..=6 => osz06_zero(),
                _ => json!([]),
            };
            let oszm = osz_in(&osz);
            let target = rnd_raw(r, n, true, &mut pool);
            let (a, _) = build_raw(&raw_items_in(&Value::Array(base_items.clone())));
            let (b, _) = build_raw(&raw_items_in(&Value::Array(target)));
            let compatible = a.items().all(|x| b.item(x.raw_type_id, x.id).map(|d| d.len() == x.data.len()).unwrap_or(true));
            let pre_ok = b.items().all(|x| oszm.get(&x.raw_type_id).map(|&s| s as usize == x.data.len()).unwrap_or(true));
            let mut w: Vec<i32> = if compatible && pre_ok {
                let mut d = Delta::new();
                d.create_raw(&a, &b);
                delta_write_ints(&d, &oszm).unwrap_or_default()
            } else {
                vec![0, 0, 0]
            };
            if r.gen_bool(0.75) {
                corrupt(r, &mut w);
            }
            if r.gen_bool(0.5) {
                json!({"op": "parse", "kind": "di", "w": w, "adds2": adds2, "base": base, "osz": osz})
            } else {
                let mut bts = enc_ints(&w);
                if r.gen_bool(0.3) && !bts.is_empty() {
                    let p = r.gen_range(0..bts.len());
                    match r.gen_range(0..3) {
                        0 => bts[p] = r.gen(),
                        1 => bts.truncate(p),
                        _ => bts.insert(p, r.gen()),
                    }
                }
                json!({"op": "parse", "kind": "db", "w": jbytes(&bts), "adds2": adds2, "base": base, "osz": osz})
            }
        }
    }
}

// ---------------------------------------------------------------- random chains (direction B)
/// Length of a new item of type `t` (raw level): pre-agreed types follow the tables the driver
/// uses, the others take any length when the key is new to the recent snapshots.
fn chain_len(t: u16, r: &mut StdRng) -> usize {
    if (1..=20).contains(&t) {
        SIZES06[t as usize - 1] as usize
    } else if t == 63 {
        0
    } else {
        *[0usize, 0, 1, 1, 2, 3, 4, 7].get(r.gen_range(0..8)).unwrap()
    }
}
struct RawGen {
    cur: BTreeMap<(u16, u16), Vec<i32>>,
    /// key -> length in the recent snapshots (what Delta::create wants to agree), newest last
    recent: Vec<BTreeMap<(u16, u16), usize>>,
    pool: Vec<(u16, u16)>,
    max_items: usize,
    allow_high: bool,
}
fn gen_raw_items(g: &mut RawGen, r: &mut StdRng) -> Vec<Value> {
    let mut next: BTreeMap<(u16, u16), Vec<i32>> = BTreeMap::new();
    let turn = r.gen_range(0..10);
    for (k, d) in &g.cur {
        match r.gen_range(0..20) {
            0..=2 => {}
            3 if turn == 0 => {}
            4..=11 => {
                next.insert(*k, d.clone());
            }
            _ => {
                let d2: Vec<i32> = d.iter().map(|&x| if r.gen_bool(0.5) { x } else if r.gen_bool(0.5) { x.wrapping_add(rnd_val(r)) } else { rnd_val(r) }).collect();
                next.insert(*k, d2);
            }
        }
    }
    let room = g.max_items.saturating_sub(next.len());
    let n_add = if room == 0 { 0 } else { r.gen_range(0..=room.min(if g.max_items > 100 { 60 } else { 6 })) };
    let mut ints_total: usize = next.values().map(|d| d.len()).sum();
    for _ in 0..n_add {
        let k = if !g.pool.is_empty() && r.gen_bool(0.6) { g.pool[r.gen_range(0..g.pool.len())] } else { (rnd_type(r, g.allow_high).0, rnd_id(r)) };
        if next.contains_key(&k) {
            continue;
        }
        // a key the recent snapshots know keeps its length; otherwise a new one is drawn: an item of
        // an explicit-size type comes back with another size after it was away long enough
        let len = g.recent.iter().rev().find_map(|m| m.get(&k).copied()).unwrap_or_else(|| chain_len(k.0, r));
        if next.len() >= 1024 || 2 * (next.len() + 1) + ints_total + len > 16382 {
            continue;
        }
        ints_total += len;
        next.insert(k, (0..len).map(|_| rnd_val(r)).collect());
        if !g.pool.contains(&k) && g.pool.len() < 4000 {
            g.pool.push(k);
        }
    }
    g.recent.push(next.iter().map(|(k, d)| (*k, d.len())).collect());
    if g.recent.len() > KEEP + 2 {
        g.recent.remove(0);
    }
    g.cur = next.clone();
    let mut v: Vec<Value> = next.into_iter().map(|((t, i), d)| json!({"t": t, "i": i, "d": d})).collect();
    match r.gen_range(0..4) {
        0 => {}
        1 => v.reverse(),
        _ => v.shuffle(r),
    }
    if r.gen_bool(0.03) && !v.is_empty() {
        // the same key twice: the second add is refused
        let d = v[r.gen_range(0..v.len())].clone();
        v.push(d);
    }
    v
}
struct SnapGen {
    keys: Vec<(Vec<i32>, u16)>,
    len_of: BTreeMap<Vec<i32>, usize>,
    cur: BTreeMap<(Vec<i32>, u16), Vec<i32>>,
}
fn gen_snap_adds(g: &mut SnapGen, r: &mut StdRng) -> Vec<Value> {
    let mut next: BTreeMap<(Vec<i32>, u16), Vec<i32>> = BTreeMap::new();
    let mut v = Vec::new();
    let mut order: Vec<usize> = (0..g.keys.len()).collect();
    order.shuffle(r);
    let calm = r.gen_bool(0.5);
    for j in order {
        let k = g.keys[j].clone();
        let had = g.cur.get(&k).cloned();
        let take = match &had {
            Some(_) => r.gen_bool(if calm { 0.9 } else { 0.6 }),
            None => r.gen_bool(if calm { 0.1 } else { 0.35 }),
        };
        if !take {
            continue;
        }
        let len = g.len_of[&k.0];
        let d: Vec<i32> = match had {
            Some(d) if r.gen_bool(0.4) => d,
            Some(d) => d.iter().map(|&x| if r.gen_bool(0.5) { x } else { x.wrapping_add(rnd_val(r)) }).collect(),
            None => (0..len).map(|_| rnd_val(r)).collect(),
        };
        v.push(json!({"ty": k.0, "i": k.1, "d": d}));
        next.insert(k, d);
    }
    if r.gen_bool(0.05) && !v.is_empty() {
        let d = v[r.gen_range(0..v.len())].clone();
        v.push(d);
    }
    g.cur = next;
    v
}
fn drive_chain(r: &mut StdRng, fam: &str) -> Vec<Value> {
    let snap_level = fam == "chainsnap";
    let wrong = fam == "chainwrong";
    let class = r.gen_range(0..100);
    let (max_items, len) = if snap_level {
        (0, r.gen_range(6..30))
    } else if class < 86 {
        (r.gen_range(2..40), r.gen_range(8..40))
    } else if class < 97 {
        (r.gen_range(40..300), r.gen_range(4..10))
    } else {
        (1024, r.gen_range(3..6))
    };
    let mut hdr = json!({"op": "chain", "lvl": if snap_level {"snap"} else {"raw"}, "steps": []});
    let mut sg = SnapGen { keys: Vec::new(), len_of: BTreeMap::new(), cur: BTreeMap::new() };
    if snap_level {
        let mut upool = Vec::new();
        let n_u = r.gen_range(1..6);
        let ulen = r.gen_range(0..4);
        let mut tys: Vec<Vec<i32>> = (0..n_u).map(|_| rnd_uuid(r, &mut upool)).collect();
        tys.sort();
        tys.dedup();
        for t in &tys {
            sg.len_of.insert(t.clone(), ulen);
        }
        for o in [1, 5, 20, 0x3fff] {
            if r.gen_bool(0.5) {
                sg.len_of.insert(vec![o], r.gen_range(0..5));
                tys.push(vec![o]);
            }
        }
        for _ in 0..r.gen_range(2..14) {
            let t = tys[r.gen_range(0..tys.len())].clone();
            let k = (t, if r.gen_bool(0.6) { r.gen_range(0..3) } else { rnd_id(r) });
            if !sg.keys.contains(&k) {
                sg.keys.push(k);
            }
        }
        hdr["adds2"] = json!(rnd_adds(r, 3, &mut upool, false));
        hdr["probe"] = Value::Array(sg.keys.iter().take(10).map(|(t, i)| json!([t, i])).collect());
    }
    let mut rg = RawGen { cur: BTreeMap::new(), recent: Vec::new(), pool: Vec::new(), max_items, allow_high: r.gen_bool(0.5) };
    let mut ch = Chain::new(&hdr);
    let mut out = Vec::new();
    let mut steps: Vec<Value> = Vec::new();
    // the size table of the ordinal types of a snap-level chain
    let snap_osz: Vec<Value> = sg.len_of.iter().filter(|(t, _)| t.len() == 1 && r.gen_bool(0.7)).map(|(t, &l)| json!([t[0], l])).collect();
    for _ in 0..len {
        let nh = ch.n_hist();
        let ns = ch.n_store();
        let reuse = *["none", "prev", "prev", "base"].get(r.gen_range(0..4)).unwrap();
        let reread = *["no", "no", "no", "ints", "bytes"].get(r.gen_range(0..5)).unwrap();
        let recent_store: Vec<usize> = (0..ns).filter(|&j| remembered(j, ns)).collect();
        if wrong && ch.have_delta && r.gen_bool(0.12) {
            let rb = recent_store[r.gen_range(0..recent_store.len())];
            let st = json!({"k": "again", "rb": rb + 1, "reuse": reuse, "reread": reread});
            {
                let mut all = steps.clone();
                all.push(st.clone());
                announce_case(&json!({"op": "chain", "lvl": hdr["lvl"], "adds2": hdr["adds2"], "probe": hdr["probe"], "steps": all}));
            }
            out.push(chain_step(&mut ch, &st));
            steps.push(st);
            continue;
        }
        // bases the two sides agree on (the empty snapshot always is one)
        let agreed: Vec<usize> = (0..nh).filter(|&h| remembered(h, nh) && ch.pair[h].map(|s| remembered(s, ns)).unwrap_or(false)).collect();
        let sb = if r.gen_bool(0.8) { *agreed.last().unwrap() } else { agreed[r.gen_range(0..agreed.len())] };
        let mut rb = ch.pair[sb].unwrap();
        if wrong && r.gen_bool(0.2) {
            rb = recent_store[r.gen_range(0..recent_store.len())];
        }
        let via = if r.gen_bool(0.5) { "ints" } else { "bytes" };
        let st = if snap_level {
            let src = if nh == 1 || r.gen_bool(0.25) {
                json!({"k": "fresh"})
            } else {
                let rec: Vec<usize> = (0..nh).filter(|&h| remembered(h, nh)).collect();
                let j = if r.gen_bool(0.7) { nh - 1 } else { rec[r.gen_range(0..rec.len())] };
                if r.gen_bool(0.25) { json!({"k": "like", "j": j + 1, "o": rec[r.gen_range(0..rec.len())] + 1}) } else { json!({"k": "recycle", "j": j + 1}) }
            };
            json!({"k": "next", "lvl": "snap", "src": src, "adds": gen_snap_adds(&mut sg, r), "sb": sb + 1, "rb": rb + 1, "osz": snap_osz,
                   "via": via, "reread": reread, "reuse": reuse})
        } else {
            let osz = match r.gen_range(0..10) {
                0..=4 => osz06(),
                5..=7 => osz06_zero(),
                _ => json!([]),
            };
            json!({"k": "next", "lvl": "raw", "items": gen_raw_items(&mut rg, r), "sb": sb + 1, "rb": rb + 1, "osz": osz,
                   "via": via, "reread": reread, "reuse": reuse, "bld": if r.gen_bool(0.5) {"recycle"} else {"fresh"}})
        };
        {
                let mut all = steps.clone();
                all.push(st.clone());
                announce_case(&json!({"op": "chain", "lvl": hdr["lvl"], "adds2": hdr["adds2"], "probe": hdr["probe"], "steps": all}));
            }
        out.push(chain_step(&mut ch, &st));
        steps.push(st);
    }
    out
}

fn drive_api(r: &mut StdRng) -> Value {
    let bnd16 = [0u16, 1, 0x3fff, 0x4000, 0x7fff, 0x8000, 0x8001, 0xfffe, 0xffff];
    let mut keys = Vec::new();
    for _ in 0..r.gen_range(1..6) {
        let t = if r.gen_bool(0.5) { bnd16[r.gen_range(0..bnd16.len())] } else { r.gen() };
        let i = if r.gen_bool(0.5) { bnd16[r.gen_range(0..bnd16.len())] } else { r.gen() };
        keys.push(json!([t, i]));
    }
    let kints: Vec<i32> = (0..r.gen_range(1..6)).map(|_| rnd_val(r)).collect();
    let udata: Vec<Vec<i32>> = (0..r.gen_range(1..4)).map(|_| (0..r.gen_range(0..7)).map(|_| rnd_val(r)).collect()).collect();
    let mut dpairs = Vec::new();
    for _ in 0..r.gen_range(1..5) {
        let n = r.gen_range(0..6);
        let b: Vec<i32> = (0..n).map(|_| rnd_val(r)).collect();
        // without "a": there is no old item
        dpairs.push(match r.gen_range(0..4) {
            0 => json!({"b": b}),
            1 => json!({"a": (0..r.gen_range(0..6)).map(|_| rnd_val(r)).collect::<Vec<i32>>(), "b": b}),
            _ => json!({"a": (0..n).map(|_| rnd_val(r)).collect::<Vec<i32>>(), "b": b}),
        });
    }
    let hw: Vec<i32> = (0..r.gen_range(0..5)).map(|_| if r.gen_bool(0.6) { r.gen_range(-1..5) } else { rnd_val(r) }).collect();
    let n = size_class(r).min(if r.gen_bool(0.95) { 40 } else { 1024 });
    let mut pool = Vec::new();
    let mut items = rnd_raw(r, n, true, &mut pool);
    match r.gen_range(0..3) {
        0 => {}
        1 => items.reverse(),
        _ => items.shuffle(r),
    }
    let mut probe: Vec<Value> = items.iter().take(3).map(|x| json!([x["t"], x["i"]])).collect();
    for _ in 0..3 {
        probe.push(json!([rnd_type(r, true).0, rnd_id(r)]));
    }
    let mut upool = Vec::new();
    let n_adds = r.gen_range(0..12);
    let adds = rnd_adds(r, n_adds, &mut upool, false);
    let mut sprobe: Vec<Value> = adds.iter().take(4).map(|a| json!([a["ty"], a["i"]])).collect();
    sprobe.push(json!([[3], 0]));
    sprobe.push(json!([rnd_uuid(r, &mut Vec::new()), 0]));
    let tables = [osz06(), osz06_zero(), json!([])];
    json!({"op": "api", "keys": keys, "kints": kints, "udata": udata, "dpairs": dpairs, "hw": hw, "items": items, "probe": probe,
           "adds": adds, "sprobe": sprobe, "osz": tables[r.gen_range(0..3)], "osz2": tables[r.gen_range(0..3)], "cap": r.gen_range(1..4)})
}

// ---------------------------------------------------------------- main
fn emit(out: &mut dyn Write, e: &Value) {
    writeln!(out, "{}", e).unwrap();
}
fn main() {
    vh_common::quiet_panics();
    vh_common::start_watchdog();
    let args: Vec<String> = std::env::args().collect();
    let cmd = args.get(1).map(|s| s.as_str()).unwrap_or("");
    match cmd {
        "run" => {
            CUR_FILE.with(|f| *f.borrow_mut() = Some(format!("{}.cur", &args[2])));
            let mut out = std::io::BufWriter::new(std::fs::File::create(&args[2]).unwrap());
            let stdin = std::io::stdin();
            let mut n = 0usize;
            for line in stdin.lock().lines() {
                let line = line.unwrap();
                let case: Option<Value> = if line.starts_with("<<\"C\"") {
                    vh_common::parse_tlc_tuple(&line).and_then(|t| t.get(1).and_then(|s| serde_json::from_str(s).ok()))
                } else if line.starts_with('{') {
                    serde_json::from_str(&line).ok()
                } else {
                    if line.starts_with("Error") || line.contains("Exception") {
                        println!("TLC: {}", line);
                    }
                    None
                };
                if let Some(c) = case {
                    for e in run_case(&c) {
                        emit(&mut out, &e);
                    }
                    n += 1;
                }
            }
            out.flush().unwrap();
            println!("CASES {}", n);
        }
        "drive" => {
            let fam = args[2].as_str();
            let seed: u64 = args[3].parse().unwrap();
            let n: usize = args[4].parse().unwrap();
            CUR_FILE.with(|f| *f.borrow_mut() = Some(format!("{}.cur", &args[5])));
            let mut out = std::io::BufWriter::new(std::fs::File::create(&args[5]).unwrap());
            let mut r = StdRng::seed_from_u64(seed);
            for _ in 0..n {
                if fam.starts_with("chain") {
                    // chains are generated step by step from the state of the real objects
                    for e in drive_chain(&mut r, fam) {
                        emit(&mut out, &e);
                    }
                    continue;
                }
                let c = match fam {
                    "pair" => drive_pair(&mut r),
                    "snap" => drive_snap(&mut r),
                    "api" => drive_api(&mut r),
                    _ => drive_parse(&mut r),
                };
                for e in run_case(&c) {
                    emit(&mut out, &e);
                }
            }
            out.flush().unwrap();
            println!("CASES {}", n);
        }
        "one" => {
            let v: Value = serde_json::from_str(&std::fs::read_to_string(&args[2]).unwrap()).unwrap();
            let c = if v.get("replay").is_some() { v["replay"].clone() } else { v };
            CUR_FILE.with(|f| *f.borrow_mut() = Some(format!("{}.cur", &args[3])));
            let mut out = std::io::BufWriter::new(std::fs::File::create(&args[3]).unwrap());
            for e in run_case(&c) {
                emit(&mut out, &e);
            }
            out.flush().unwrap();
            println!("CASES 1");
        }
        _ => {
            eprintln!("usage: vh-snapalg run <out> | drive <pair|snap|parse> <seed> <n> <out> | one <replay.json> <out>");
            std::process::exit(2);
        }
    }
}
