//! Harness for C18 (server-info parsing and merging).  Decides nothing: renders the abstract
//! parts / token streams of spec/srvinfo/*.tla as real datagrams, calls parse_response,
//! Info*Response::parse, PartialServerInfo::merge / get_info, and projects the results back.
//!
//! vh-srvinfo merge            TLC transition export of MC_SrvInfo on stdin (direction A, merging)
//! vh-srvinfo parse            TLC case export of SrvInfoParse on stdin (direction A, parsing)
//! vh-srvinfo drive <seed> <tier> <prefix>   records traces with real-size infos (direction B)
//! vh-srvinfo case <file>      re-executes one stored case
use libtw2_serverbrowse::protocol as p;
use serde_json::{json, Value};
use std::collections::HashMap;
use std::io::{BufRead, Write};
use vh_common::rand::rngs::StdRng;
use vh_common::rand::seq::SliceRandom;
use vh_common::rand::{Rng, SeedableRng};
use vh_common::{canon, catch, parse_tlc_tuple, quiet_panics, set_case, start_watchdog};

const TOKEN: i32 = 7;

fn push_str(out: &mut Vec<u8>, s: &str) {
    out.extend_from_slice(s.as_bytes());
    out.push(0);
}
fn push_int(out: &mut Vec<u8>, v: i64) {
    push_str(out, &v.to_string());
}

fn ids(v: &Value) -> Vec<i64> {
    v.as_array().map(|a| a.iter().map(|x| x.as_i64().unwrap_or(0)).collect()).unwrap_or_default()
}

/// the datagram of part `pidx` (1-based) of an instance {v, n, parts:[{bits, cl, main}]}
/// (bits are exported 1-based)
fn render_part(inst: &Value, pidx: usize) -> Vec<u8> {
    let part = &inst["parts"][pidx - 1];
    let n = inst["n"].as_i64().unwrap_or(0);
    let bits = ids(&part["bits"]);
    let cl = ids(&part["cl"]);
    let v = inst["v"].as_str().unwrap_or("");
    let mut d = Vec::new();
    let ex = v == "v6ex";
    if !ex {
        d.extend_from_slice(p::INFO_6_64);
        push_int(&mut d, TOKEN as i64);
        push_str(&mut d, "0.6.4, 11.0");
        push_str(&mut d, "verif server");
        push_str(&mut d, "dm1");
        push_str(&mut d, "DM");
        push_int(&mut d, 0);
        push_int(&mut d, n);
        push_int(&mut d, 64);
        push_int(&mut d, n);
        push_int(&mut d, 64);
        // offset = slot of the first client of this packet
        push_int(&mut d, bits.first().map(|b| b - 1).unwrap_or(n.min(63)));
    } else if part["main"].as_bool().unwrap_or(false) {
        d.extend_from_slice(p::INFO_6_EX);
        push_int(&mut d, TOKEN as i64);
        push_str(&mut d, "0.6.4, 11.0");
        push_str(&mut d, "verif server");
        push_str(&mut d, "dm1");
        push_int(&mut d, 123456);
        push_int(&mut d, 5805);
        push_str(&mut d, "DM");
        push_int(&mut d, 0);
        push_int(&mut d, n);
        push_int(&mut d, n.max(64));
        push_int(&mut d, n);
        push_int(&mut d, n.max(64));
        push_str(&mut d, "");
    } else {
        d.extend_from_slice(p::INFO_6_EX_MORE);
        push_int(&mut d, TOKEN as i64);
        push_int(&mut d, bits.first().map(|b| b - 1).unwrap_or(1));
        push_str(&mut d, "");
    }
    for c in cl {
        let (name, clan, country, score, flags) = client_fields(c);
        push_str(&mut d, name);
        push_str(&mut d, clan);
        push_int(&mut d, country);
        push_int(&mut d, score);
        push_int(&mut d, 1 - flags); // is_player; the library turns "not a player" into flag 1
        if ex {
            push_str(&mut d, "");
        }
    }
    d
}

const NAMES: [&str; 2] = ["(connecting)", "nameless tee"];
const CLANS: [&str; 2] = ["", "clan"];

/// SrvInfo!KeyOf: the fields of client id c are bits of c - 1 (duplicates in every field)
fn client_fields(c: i64) -> (&'static str, &'static str, i64, i64, i64) {
    let k = c - 1;
    (
        NAMES[(k & 1) as usize],
        CLANS[(k >> 1 & 1) as usize],
        (k >> 2 & 1) - 1,
        (k >> 3 & 1) + 2 * (k >> 5 & 1),
        k >> 4 & 1,
    )
}

/// the client id a returned record stands for (-1: no client of the model has these fields)
fn client_id_of(name: &str, clan: &str, country: i64, score: i64, flags: i64) -> i64 {
    let b0 = NAMES.iter().position(|n| *n == name);
    let b1 = CLANS.iter().position(|n| *n == clan);
    match (b0, b1) {
        (Some(b0), Some(b1)) if (-1..=0).contains(&country) && (0..=3).contains(&score) && (0..=1).contains(&flags) => {
            1 + b0 as i64 + 2 * b1 as i64 + 4 * (country + 1) + 8 * (score & 1) + 32 * (score >> 1) + 16 * flags
        }
        _ => -1,
    }
}

fn parse_partial(d: &[u8]) -> Result<Option<p::PartialServerInfo>, String> {
    catch(|| match p::parse_response(d) {
        Some(p::Response::Info664(x)) => x.parse(),
        Some(p::Response::Info6Ex(x)) => x.parse(),
        Some(p::Response::Info6ExMore(x)) => x.parse(),
        _ => None,
    })
}

fn ids_of(info: &p::ServerInfo) -> Vec<i64> {
    info.clients
        .iter()
        .map(|c| client_id_of(&c.name, &c.clan, c.country as i64, c.score as i64, c.flags as i64))
        .collect()
}

/// what the caller can observe: {complete, clients = the ids *in the order returned*}; take_info on
/// a clone must hand out the same sequence (else the projection appends -2, which no spec value has)
fn observe(x: &mut p::PartialServerInfo) -> Value {
    let got = x.get_info().map(|info| ids_of(info));
    match got {
        Some(mut c) => {
            let taken = x.clone().take_info().map(|i| ids_of(&i));
            if taken.as_ref() != Some(&c) {
                c.push(-2);
            }
            json!({"complete": true, "clients": c})
        }
        None => json!({"complete": false, "clients": []}),
    }
}

/// strict projection through the derived Debug image: (received mask bits 1-based, sorted client ids);
/// None if the image cannot be read (then only the observable result is compared)
fn strict(x: &p::PartialServerInfo) -> Option<(Vec<i64>, Vec<i64>)> {
    let s = format!("{:?}", x);
    let idx = s.rfind("received: ")?;
    let num: String = s[idx + 10..].chars().take_while(|c| c.is_ascii_digit()).collect();
    let mask: u64 = num.parse().ok()?;
    let bits: Vec<i64> = (0..64).filter(|b| mask >> b & 1 == 1).map(|b| b as i64 + 1).collect();
    let end = s.rfind("], received")?;
    let start = s[..end].rfind(": [")? + 3;
    let inner = &s[start..end];
    let mut cls = Vec::new();
    if !inner.is_empty() {
        for e in inner.split(", ") {
            // "name" "clan" country score flags
            let mut q = e.split('"');
            q.next()?;
            let name = q.next()?;
            q.next()?;
            let clan = q.next()?;
            let rest: Vec<&str> = q.next()?.split_whitespace().collect();
            if rest.len() != 3 {
                return None;
            }
            cls.push(client_id_of(name, clan, rest[0].parse().ok()?, rest[1].parse().ok()?, rest[2].parse().ok()?));
        }
    }
    cls.sort();
    Some((bits, cls))
}

struct Applied {
    res: String,
    obs: Value,
    strict: Option<(Vec<i64>, Vec<i64>)>,
}

/// applies act to the real pool; None = the call panicked
fn apply(inst: &Value, pool: &mut Vec<p::PartialServerInfo>, act: &Value) -> Result<Applied, String> {
    match act["a"].as_str().unwrap_or("") {
        "parse" => {
            let d = render_part(inst, act["p"].as_u64().unwrap_or(1) as usize);
            match parse_partial(&d)? {
                Some(x) => {
                    pool.push(x);
                    let s = strict(pool.last().unwrap());
                    Ok(Applied { res: "ok".into(), obs: json!(null), strict: s })
                }
                None => Ok(Applied { res: "none".into(), obs: json!(null), strict: None }),
            }
        }
        "merge" => {
            let i = act["i"].as_u64().unwrap_or(1) as usize - 1;
            let j = act["j"].as_u64().unwrap_or(1) as usize - 1;
            let other = pool[j].clone();
            let r = catch(|| pool[i].merge(other))?;
            let res = match r {
                Ok(()) => "ok".to_string(),
                Err(p::MergeError::OverlappingInfos) => "overlap".to_string(),
                Err(e) => format!("err:{:?}", e),
            };
            let obs = catch(|| observe(&mut pool[i]))?;
            let s = strict(&pool[i]);
            pool.remove(j);
            Ok(Applied { res, obs, strict: s })
        }
        _ => Err("harness: unknown act".into()),
    }
}

fn shape(inst: &Value, act: &Value) -> String {
    format!(
        "{}:{}-for-{}",
        inst["v"].as_str().unwrap_or("?"),
        act["br"].as_str().unwrap_or("?"),
        act["bx"].as_str().unwrap_or("?")
    )
}

fn merge_replay() {
    let stdin = std::io::stdin();
    let mut reps: HashMap<String, (Vec<p::PartialServerInfo>, Vec<Value>)> = HashMap::new();
    let (mut edges, mut orphans, mut nmerge, mut nparse, mut strict_cmp, mut strict_diff) = (0u64, 0u64, 0u64, 0u64, 0u64, 0u64);
    let mut known: HashMap<String, (u64, Value)> = HashMap::new();
    let mut fixedlike: HashMap<String, (u64, Value)> = HashMap::new();
    let mut other: HashMap<String, (u64, Value)> = HashMap::new();
    let mut tlc_tail: Vec<String> = Vec::new();
    let mut samples: Vec<Value> = Vec::new();
    let mut nontrivial = 0u64;
    for line in stdin.lock().lines() {
        let line = match line {
            Ok(l) => l,
            Err(_) => break,
        };
        let t = match parse_tlc_tuple(&line) {
            Some(t) if t.len() == 4 && t[0] == "T" => t,
            _ => {
                if !line.starts_with("<<\"T\"") {
                    if tlc_tail.len() >= 600 {
                        tlc_tail.remove(0);
                    }
                    tlc_tail.push(line);
                }
                continue;
            }
        };
        let (from, act, mut to): (Value, Value, Value) = match (serde_json::from_str::<Value>(&t[1]), serde_json::from_str::<Value>(&t[2]), serde_json::from_str::<Value>(&t[3])) {
            (Ok(a), Ok(b), Ok(c)) => (a, b, c),
            _ => continue,
        };
        to["inst"] = from["inst"].clone();
        edges += 1;
        let inst = &from["inst"];
        let fk = canon(&from);
        let (mut pool, mut hist) = if from["pool"].as_array().map(|a| a.is_empty()).unwrap_or(true) {
            (Vec::new(), Vec::new())
        } else {
            match reps.get(&fk) {
                Some(r) => r.clone(),
                None => {
                    orphans += 1;
                    continue;
                }
            }
        };
        hist.push(json!({"a": act["a"], "p": act["p"], "i": act["i"], "j": act["j"]}));
        let replay = json!({"kind": "merge", "from": {"inst": from["inst"]}, "history": hist, "act": act});
        set_case(&replay.to_string());
        let is_merge = act["a"] == "merge";
        let applied = apply(inst, &mut pool, &act);
        let applied = match applied {
            Ok(a) => a,
            Err(msg) => {
                let k = format!("panic:merge:{}", shape(inst, &act));
                other.entry(k).or_insert((0, json!({"replay": replay, "why": format!("panic: {}", msg)}))).0 += 1;
                continue;
            }
        };
        let mut matches_detailed = true;
        if is_merge {
            nmerge += 1;
            if act["obs"]["clients"].as_array().map(|a| a.len() >= 2).unwrap_or(false) {
                nontrivial += 1;
            }
            let want_d = canon(&act["obs"]);
            let want_p = canon(&act["prop"]);
            let got = canon(&applied.obs);
            let prop_ok = got == want_p && (applied.res == "ok" || (applied.res == "overlap" && act["propres"].as_bool() == Some(true) && act["res"] == "overlap"));
            // the property-level acceptance of the result value itself
            let res_legal = applied.res == "ok" || (applied.res == "overlap" && act["res"] == "overlap" && act["propres"] == true);
            if got == want_d && applied.res == act["res"].as_str().unwrap_or("") {
                let model_prop_ok = want_d == want_p && act["propres"] == true;
                if !model_prop_ok {
                    // the code does what the detailed model (with the known-bug action) says, and
                    // that is not what the property-level spec allows
                    let k = if act["known"] == true { shape(inst, &act) } else { format!("{}:after-stale-mask", inst["v"].as_str().unwrap_or("?")) };
                    let e = known.entry(k).or_insert((0, json!({"replay": replay, "got": applied.obs, "prop": act["prop"], "bugs": act["bugs"]})));
                    e.0 += 1;
                    if act["bugs"].as_i64().unwrap_or(0) == 0 {
                        // cannot happen if TLC's OnlyKnownBug holds; keep it visible
                        other.entry("unexplained-model-violation".into()).or_insert((0, json!({"replay": replay}))).0 += 1;
                    }
                }
            } else {
                matches_detailed = false;
                if prop_ok && res_legal {
                    fixedlike.entry(shape(inst, &act)).or_insert((0, json!({"replay": replay, "got": applied.obs, "res": applied.res}))).0 += 1;
                } else {
                    let k = format!("merge-deviates:{}:{}", shape(inst, &act), applied.res);
                    other.entry(k).or_insert((0, json!({"replay": replay, "got": applied.obs, "res": applied.res, "want": act["obs"], "prop": act["prop"]}))).0 += 1;
                }
            }
            if samples.len() < 3 && act["obs"]["complete"] == true && act["obs"]["clients"].as_array().map(|a| a.len() >= 3).unwrap_or(false) {
                samples.push(json!({"inst": inst["v"], "n": inst["n"], "act": {"i": act["i"], "j": act["j"], "br": act["br"]}, "observed": applied.obs}));
            }
        } else {
            nparse += 1;
            if applied.res != "ok" {
                matches_detailed = false;
                other.entry(format!("parse-rejected-valid-part:{}", inst["v"].as_str().unwrap_or("?")))
                    .or_insert((0, json!({"replay": replay}))).0 += 1;
            }
        }
        // strict projection of the touched partial against the spec state
        if matches_detailed {
            let tpool = to["pool"].as_array().cloned().unwrap_or_default();
            let ti = if is_merge {
                let (i, j) = (act["i"].as_u64().unwrap_or(1) as usize, act["j"].as_u64().unwrap_or(1) as usize);
                if j < i { i - 2 } else { i - 1 }
            } else {
                tpool.len().saturating_sub(1)
            };
            if let (Some((bits, cls)), Some(tp)) = (applied.strict.as_ref(), tpool.get(ti)) {
                strict_cmp += 1;
                if *bits != ids(&tp["rcv"]) || *cls != ids(&tp["cls"]) {
                    // internal state differs, observable result agrees: drift; exploration goes on
                    strict_diff += 1;
                    fixedlike.entry(format!("strict:{}", shape(inst, &act))).or_insert((0, json!({"replay": replay, "bits": bits, "cls": cls, "want": tp}))).0 += 1;
                }
            }
        }
        if matches_detailed {
            reps.entry(canon(&to)).or_insert((pool, hist));
        }
    }
    let conv = |m: HashMap<String, (u64, Value)>| -> Value {
        let mut v: Vec<(String, (u64, Value))> = m.into_iter().collect();
        v.sort_by(|a, b| a.0.cmp(&b.0));
        Value::Array(v.into_iter().map(|(k, (n, x))| json!({"key": k, "count": n, "first": x})).collect())
    };
    println!(
        "{}",
        json!({"summary": true, "edges": edges, "merges": nmerge, "parses": nparse, "states": reps.len(), "orphans": orphans,
               "strict_compared": strict_cmp, "strict_diff": strict_diff, "nontrivial": nontrivial,
               "known": conv(known), "fixedlike": conv(fixedlike), "other": conv(other), "samples": samples, "tlc_tail": tlc_tail})
    );
}

// ---------------------------------------------------------------- parsing half

fn info_header(k: &str) -> &'static [u8] {
    match k {
        "v5" => p::INFO_5,
        "v6" => p::INFO_6,
        "v6ddper" => p::INFO_6_DDPER,
        "v664" => p::INFO_6_64,
        "v6ex" => p::INFO_6_EX,
        "v6exmore" => p::INFO_6_EX_MORE,
        "v7" => p::INFO_7,
        _ => panic!("harness: kind"),
    }
}

fn put_varint(out: &mut Vec<u8>, v: i32) {
    let sign: u8 = if v < 0 { 1 } else { 0 };
    let mut m: u32 = if v < 0 { !(v as u32) } else { v as u32 };
    let mut b = (sign << 6) | (m & 0x3f) as u8;
    m >>= 6;
    if m != 0 {
        b |= 0x80;
    }
    out.push(b);
    while m != 0 {
        let mut b = (m & 0x7f) as u8;
        m >>= 7;
        if m != 0 {
            b |= 0x80;
        }
        out.push(b);
    }
}

fn render_tokens(k: &str, toks: &[Value]) -> Vec<u8> {
    let mut d = info_header(k).to_vec();
    for t in toks {
        let v = t["v"].as_i64().unwrap_or(0);
        if t["ty"] == "i" {
            if k == "v7" {
                put_varint(&mut d, v as i32);
            } else {
                push_int(&mut d, v);
            }
        } else if v >= 100 {
            push_str(&mut d, &format!("c{:03}", v - 100));
        } else if k == "v7" {
            // a "string" where a number is expected cannot be expressed in the 0.7 encoding (every
            // byte sequence is a number); the case keeps a string there, which shifts the stream
            push_str(&mut d, &format!("s{}", v));
        } else {
            push_str(&mut d, &format!("s{}", v));
        }
    }
    d
}

/// number of clients in the Debug image of a PartialServerInfo ("...: [a, b], received: N }")
fn count_names(dbg: &str) -> usize {
    let end = match dbg.rfind("], received") {
        Some(e) => e,
        None => return usize::MAX,
    };
    let start = match dbg[..end].rfind(": [") {
        Some(s) => s + 3,
        None => return usize::MAX,
    };
    let inner = &dbg[start..end];
    if inner.is_empty() {
        0
    } else {
        inner.split(", ").count()
    }
}

/// parse a rendered info datagram: {"some":bool,"n":clients,"bits":[..] or null} or panic
fn run_info(d: &[u8]) -> Result<Value, String> {
    catch(|| {
        let r = p::parse_response(d);
        let (some, n, mask): (bool, usize, Option<u64>) = match r {
            Some(p::Response::Info5(x)) => x.parse().map(|i| (true, i.clients.len(), None)).unwrap_or((false, 0, None)),
            Some(p::Response::Info6(x)) => x.parse().map(|i| (true, i.clients.len(), None)).unwrap_or((false, 0, None)),
            Some(p::Response::Info6Ddper(x)) => x.parse().map(|i| (true, i.clients.len(), None)).unwrap_or((false, 0, None)),
            Some(p::Response::Info7(x)) => x.parse().map(|i| (true, i.clients.len(), None)).unwrap_or((false, 0, None)),
            Some(p::Response::Info664(x)) => partial_view(x.parse()),
            Some(p::Response::Info6Ex(x)) => partial_view(x.parse()),
            Some(p::Response::Info6ExMore(x)) => partial_view(x.parse()),
            _ => return json!({"some": false, "n": 0, "mask": null, "notinfo": true}),
        };
        json!({"some": some, "n": n, "mask": mask})
    })
}

fn partial_view(x: Option<p::PartialServerInfo>) -> (bool, usize, Option<u64>) {
    match x {
        None => (false, 0, None),
        Some(pi) => {
            let s = format!("{:?}", pi);
            let mask = s.rfind("received: ").and_then(|i| {
                let num: String = s[i + 10..].chars().take_while(|c| c.is_ascii_digit()).collect();
                num.parse::<u64>().ok()
            });
            (true, count_names(&s), mask)
        }
    }
}

fn resp_header(hk: &str) -> Vec<u8> {
    match hk {
        "list5" => p::LIST_5.to_vec(),
        "list6" => p::LIST_6.to_vec(),
        "list7" => p::LIST_7.to_vec(),
        "count" => p::COUNT.to_vec(),
        "count7" => p::COUNT_7.to_vec(),
        "info5" => p::INFO_5.to_vec(),
        "info6" => p::INFO_6.to_vec(),
        "info6ddper" => p::INFO_6_DDPER.to_vec(),
        "info664" => p::INFO_6_64.to_vec(),
        "info6ex" => p::INFO_6_EX.to_vec(),
        "info6exmore" => p::INFO_6_EX_MORE.to_vec(),
        "info7" => p::INFO_7.to_vec(),
        "token7" => p::TOKEN_7.to_vec(),
        _ => panic!("harness: response kind"),
    }
}

fn render_resp(hk: &str, pre: &str, len: usize) -> Vec<u8> {
    let mut d = resp_header(hk);
    match pre {
        "xe" => d[..6].copy_from_slice(b"xe\0\0\0\0"),
        "noflag" => d[0] = 0,
        "short" => {
            // `len` bytes of header + payload are present
            for j in 0..20 {
                d.push((j * 37 + 5) as u8);
            }
            d.truncate(len);
            return d;
        }
        _ => {}
    }
    for j in 0..len {
        d.push((j * 37 + 5) as u8);
    }
    d
}

/// classify through the real parse_response and touch every accessor of the result
fn run_resp(d: &[u8]) -> Result<Value, String> {
    catch(|| {
        let (kind, entries): (&str, usize) = match p::parse_response(d) {
            None => ("none", 0),
            Some(p::Response::List5(l)) => {
                for a in l.0 {
                    let _ = a.unpack();
                }
                ("list5", l.0.len())
            }
            Some(p::Response::List6(l)) => {
                for a in l.0 {
                    let _ = a.unpack();
                }
                ("list6", l.0.len())
            }
            Some(p::Response::List7(l)) => {
                for a in l.2 {
                    let _ = a.unpack();
                }
                ("list7", l.2.len())
            }
            Some(p::Response::Count(_)) => ("count", 0),
            Some(p::Response::Count7(_)) => ("count7", 0),
            Some(p::Response::Info5(x)) => {
                let _ = x.parse();
                ("info5", 0)
            }
            Some(p::Response::Info6(x)) => {
                let _ = x.parse();
                ("info6", 0)
            }
            Some(p::Response::Info6Ddper(x)) => {
                let _ = x.parse();
                ("info6ddper", 0)
            }
            Some(p::Response::Info664(x)) => {
                let _ = x.parse();
                ("info664", 0)
            }
            Some(p::Response::Info6Ex(x)) => {
                let _ = x.parse();
                ("info6ex", 0)
            }
            Some(p::Response::Info6ExMore(x)) => {
                let _ = x.parse();
                ("info6exmore", 0)
            }
            Some(p::Response::Info7(x)) => {
                let _ = x.parse();
                ("info7", 0)
            }
            Some(p::Response::Token7(_)) => ("token7", 0),
        };
        json!({"kind": kind, "entries": entries})
    })
}

fn toks_shape(c: &Value) -> String {
    // numeric fields of the token list, for a stable key
    let v: Vec<String> = c["toks"]
        .as_array()
        .map(|a| a.iter().map(|t| if t["ty"] == "i" { t["v"].to_string() } else { "s".into() }).collect())
        .unwrap_or_default();
    let mut s = v.join(",");
    s.truncate(60);
    s
}

fn parse_replay() {
    let stdin = std::io::stdin();
    let (mut cases, mut info_cases, mut resp_cases, mut nontrivial) = (0u64, 0u64, 0u64, 0u64);
    let mut panics: HashMap<String, (u64, Value)> = HashMap::new();
    let mut drift: HashMap<String, (u64, Value)> = HashMap::new();
    let mut tlc_tail: Vec<String> = Vec::new();
    let mut samples: Vec<Value> = Vec::new();
    let mut mask_seen = 0u64;
    for line in stdin.lock().lines() {
        let line = match line {
            Ok(l) => l,
            Err(_) => break,
        };
        let t = match parse_tlc_tuple(&line) {
            Some(t) if t.len() == 3 && t[0] == "C" => t,
            _ => {
                if !line.starts_with("<<\"C\"") {
                    if tlc_tail.len() >= 600 {
                        tlc_tail.remove(0);
                    }
                    tlc_tail.push(line);
                }
                continue;
            }
        };
        let (c, want): (Value, Value) = match (serde_json::from_str(&t[1]), serde_json::from_str(&t[2])) {
            (Ok(a), Ok(b)) => (a, b),
            _ => continue,
        };
        cases += 1;
        set_case(&c.to_string());
        if c["t"] == "info" {
            info_cases += 1;
            let k = c["k"].as_str().unwrap_or("");
            let toks: Vec<Value> = c["toks"].as_array().cloned().unwrap_or_default();
            let d = render_tokens(k, &toks);
            match run_info(&d) {
                Err(msg) => {
                    let mut m = msg.clone();
                    m.truncate(40);
                    let key = format!("panic:parse:{}:{}", k, m);
                    let _ = toks_shape(&c);
                    panics.entry(key).or_insert((0, json!({"replay": {"kind": "parse", "case": c}, "why": msg, "hex": vh_common::hex(&d)}))).0 += 1;
                }
                Ok(got) => {
                    let wsome = want["some"].as_bool().unwrap_or(false);
                    // 0.7: a non-number token cannot be expressed, the stream is only shifted: skip the comparison
                    let inexpressible = k == "v7" && toks.iter().enumerate().any(|(_, t)| t["ty"] == "s" && t["v"] == 0);
                    if wsome {
                        nontrivial += 1;
                    }
                    if !inexpressible {
                        let mut same = got["some"].as_bool() == Some(wsome);
                        if same && wsome {
                            // (an unreadable Debug image is projected as a huge count: skip then)
                            same = got["n"].as_u64() == want["n"].as_u64() || got["n"].as_u64().map(|n| n > 1_000_000).unwrap_or(true);
                            if let Some(m) = got["mask"].as_u64() {
                                mask_seen += 1;
                                let wbits: u64 = want["bits"].as_array().map(|a| a.iter().enumerate().fold(0u64, |acc, (i, b)| if b == true && i < 64 { acc | 1 << i } else { acc })).unwrap_or(0);
                                if m != wbits {
                                    same = false;
                                }
                            }
                        }
                        if !same {
                            let key = format!("parse-verdict:{}", k);
                            drift.entry(key).or_insert((0, json!({"case": c, "want": want, "got": got}))).0 += 1;
                        }
                    }
                    if samples.len() < 2 && wsome && want["n"].as_u64().unwrap_or(0) >= 2 {
                        samples.push(json!({"kind": k, "tokens": toks.len(), "result": got}));
                    }
                }
            }
        } else {
            resp_cases += 1;
            let hk = c["hk"].as_str().unwrap_or("");
            let d = render_resp(hk, c["pre"].as_str().unwrap_or("std"), c["len"].as_u64().unwrap_or(0) as usize);
            match run_resp(&d) {
                Err(msg) => {
                    let key = format!("panic:response:{}:{}", hk, c["pre"].as_str().unwrap_or(""));
                    panics.entry(key).or_insert((0, json!({"replay": {"kind": "parse", "case": c}, "why": msg}))).0 += 1;
                }
                Ok(got) => {
                    if got["kind"] != want["kind"] || (want["kind"] != "none" && got["entries"] != want["entries"]) {
                        drift.entry(format!("classify:{}:{}", hk, c["pre"].as_str().unwrap_or(""))).or_insert((0, json!({"case": c, "want": want, "got": got}))).0 += 1;
                    }
                    if got["kind"] != "none" {
                        nontrivial += 1;
                    }
                }
            }
        }
    }
    let conv = |m: HashMap<String, (u64, Value)>| -> Value {
        let mut v: Vec<(String, (u64, Value))> = m.into_iter().collect();
        v.sort_by(|a, b| a.0.cmp(&b.0));
        Value::Array(v.into_iter().map(|(k, (n, x))| json!({"key": k, "count": n, "first": x})).collect())
    };
    println!(
        "{}",
        json!({"summary": true, "cases": cases, "info_cases": info_cases, "resp_cases": resp_cases, "nontrivial": nontrivial,
               "mask_compared": mask_seen, "panics": conv(panics), "drift": conv(drift), "samples": samples, "tlc_tail": tlc_tail})
    );
}

// ---------------------------------------------------------------- direction B

fn inst_664(sizes: &[usize]) -> Value {
    let n: usize = sizes.iter().sum();
    let mut parts = Vec::new();
    let mut from = 1usize;
    for s in sizes {
        let cl: Vec<usize> = (from..from + s).collect();
        parts.push(json!({"bits": cl.clone(), "cl": cl, "main": true}));
        from += s;
    }
    json!({"v": "v664", "n": n, "parts": parts})
}
fn inst_6ex(sizes: &[usize]) -> Value {
    let n: usize = sizes.iter().sum();
    let mut parts = Vec::new();
    let mut from = 1usize;
    for (k, s) in sizes.iter().enumerate() {
        let cl: Vec<usize> = (from..from + s).collect();
        parts.push(json!({"bits": [k + 1], "cl": cl, "main": k == 0}));
        from += s;
    }
    json!({"v": "v6ex", "n": n, "parts": parts})
}

fn drive(args: &[String]) {
    let seed: u64 = args[0].parse().unwrap_or(1);
    let thorough = args[1] == "thorough";
    let prefix = &args[2];
    let mut rng = StdRng::seed_from_u64(seed ^ 0x5151);
    let path = format!("{}-merge.ndjson", prefix);
    let mut w = std::io::BufWriter::new(std::fs::File::create(&path).unwrap());
    let (mut runs, mut events) = (0u64, 0u64);
    let nruns = if thorough { 400 } else { 40 };
    for r in 0..nruns {
        // real-size instances: 64 clients; legacy 3 x 24/24/16 or finer; extended up to 64 packets
        let inst = match r % 4 {
            0 => inst_664(&[24, 24, 16]),
            1 => {
                let mut sizes = vec![];
                let mut left = 64usize;
                while left > 0 {
                    let s = rng.gen_range(0..=24.min(left));
                    sizes.push(s);
                    left -= s;
                }
                inst_664(&sizes)
            }
            2 => {
                // the maximum number of parts: main + 63 "more" packets, one client each (main: 1)
                inst_6ex(&vec![1; 64])
            }
            _ => {
                let mut sizes = vec![rng.gen_range(0..10)];
                let mut left = 64usize - sizes[0];
                while left > 0 && sizes.len() < 64 {
                    let s = rng.gen_range(1..=12.min(left));
                    sizes.push(s);
                    left -= s;
                }
                if left > 0 {
                    let l = sizes.len();
                    sizes[l - 1] += left;
                }
                inst_6ex(&sizes)
            }
        };
        let np = inst["parts"].as_array().unwrap().len();
        writeln!(w, "{}", json!({"t": "I", "inst": inst})).unwrap();
        events += 1;
        runs += 1;
        // a permutation of the parts with duplications, merged with occasional side pools
        let mut order: Vec<usize> = (1..=np).collect();
        order.shuffle(&mut rng);
        let dups = rng.gen_range(0..=np.min(6));
        for _ in 0..dups {
            let x = order[rng.gen_range(0..order.len())];
            let at = rng.gen_range(0..=order.len());
            order.insert(at, x);
        }
        let mut pool: Vec<p::PartialServerInfo> = Vec::new();
        for pidx in order {
            let act = json!({"a": "parse", "p": pidx});
            set_case(&json!({"inst": inst, "act": act}).to_string());
            match apply(&inst, &mut pool, &act) {
                Ok(a) => writeln!(w, "{}", json!({"t": "P", "p": pidx, "res": a.res})).unwrap(),
                Err(_) => {
                    writeln!(w, "{}", json!({"t": "P", "p": pidx, "res": "panic"})).unwrap();
                    break;
                }
            }
            events += 1;
            // merge eagerly most of the time; sometimes keep a side partial and merge partials later
            while pool.len() > 1 && (pool.len() > 3 || rng.gen_range(0..4) != 0) {
                let (i, j) = if rng.gen_range(0..5) == 0 && pool.len() > 2 {
                    (rng.gen_range(1..=pool.len()), 0)
                } else {
                    (1, pool.len())
                };
                let j = if j == 0 {
                    let mut j = rng.gen_range(1..=pool.len());
                    while j == i {
                        j = rng.gen_range(1..=pool.len());
                    }
                    j
                } else {
                    j
                };
                let act = json!({"a": "merge", "i": i, "j": j});
                match apply(&inst, &mut pool, &act) {
                    Ok(a) => writeln!(w, "{}", json!({"t": "M", "i": i, "j": j, "res": a.res, "obs": a.obs})).unwrap(),
                    Err(_) => {
                        writeln!(w, "{}", json!({"t": "M", "i": i, "j": j, "res": "panic", "obs": {"complete": false, "clients": []}})).unwrap();
                        pool.clear();
                    }
                }
                events += 1;
            }
        }
        while pool.len() > 1 {
            let act = json!({"a": "merge", "i": 1, "j": 2});
            match apply(&inst, &mut pool, &act) {
                Ok(a) => writeln!(w, "{}", json!({"t": "M", "i": 1, "j": 2, "res": a.res, "obs": a.obs})).unwrap(),
                Err(_) => {
                    writeln!(w, "{}", json!({"t": "M", "i": 1, "j": 2, "res": "panic", "obs": {"complete": false, "clients": []}})).unwrap();
                    pool.clear();
                }
            }
            events += 1;
        }
    }
    w.flush().unwrap();

    // totality on arbitrary datagrams: every response kind with random / mutated payloads
    let path2 = format!("{}-total.ndjson", prefix);
    let mut w2 = std::io::BufWriter::new(std::fs::File::create(&path2).unwrap());
    let kinds = ["list5", "list6", "list7", "count", "count7", "info5", "info6", "info6ddper", "info664", "info6ex", "info6exmore", "info7", "token7"];
    let nd = if thorough { 60000 } else { 6000 };
    let mut ev2 = 0u64;
    let valid664 = render_part(&inst_664(&[24, 24, 16]), 2);
    let validex = render_part(&inst_6ex(&[3, 3, 3]), 1);
    let validmore = render_part(&inst_6ex(&[3, 3, 3]), 2);
    for n in 0..nd {
        let hk = kinds[n % kinds.len()];
        let mut d = resp_header(hk);
        match rng.gen_range(0..4) {
            0 => {
                let l = rng.gen_range(0..200);
                for _ in 0..l {
                    d.push(rng.gen());
                }
            }
            1 => {
                // number-ish tokens
                let l = rng.gen_range(0..40);
                for _ in 0..l {
                    let v: i64 = match rng.gen_range(0..6) {
                        0 => -1,
                        1 => 64,
                        2 => 65,
                        3 => rng.gen_range(0..70),
                        4 => i32::MAX as i64,
                        _ => rng.gen_range(-3..20),
                    };
                    if rng.gen_range(0..8) == 0 {
                        push_str(&mut d, "x");
                    } else {
                        push_int(&mut d, v);
                    }
                }
            }
            _ => {
                let base = match hk {
                    "info664" => &valid664,
                    "info6ex" => &validex,
                    "info6exmore" => &validmore,
                    _ => &valid664,
                };
                d.extend_from_slice(&base[14..]);
                for _ in 0..rng.gen_range(1..4) {
                    let at = rng.gen_range(resp_header(hk).len().min(d.len() - 1)..d.len());
                    match rng.gen_range(0..3) {
                        0 => d[at] = rng.gen(),
                        1 => {
                            d.remove(at);
                        }
                        _ => d.insert(at, b'0' + rng.gen_range(0..10)),
                    }
                }
                if rng.gen_range(0..4) == 0 {
                    let l = rng.gen_range(0..d.len());
                    d.truncate(l);
                }
            }
        }
        set_case(&json!({"hex": vh_common::hex(&d)}).to_string());
        let res = match run_resp(&d) {
            Ok(v) => v["kind"].as_str().unwrap_or("none").to_string(),
            Err(_) => "panic".to_string(),
        };
        let mut e = json!({"t": "D", "hk": hk, "len": d.len(), "res": res});
        if res == "panic" {
            e["hex"] = json!(vh_common::hex(&d));
        }
        writeln!(w2, "{}", e).unwrap();
        ev2 += 1;
    }
    w2.flush().unwrap();
    println!(
        "{}",
        json!({"summary": true, "files": [{"path": path, "kind": "merge", "runs": runs, "events": events},
                                            {"path": path2, "kind": "total", "runs": nd, "events": ev2}]})
    );
}

fn case(args: &[String]) {
    let v: Value = serde_json::from_str(&std::fs::read_to_string(&args[0]).unwrap()).unwrap();
    let c = if v.get("replay").is_some() { v["replay"].clone() } else { v };
    let c = if c.get("replay").is_some() { c["replay"].clone() } else { c };
    if let Some(h) = c.get("hex").and_then(|h| h.as_str()) {
        let d = vh_common::unhex(h);
        let r = run_resp(&d);
        println!("{}", json!({"result": match r { Ok(v) => v, Err(m) => json!({"panic": m}) }}));
        return;
    }
    if c["kind"] == "parse" {
        let cc = &c["case"];
        let r = if cc["t"] == "info" {
            let toks: Vec<Value> = cc["toks"].as_array().cloned().unwrap_or_default();
            run_info(&render_tokens(cc["k"].as_str().unwrap_or(""), &toks))
        } else {
            run_resp(&render_resp(cc["hk"].as_str().unwrap_or(""), cc["pre"].as_str().unwrap_or("std"), cc["len"].as_u64().unwrap_or(0) as usize))
        };
        println!("{}", json!({"result": match r { Ok(v) => v, Err(m) => json!({"panic": m}) }}));
        return;
    }
    // merge case: rebuild the `from` pool from the `got` sets (each partial = its parts merged in order), then act
    let from = &c["from"];
    let inst = &from["inst"];
    let mut pool: Vec<p::PartialServerInfo> = Vec::new();
    let mut out = Vec::new();
    writeln!(&mut out, "{}", json!({"t": "I", "inst": inst})).unwrap();
    if let Some(hist) = c.get("history").and_then(|h| h.as_array()) {
        for a in hist {
            let r = apply(inst, &mut pool, a);
            match (a["a"].as_str(), r) {
                (Some("parse"), Ok(x)) => writeln!(&mut out, "{}", json!({"t": "P", "p": a["p"], "res": x.res})).unwrap(),
                (Some("merge"), Ok(x)) => writeln!(&mut out, "{}", json!({"t": "M", "i": a["i"], "j": a["j"], "res": x.res, "obs": x.obs})).unwrap(),
                (_, Err(_)) => writeln!(&mut out, "{}", json!({"t": "M", "i": a["i"], "j": a["j"], "res": "panic", "obs": {"complete": false, "clients": []}})).unwrap(),
                _ => {}
            }
        }
    }
    std::io::stdout().write_all(&out).unwrap();
}

fn main() {
    quiet_panics();
    start_watchdog();
    vh_common::arm(3_600_000);
    let args: Vec<String> = std::env::args().collect();
    match args.get(1).map(|s| s.as_str()) {
        Some("merge") => merge_replay(),
        Some("parse") => parse_replay(),
        Some("drive") => drive(&args[2..]),
        Some("case") => case(&args[2..]),
        _ => {
            eprintln!("usage: vh-srvinfo merge|parse|drive|case");
            std::process::exit(2);
        }
    }
}
