//! Harness for C18 (server-info parsing and merging).  Decides nothing: renders the abstract
//! parts / datagrams of spec/srvinfo/*.tla as real datagrams, calls parse_response,
//! Info*Response::parse, Addr*Packed::unpack, PartialServerInfo::merge / get_info / take_info, and
//! projects the results back into the vocabulary of the specification.
//!
//! vh-srvinfo merge            TLC transition export of MC_SrvInfo on stdin (direction A, merging)
//! vh-srvinfo wire             TLC case export of MC_SrvInfoWire on stdin (direction A, byte-level parsing)
//! vh-srvinfo parse            TLC case export of SrvInfoParse on stdin (direction A, token-level parsing)
//! vh-srvinfo drive <seed> <tier> <prefix>   records traces with real-size infos (direction B)
//! vh-srvinfo case <file>      re-executes one stored case
use libtw2_serverbrowse::protocol as p;
use serde_json::{json, Value};
use std::collections::HashMap;
use std::io::{BufRead, Write};
use vh_common::rand::rngs::StdRng;
use vh_common::rand::seq::SliceRandom;
use vh_common::rand::{Rng, SeedableRng};
use vh_common::{canon, catch, parse_tlc_tuple, quiet_panics, set_case, start_watchdog};

fn push_str(out: &mut Vec<u8>, s: &str) {
    out.extend_from_slice(s.as_bytes());
    out.push(0);
}
fn push_int(out: &mut Vec<u8>, v: i64) {
    push_str(out, &v.to_string());
}

fn ids(v: &Value) -> Vec<i64> {
    v.as_array().map(|a| a.iter().map(|x| x.as_i64().unwrap_or(0)).collect()).unwrap_or_default()
}

// ---------------------------------------------------------------- client records and their rendering

/// how the strings of a record are put on the wire: short names, names / clans of exactly the
/// maximal length, over-long ones (the library cuts them), multi-byte characters across the cut
#[derive(Clone, Copy, PartialEq, Debug)]
enum Style {
    Short,
    Long,
    Over,
    Utf8,
}
const STYLES: [Style; 4] = [Style::Short, Style::Long, Style::Over, Style::Utf8];

fn style_of(v: &Value) -> Style {
    match v.as_str().unwrap_or("short") {
        "long" => Style::Long,
        "over" => Style::Over,
        "utf8" => Style::Utf8,
        _ => Style::Short,
    }
}
fn style_name(s: Style) -> &'static str {
    match s {
        Style::Short => "short",
        Style::Long => "long",
        Style::Over => "over",
        Style::Utf8 => "utf8",
    }
}

/// (wire names, names as handed out, wire clans, clans as handed out); index 0 sorts before index 1
fn strings(s: Style) -> ([&'static str; 2], [&'static str; 2], [&'static str; 2], [&'static str; 2]) {
    match s {
        Style::Short => (["(connecting)", "nameless tee"], ["(connecting)", "nameless tee"], ["", "clan"], ["", "clan"]),
        Style::Long => (
            ["nameless tee 00", "nameless tee 01"],
            ["nameless tee 00", "nameless tee 01"],
            ["clan-clan-0", "clan-clan-1"],
            ["clan-clan-0", "clan-clan-1"],
        ),
        Style::Over => (
            ["abcdefghijklmn0-overlong", "abcdefghijklmn1-overlong"],
            ["abcdefghijklmn0", "abcdefghijklmn1"],
            ["clan-clan-0xyz", "clan-clan-1xyz"],
            ["clan-clan-0", "clan-clan-1"],
        ),
        Style::Utf8 => (
            ["aaaaaaaaaaaaa0\u{e4}", "aaaaaaaaaaaaa1\u{e4}"],
            ["aaaaaaaaaaaaa0", "aaaaaaaaaaaaa1"],
            ["a\u{43a}\u{43a}\u{43a}\u{43a}\u{43a}", "b\u{43a}\u{43a}\u{43a}\u{43a}\u{43a}\u{43a}"],
            ["a\u{43a}\u{43a}\u{43a}\u{43a}\u{43a}", "b\u{43a}\u{43a}\u{43a}\u{43a}\u{43a}"],
        ),
    }
}

/// SrvInfo!KeyOf: the fields of record id r are bits of r - 1 (duplicates in every field):
/// (wire name, wire clan, country, score, flags)
fn rec_fields(s: Style, r: i64) -> (&'static str, &'static str, i64, i64, i64) {
    let k = (r - 1).rem_euclid(64);
    let (wn, _, wc, _) = strings(s);
    (wn[(k & 1) as usize], wc[(k >> 1 & 1) as usize], (k >> 2 & 1) - 1, (k >> 3 & 1) + 2 * (k >> 5 & 1), k >> 4 & 1)
}

/// the record id a returned client stands for (-1: no record of the model has these fields)
fn rec_of(s: Style, name: &str, clan: &str, country: i64, score: i64, flags: i64) -> i64 {
    let (_, n, _, c) = strings(s);
    let b0 = n.iter().position(|x| *x == name);
    let b1 = c.iter().position(|x| *x == clan);
    match (b0, b1) {
        (Some(b0), Some(b1)) if (-1..=0).contains(&country) && (0..=3).contains(&score) && (0..=1).contains(&flags) => {
            1 + b0 as i64 + 2 * b1 as i64 + 4 * (country + 1) + 8 * (score & 1) + 32 * (score >> 1) + 16 * flags
        }
        _ => -1,
    }
}

/// the datagram of a part {srv, v, tok, main, n, off, cl, recs}
fn render_part(part: &Value, style: Style) -> Vec<u8> {
    let n = part["n"].as_i64().unwrap_or(0);
    let off = part["off"].as_i64().unwrap_or(0);
    let tok = part["tok"].as_i64().unwrap_or(0);
    let srv = part["srv"].as_i64().unwrap_or(0);
    let recs = ids(&part["recs"]);
    let ex = part["v"] == "v6ex";
    let name = format!("verif server {}", srv);
    let mut d = Vec::new();
    if !ex {
        d.extend_from_slice(p::INFO_6_64);
        push_int(&mut d, tok);
        push_str(&mut d, "0.6.4, 11.0");
        push_str(&mut d, &name);
        push_str(&mut d, "dm1");
        push_str(&mut d, "DM");
        push_int(&mut d, 0);
        push_int(&mut d, n);
        push_int(&mut d, 64);
        push_int(&mut d, n);
        push_int(&mut d, 64);
        push_int(&mut d, off);
    } else if part["main"].as_bool().unwrap_or(false) {
        d.extend_from_slice(p::INFO_6_EX);
        push_int(&mut d, tok);
        push_str(&mut d, "0.6.4, 11.0");
        push_str(&mut d, &name);
        push_str(&mut d, "dm1");
        push_int(&mut d, 123456);
        push_int(&mut d, 5805);
        push_str(&mut d, "DM");
        push_int(&mut d, 0);
        push_int(&mut d, n);
        push_int(&mut d, n.max(64));
        push_int(&mut d, n);
        push_int(&mut d, n.max(64));
        push_str(&mut d, "");
    } else {
        d.extend_from_slice(p::INFO_6_EX_MORE);
        push_int(&mut d, tok);
        push_int(&mut d, off);
        push_str(&mut d, "");
    }
    for r in recs {
        let (name, clan, country, score, flags) = rec_fields(style, r);
        push_str(&mut d, name);
        push_str(&mut d, clan);
        push_int(&mut d, country);
        push_int(&mut d, score);
        push_int(&mut d, 1 - flags); // is_player; the library turns "not a player" into flag 1
        if ex {
            push_str(&mut d, "");
        }
    }
    d
}

fn parse_partial(d: &[u8]) -> Result<Option<p::PartialServerInfo>, String> {
    catch(|| match p::parse_response(d) {
        Some(p::Response::Info664(x)) => x.parse(),
        Some(p::Response::Info6Ex(x)) => x.parse(),
        Some(p::Response::Info6ExMore(x)) => x.parse(),
        _ => None,
    })
}

fn recs_of(info: &p::ServerInfo, s: Style) -> Vec<i64> {
    info.clients.iter().map(|c| rec_of(s, &c.name, &c.clan, c.country as i64, c.score as i64, c.flags as i64)).collect()
}

fn srv_of(info: &p::ServerInfo) -> i64 {
    if info.name.is_empty() {
        0
    } else {
        info.name.strip_prefix("verif server ").and_then(|x| x.parse().ok()).unwrap_or(-1)
    }
}

fn obs_info(info: &p::ServerInfo, s: Style) -> Value {
    json!({"complete": true, "clients": recs_of(info, s), "srv": srv_of(info), "n": info.num_clients})
}
fn obs_none() -> Value {
    json!({"complete": false, "clients": [], "srv": 0, "n": 0})
}

/// what the caller can observe: get_info on the partial itself (which sorts it in place);
/// take_info on a clone must hand out the same (else the projection appends -2, which no spec value has)
fn observe(x: &mut p::PartialServerInfo, s: Style) -> Value {
    let got = x.get_info().map(|info| obs_info(info, s));
    match got {
        Some(mut o) => {
            let taken = x.clone().take_info().map(|i| obs_info(&i, s));
            if taken.as_ref() != Some(&o) {
                o["clients"].as_array_mut().unwrap().push(json!(-2));
            }
            o
        }
        None => obs_none(),
    }
}
/// the same observation without touching the partial
fn observe_quiet(x: &p::PartialServerInfo, s: Style) -> Value {
    let mut c = x.clone();
    c.get_info().map(|info| obs_info(info, s)).unwrap_or_else(obs_none)
}

/// strict projection through the derived Debug image: (received mask bits 1-based, sorted record ids);
/// None if the image cannot be read (then only the observable result is compared)
fn strict(x: &p::PartialServerInfo, st: Style) -> Option<(Vec<i64>, Vec<i64>)> {
    let s = format!("{:?}", x);
    let idx = s.rfind("received: ")?;
    let num: String = s[idx + 10..].chars().take_while(|c| c.is_ascii_digit()).collect();
    let mask: u64 = num.parse().ok()?;
    let bits: Vec<i64> = (0..64).filter(|b| mask >> b & 1 == 1).map(|b| b as i64 + 1).collect();
    let end = s.rfind("], received")?;
    let start = s[..end].rfind(": [")? + 3;
    let inner = &s[start..end];
    let mut cls = Vec::new();
    if !inner.is_empty() {
        for e in inner.split(", ") {
            // "name" "clan" country score flags
            let mut q = e.split('"');
            q.next()?;
            let name = q.next()?;
            q.next()?;
            let clan = q.next()?;
            let rest: Vec<&str> = q.next()?.split_whitespace().collect();
            if rest.len() != 3 {
                return None;
            }
            cls.push(rec_of(st, name, clan, rest[0].parse().ok()?, rest[1].parse().ok()?, rest[2].parse().ok()?));
        }
    }
    cls.sort();
    Some((bits, cls))
}

struct Applied {
    res: String,
    obs: Value,
    obsq: Value,
    same: bool,
    strict: Option<(Vec<i64>, Vec<i64>)>,
}

/// two pools with the same history: on `a` get_info is called after every step (it sorts in
/// place), on `q` never (observations through clones)
#[derive(Clone, Default)]
struct Pools {
    a: Vec<p::PartialServerInfo>,
    q: Vec<p::PartialServerInfo>,
}

fn merge_res(r: &Result<(), p::MergeError>) -> String {
    match r {
        Ok(()) => "ok".to_string(),
        Err(p::MergeError::OverlappingInfos) => "overlap".to_string(),
        Err(p::MergeError::DifferingTokens) => "tokens".to_string(),
        Err(p::MergeError::DifferingVersions) => "versions".to_string(),
        Err(p::MergeError::NotMultipartVersion) => "notmulti".to_string(),
    }
}

/// applies act to the real pools; Err = the call panicked
fn apply(inst: &Value, pools: &mut Pools, act: &Value, style: Style) -> Result<Applied, String> {
    match act["a"].as_str().unwrap_or("") {
        "parse" => {
            let pi = act["p"].as_u64().unwrap_or(1) as usize;
            let d = render_part(&inst["parts"][pi - 1], style);
            match parse_partial(&d)? {
                Some(x) => {
                    pools.q.push(x.clone());
                    pools.a.push(x);
                    let s = strict(pools.a.last().unwrap(), style);
                    Ok(Applied { res: "ok".into(), obs: json!(null), obsq: json!(null), same: true, strict: s })
                }
                None => Ok(Applied { res: "none".into(), obs: json!(null), obsq: json!(null), same: true, strict: None }),
            }
        }
        "merge" => {
            let i = act["i"].as_u64().unwrap_or(1) as usize - 1;
            let j = act["j"].as_u64().unwrap_or(1) as usize - 1;
            if i >= pools.a.len() || j >= pools.a.len() || i == j {
                return Err("harness: merge index outside the pool".into());
            }
            let other = pools.a[j].clone();
            let before = format!("{:?}", pools.a[i]);
            let r = catch(|| pools.a[i].merge(other))?;
            let res = merge_res(&r);
            let mut same = r.is_ok() || format!("{:?}", pools.a[i]) == before;
            let obs = catch(|| observe(&mut pools.a[i], style))?;
            let s = strict(&pools.a[i], style);
            let otherq = pools.q[j].clone();
            let rq = catch(|| pools.q[i].merge(otherq))?;
            if merge_res(&rq) != res {
                same = false;
            }
            let obsq = catch(|| observe_quiet(&pools.q[i], style))?;
            pools.a.remove(j);
            pools.q.remove(j);
            Ok(Applied { res, obs, obsq, same, strict: s })
        }
        "take" => {
            let i = act["i"].as_u64().unwrap_or(1) as usize - 1;
            if i >= pools.a.len() {
                return Err("harness: take index outside the pool".into());
            }
            let r = catch(|| pools.a[i].take_info())?;
            let obs = r.as_ref().map(|x| obs_info(x, style)).unwrap_or_else(obs_none);
            let rq = catch(|| pools.q[i].take_info())?;
            let obsq = rq.as_ref().map(|x| obs_info(x, style)).unwrap_or_else(obs_none);
            let s = strict(&pools.a[i], style);
            Ok(Applied { res: if r.is_some() { "some".into() } else { "none".into() }, obs, obsq, same: true, strict: s })
        }
        _ => Err("harness: unknown act".into()),
    }
}

fn shape(act: &Value) -> String {
    if act["a"] == "take" {
        return format!("{}:take", act["v"].as_str().unwrap_or("?"));
    }
    format!("{}:{}-for-{}", act["v"].as_str().unwrap_or("?"), act["br"].as_str().unwrap_or("?"), act["bx"].as_str().unwrap_or("?"))
}

fn merge_replay() {
    let stdin = std::io::stdin();
    let mut reps: HashMap<String, (Pools, Vec<Value>)> = HashMap::new();
    let mut styles: HashMap<String, Style> = HashMap::new();
    let (mut edges, mut orphans, mut nmerge, mut nparse, mut ntake, mut strict_cmp, mut strict_diff) = (0u64, 0u64, 0u64, 0u64, 0u64, 0u64, 0u64);
    let (mut judged_n, mut errors_n) = (0u64, 0u64);
    let mut known: HashMap<String, (u64, Value)> = HashMap::new();
    let mut fixedlike: HashMap<String, (u64, Value)> = HashMap::new();
    let mut other: HashMap<String, (u64, Value)> = HashMap::new();
    let mut tlc_tail: Vec<String> = Vec::new();
    let mut samples: Vec<Value> = Vec::new();
    let mut nontrivial = 0u64;
    for line in stdin.lock().lines() {
        let line = match line {
            Ok(l) => l,
            Err(_) => break,
        };
        let t = match parse_tlc_tuple(&line) {
            Some(t) if t.len() == 4 && t[0] == "T" => t,
            _ => {
                if !line.starts_with("<<\"T\"") {
                    if tlc_tail.len() >= 600 {
                        tlc_tail.remove(0);
                    }
                    tlc_tail.push(line);
                }
                continue;
            }
        };
        let (from, act, mut to): (Value, Value, Value) = match (serde_json::from_str::<Value>(&t[1]), serde_json::from_str::<Value>(&t[2]), serde_json::from_str::<Value>(&t[3])) {
            (Ok(a), Ok(b), Ok(c)) => (a, b, c),
            _ => continue,
        };
        to["inst"] = from["inst"].clone();
        edges += 1;
        let inst = &from["inst"];
        let ik = canon(inst);
        let nstyles = styles.len();
        let style = *styles.entry(ik).or_insert(STYLES[nstyles % 4]);
        let fk = canon(&from);
        let (mut pools, mut hist) = if from["pool"].as_array().map(|a| a.is_empty()).unwrap_or(true) {
            (Pools::default(), Vec::new())
        } else {
            match reps.get(&fk) {
                Some(r) => r.clone(),
                None => {
                    orphans += 1;
                    continue;
                }
            }
        };
        hist.push(json!({"a": act["a"], "p": act["p"], "i": act["i"], "j": act["j"]}));
        let replay = json!({"kind": "merge", "from": {"inst": from["inst"], "style": style_name(style)}, "history": hist, "act": act});
        set_case(&replay.to_string());
        let kind = act["a"].as_str().unwrap_or("").to_string();
        let applied = apply(inst, &mut pools, &act, style);
        let applied = match applied {
            Ok(a) => a,
            Err(msg) => {
                let k = format!("panic:{}:{}", kind, shape(&act));
                other.entry(k).or_insert((0, json!({"replay": replay, "why": format!("panic: {}", msg)}))).0 += 1;
                continue;
            }
        };
        let mut matches_detailed = true;
        if kind == "merge" || kind == "take" {
            if kind == "merge" {
                nmerge += 1;
            } else {
                ntake += 1;
            }
            let judged = act["judged"] == true;
            if judged {
                judged_n += 1;
            }
            if kind == "merge" && applied.res != "ok" {
                errors_n += 1;
            }
            if act["obs"]["clients"].as_array().map(|a| a.len() >= 2).unwrap_or(false) {
                nontrivial += 1;
            }
            let want_d = canon(&act["obs"]);
            let want_p = canon(&act["prop"]);
            let got = canon(&applied.obs);
            let gotq = canon(&applied.obsq);
            let want_res = if kind == "merge" { act["res"].as_str().unwrap_or("").to_string() } else { applied.res.clone() };
            // the property-level acceptance of the result value itself
            let res_legal = kind == "take" || applied.res == "ok" || (applied.res == "overlap" && act["res"] == "overlap" && act["propres"] == true);
            let prop_ok = !judged || (got == want_p && gotq == want_p && res_legal);
            if got == want_d && gotq == want_d && applied.res == want_res && applied.same {
                let model_prop_ok = !judged || (want_d == want_p && act["propres"] != false);
                if !model_prop_ok {
                    // the code does what the detailed model (with the known-bug action) says, and
                    // that is not what the property-level spec allows
                    let k = if act["known"] == true { shape(&act) } else { format!("{}:after-stale-mask", act["v"].as_str().unwrap_or("?")) };
                    let e = known.entry(k).or_insert((0, json!({"replay": replay, "got": applied.obs, "prop": act["prop"], "bugs": act["bugs"]})));
                    e.0 += 1;
                    if kind == "merge" && act["bugs"].as_i64().unwrap_or(0) == 0 {
                        // cannot happen if TLC's OnlyKnownBug holds; keep it visible
                        other.entry("unexplained-model-violation".into()).or_insert((0, json!({"replay": replay}))).0 += 1;
                    }
                }
            } else {
                matches_detailed = false;
                let what = if !applied.same && applied.res == want_res { "partial-changed-by-error:" } else { "" };
                if prop_ok {
                    fixedlike.entry(format!("{}{}:{}", what, shape(&act), applied.res)).or_insert((0, json!({"replay": replay, "got": applied.obs, "gotq": applied.obsq, "res": applied.res, "want": act["obs"]}))).0 += 1;
                } else {
                    let k = format!("merge-deviates:{}:{}", shape(&act), applied.res);
                    other.entry(k).or_insert((0, json!({"replay": replay, "got": applied.obs, "gotq": applied.obsq, "res": applied.res, "want": act["obs"], "prop": act["prop"]}))).0 += 1;
                }
            }
            if samples.len() < 3 && act["obs"]["complete"] == true && act["obs"]["clients"].as_array().map(|a| a.len() >= 3).unwrap_or(false) {
                samples.push(json!({"style": style_name(style), "act": {"a": act["a"], "i": act["i"], "j": act["j"], "br": act["br"]}, "observed": applied.obs}));
            }
        } else {
            nparse += 1;
            let want = act["res"].as_str().unwrap_or("ok");
            if applied.res != want {
                matches_detailed = false;
                let part = &inst["parts"][act["p"].as_u64().unwrap_or(1) as usize - 1];
                let v = part["v"].as_str().unwrap_or("?");
                if want == "ok" && part["wf"] == true {
                    other.entry(format!("parse-rejected-valid-part:{}", v)).or_insert((0, json!({"replay": replay}))).0 += 1;
                } else {
                    fixedlike.entry(format!("parse-of-part:{}:{}", v, applied.res)).or_insert((0, json!({"replay": replay, "res": applied.res}))).0 += 1;
                }
            }
        }
        // strict projection of the touched partial against the spec state
        if matches_detailed && (kind != "parse" || applied.res == "ok") {
            let tpool = to["pool"].as_array().cloned().unwrap_or_default();
            let ti = if kind == "merge" {
                let (i, j) = (act["i"].as_u64().unwrap_or(1) as usize, act["j"].as_u64().unwrap_or(1) as usize);
                if j < i { i - 2 } else { i - 1 }
            } else if kind == "take" {
                act["i"].as_u64().unwrap_or(1) as usize - 1
            } else {
                tpool.len().saturating_sub(1)
            };
            if let (Some((bits, cls)), Some(tp)) = (applied.strict.as_ref(), tpool.get(ti)) {
                strict_cmp += 1;
                if *bits != ids(&tp["rcv"]) || *cls != ids(&tp["cls"]) {
                    // internal state differs, observable result agrees: drift; exploration goes on
                    strict_diff += 1;
                    fixedlike.entry(format!("strict:{}", shape(&act))).or_insert((0, json!({"replay": replay, "bits": bits, "cls": cls, "want": tp}))).0 += 1;
                }
            }
        }
        if matches_detailed {
            reps.entry(canon(&to)).or_insert((pools, hist));
        }
    }
    let conv = |m: HashMap<String, (u64, Value)>| -> Value {
        let mut v: Vec<(String, (u64, Value))> = m.into_iter().collect();
        v.sort_by(|a, b| a.0.cmp(&b.0));
        Value::Array(v.into_iter().map(|(k, (n, x))| json!({"key": k, "count": n, "first": x})).collect())
    };
    println!(
        "{}",
        json!({"summary": true, "edges": edges, "merges": nmerge, "parses": nparse, "takes": ntake, "judged": judged_n, "error_results": errors_n,
               "instances": styles.len(), "states": reps.len(), "orphans": orphans,
               "strict_compared": strict_cmp, "strict_diff": strict_diff, "nontrivial": nontrivial,
               "known": conv(known), "fixedlike": conv(fixedlike), "other": conv(other), "samples": samples, "tlc_tail": tlc_tail})
    );
}

// ---------------------------------------------------------------- byte-level parsing (SrvInfoWire)

fn bytes_of(s: &str) -> Value {
    Value::Array(s.as_bytes().iter().map(|b| json!(*b)).collect())
}
fn client_value(c: &p::ClientInfo) -> Value {
    json!({"name": bytes_of(&c.name), "clan": bytes_of(&c.clan), "country": c.country, "score": c.score, "flags": c.flags})
}
fn version_name(v: p::ServerInfoVersion) -> &'static str {
    match v {
        p::ServerInfoVersion::V5 => "v5",
        p::ServerInfoVersion::V6 => "v6",
        p::ServerInfoVersion::V6Ddper => "v6ddper",
        p::ServerInfoVersion::V664 => "v664",
        p::ServerInfoVersion::V6Ex => "v6ex",
        p::ServerInfoVersion::V7 => "v7",
    }
}
fn opt<T: Into<Value>>(x: Option<T>) -> Value {
    match x {
        Some(v) => json!([v.into()]),
        None => json!([]),
    }
}
/// the whole value of a ServerInfo in the vocabulary of SrvInfoWire!ParseInfo
fn info_value(i: &p::ServerInfo) -> Value {
    json!({"ver": version_name(i.info_version), "token": i.token, "version": bytes_of(&i.version), "name": bytes_of(&i.name),
           "hostname": opt(i.hostname.as_ref().map(|h| bytes_of(h))), "map": bytes_of(&i.map),
           "crc": opt(i.map_crc.map(|c| c as i32)), "msize": opt(i.map_size.map(|c| c as i64)),
           "gametype": bytes_of(&i.game_type), "flags": i.flags, "prog": opt(i.progression), "skill": opt(i.skill_level),
           "np": i.num_players, "mp": i.max_players, "nc": i.num_clients, "mc": i.max_clients,
           "clients": Value::Array(i.clients.iter().map(client_value).collect())})
}
fn whole(x: Option<p::ServerInfo>) -> Value {
    match x {
        None => json!({"some": false}),
        Some(i) => json!({"some": true, "partial": false, "complete": true, "full": info_value(&i)}),
    }
}
fn partial(x: Option<p::PartialServerInfo>) -> Value {
    match x {
        None => json!({"some": false}),
        Some(mut pi) => {
            let s = format!("{:?}", pi);
            let mask = s.rfind("received: ").and_then(|i| {
                let num: String = s[i + 10..].chars().take_while(|c| c.is_ascii_digit()).collect();
                num.parse::<u64>().ok()
            });
            let token = pi.token();
            let full = pi.get_info().map(info_value);
            // take_info must hand out the same info and leave an emptied partial behind
            let taken = pi.clone().take_info().map(|i| info_value(&i));
            let mut again = pi.clone();
            let _ = again.take_info();
            let _ = again.take_info();
            let _ = again.get_info();
            json!({"some": true, "partial": true, "token": token, "complete": full.is_some(), "full": full,
                   "take_same": taken == full, "mask": mask})
        }
    }
}
fn addr_value(a: p::Addr) -> Value {
    match a.ip_address {
        std::net::IpAddr::V4(x) => json!({"v6": false, "ip": x.octets().to_vec(), "port": a.port}),
        std::net::IpAddr::V6(x) => json!({"v6": true, "ip": x.octets().to_vec(), "port": a.port}),
    }
}
fn tok(t: p::Token7) -> Value {
    json!(t.0.to_vec())
}

/// the whole value parse_response and the accessors give for a datagram
fn wire_value(d: &[u8]) -> Result<Value, String> {
    catch(|| match p::parse_response(d) {
        None => json!({"kind": "none"}),
        Some(p::Response::List5(l)) => json!({"kind": "list5", "own": [], "their": [], "count": -1, "addrs": l.0.iter().map(|a| addr_value(a.unpack())).collect::<Vec<_>>()}),
        Some(p::Response::List6(l)) => json!({"kind": "list6", "own": [], "their": [], "count": -1, "addrs": l.0.iter().map(|a| addr_value(a.unpack())).collect::<Vec<_>>()}),
        Some(p::Response::List7(l)) => json!({"kind": "list7", "own": tok(l.0), "their": tok(l.1), "count": -1, "addrs": l.2.iter().map(|a| addr_value(a.unpack())).collect::<Vec<_>>()}),
        Some(p::Response::Count(c)) => json!({"kind": "count", "own": [], "their": [], "count": c.0, "addrs": []}),
        Some(p::Response::Count7(c)) => json!({"kind": "count7", "own": tok(c.0), "their": tok(c.1), "count": c.2, "addrs": []}),
        Some(p::Response::Token7(t)) => json!({"kind": "token7", "own": tok(t.0), "their": tok(t.1), "count": -1, "addrs": []}),
        Some(p::Response::Info5(x)) => json!({"kind": "info5", "own": [], "their": [], "count": -1, "addrs": [], "info": whole(x.parse())}),
        Some(p::Response::Info6(x)) => json!({"kind": "info6", "own": [], "their": [], "count": -1, "addrs": [], "info": whole(x.parse())}),
        Some(p::Response::Info6Ddper(x)) => json!({"kind": "info6ddper", "own": [], "their": [], "count": -1, "addrs": [], "info": whole(x.parse())}),
        Some(p::Response::Info7(x)) => json!({"kind": "info7", "own": tok(x.0), "their": tok(x.1), "count": -1, "addrs": [], "info": whole(x.parse())}),
        Some(p::Response::Info664(x)) => json!({"kind": "info664", "own": [], "their": [], "count": -1, "addrs": [], "info": partial(x.parse())}),
        Some(p::Response::Info6Ex(x)) => json!({"kind": "info6ex", "own": [], "their": [], "count": -1, "addrs": [], "info": partial(x.parse())}),
        Some(p::Response::Info6ExMore(x)) => json!({"kind": "info6exmore", "own": [], "their": [], "count": -1, "addrs": [], "info": partial(x.parse())}),
    })
}

/// first field in which the real value differs from the value of the grammar (None: equal)
fn wire_diff(want: &Value, got: &Value) -> Option<String> {
    if want["kind"] != got["kind"] {
        return Some("kind".into());
    }
    if want["kind"] == "none" {
        return None;
    }
    for f in ["own", "their", "count", "addrs"] {
        if canon(&want[f]) != canon(&got[f]) {
            return Some(f.into());
        }
    }
    let (wi, gi) = (&want["info"], &got["info"]);
    if gi.is_null() {
        return None;
    }
    if wi["some"] != gi["some"] {
        return Some("some".into());
    }
    if wi["some"] != true {
        return None;
    }
    if gi["partial"] == true {
        if wi["token"] != gi["token"] {
            return Some("token".into());
        }
        if wi["complete"] != gi["complete"] {
            return Some("complete".into());
        }
        if gi["take_same"] == false {
            return Some("take_info".into());
        }
        if let Some(m) = gi["mask"].as_u64() {
            let wm = wi["mask"].as_array().map(|a| a.iter().fold(0u64, |acc, b| acc | 1u64.checked_shl(b.as_u64().unwrap_or(99) as u32).unwrap_or(0))).unwrap_or(0);
            if m != wm {
                return Some("mask".into());
            }
        }
    }
    let full = &gi["full"];
    if full.is_null() {
        return None;
    }
    for f in ["ver", "token", "version", "name", "hostname", "map", "crc", "msize", "gametype", "flags", "prog", "skill", "np", "mp", "nc", "mc"] {
        if canon(&wi[f]) != canon(&full[f]) {
            return Some(f.into());
        }
    }
    if canon(&wi["clients"]) != canon(&full["clients"]) {
        return Some("clients".into());
    }
    None
}

fn wire_replay() {
    let stdin = std::io::stdin();
    let (mut cases, mut nontrivial, mut full_compared) = (0u64, 0u64, 0u64);
    let mut fams: HashMap<String, u64> = HashMap::new();
    let mut panics: HashMap<String, (u64, Value)> = HashMap::new();
    let mut drift: HashMap<String, (u64, Value)> = HashMap::new();
    let mut tlc_tail: Vec<String> = Vec::new();
    let mut samples: Vec<Value> = Vec::new();
    for line in stdin.lock().lines() {
        let line = match line {
            Ok(l) => l,
            Err(_) => break,
        };
        let t = match parse_tlc_tuple(&line) {
            Some(t) if t.len() == 3 && t[0] == "W" => t,
            _ => {
                if !line.starts_with("<<\"W\"") {
                    if tlc_tail.len() >= 600 {
                        tlc_tail.remove(0);
                    }
                    tlc_tail.push(line);
                }
                continue;
            }
        };
        let (c, want): (Value, Value) = match (serde_json::from_str(&t[1]), serde_json::from_str(&t[2])) {
            (Ok(a), Ok(b)) => (a, b),
            _ => continue,
        };
        cases += 1;
        let fam = c["fam"].as_str().unwrap_or("?").to_string();
        *fams.entry(fam.split(':').next().unwrap_or("?").to_string()).or_insert(0) += 1;
        let d: Vec<u8> = c["d"].as_array().map(|a| a.iter().map(|b| b.as_u64().unwrap_or(0) as u8).collect()).unwrap_or_default();
        let hexd = vh_common::hex(&d);
        set_case(&json!({"fam": fam, "hex": hexd}).to_string());
        if want["kind"] != "none" {
            nontrivial += 1;
        }
        match wire_value(&d) {
            Err(msg) => {
                let mut m = msg.clone();
                m.truncate(40);
                let key = format!("panic:wire:{}:{}", fam, m);
                panics.entry(key).or_insert((0, json!({"replay": {"kind": "wire", "fam": fam, "hex": hexd}, "why": msg}))).0 += 1;
            }
            Ok(got) => {
                if !got["info"]["full"].is_null() {
                    full_compared += 1;
                }
                if let Some(f) = wire_diff(&want, &got) {
                    drift.entry(format!("wire-value:{}:{}", fam, f)).or_insert((0, json!({"hex": hexd, "want": want, "got": got}))).0 += 1;
                }
                if samples.len() < 2 && want["info"]["some"] == true && want["info"]["clients"].as_array().map(|a| a.len() >= 2).unwrap_or(false) {
                    samples.push(json!({"fam": fam, "bytes": d.len(), "result": got}));
                }
            }
        }
    }
    let conv = |m: HashMap<String, (u64, Value)>| -> Value {
        let mut v: Vec<(String, (u64, Value))> = m.into_iter().collect();
        v.sort_by(|a, b| a.0.cmp(&b.0));
        Value::Array(v.into_iter().map(|(k, (n, x))| json!({"key": k, "count": n, "first": x})).collect())
    };
    println!(
        "{}",
        json!({"summary": true, "cases": cases, "nontrivial": nontrivial, "full_compared": full_compared, "families": fams,
               "panics": conv(panics), "drift": conv(drift), "samples": samples, "tlc_tail": tlc_tail})
    );
}

// ---------------------------------------------------------------- token-level parsing (SrvInfoParse)

fn info_header(k: &str) -> &'static [u8] {
    match k {
        "v5" => p::INFO_5,
        "v6" => p::INFO_6,
        "v6ddper" => p::INFO_6_DDPER,
        "v664" => p::INFO_6_64,
        "v6ex" => p::INFO_6_EX,
        "v6exmore" => p::INFO_6_EX_MORE,
        "v7" => p::INFO_7,
        _ => panic!("harness: kind"),
    }
}

fn put_varint(out: &mut Vec<u8>, v: i32) {
    let sign: u8 = if v < 0 { 1 } else { 0 };
    let mut m: u32 = if v < 0 { !(v as u32) } else { v as u32 };
    let mut b = (sign << 6) | (m & 0x3f) as u8;
    m >>= 6;
    if m != 0 {
        b |= 0x80;
    }
    out.push(b);
    while m != 0 {
        let mut b = (m & 0x7f) as u8;
        m >>= 7;
        if m != 0 {
            b |= 0x80;
        }
        out.push(b);
    }
}

fn render_tokens(k: &str, toks: &[Value]) -> Vec<u8> {
    let mut d = info_header(k).to_vec();
    for t in toks {
        let v = t["v"].as_i64().unwrap_or(0);
        if t["ty"] == "i" {
            if k == "v7" {
                put_varint(&mut d, v as i32);
            } else {
                push_int(&mut d, v);
            }
        } else if v >= 100 {
            push_str(&mut d, &format!("c{:03}", v - 100));
        } else {
            // (0.7: a "string" where a number is expected cannot be expressed - every byte sequence
            // is a number; the case keeps a string there, which shifts the stream)
            push_str(&mut d, &format!("s{}", v));
        }
    }
    d
}

/// number of clients in the Debug image of a PartialServerInfo ("...: [a, b], received: N }")
fn count_names(dbg: &str) -> usize {
    let end = match dbg.rfind("], received") {
        Some(e) => e,
        None => return usize::MAX,
    };
    let start = match dbg[..end].rfind(": [") {
        Some(s) => s + 3,
        None => return usize::MAX,
    };
    let inner = &dbg[start..end];
    if inner.is_empty() {
        0
    } else {
        inner.split(", ").count()
    }
}

/// parse a rendered info datagram: {"some":bool,"n":clients,"bits":[..] or null} or panic
fn run_info(d: &[u8]) -> Result<Value, String> {
    catch(|| {
        let r = p::parse_response(d);
        let (some, n, mask): (bool, usize, Option<u64>) = match r {
            Some(p::Response::Info5(x)) => x.parse().map(|i| (true, i.clients.len(), None)).unwrap_or((false, 0, None)),
            Some(p::Response::Info6(x)) => x.parse().map(|i| (true, i.clients.len(), None)).unwrap_or((false, 0, None)),
            Some(p::Response::Info6Ddper(x)) => x.parse().map(|i| (true, i.clients.len(), None)).unwrap_or((false, 0, None)),
            Some(p::Response::Info7(x)) => x.parse().map(|i| (true, i.clients.len(), None)).unwrap_or((false, 0, None)),
            Some(p::Response::Info664(x)) => partial_view(x.parse()),
            Some(p::Response::Info6Ex(x)) => partial_view(x.parse()),
            Some(p::Response::Info6ExMore(x)) => partial_view(x.parse()),
            _ => return json!({"some": false, "n": 0, "mask": null, "notinfo": true}),
        };
        json!({"some": some, "n": n, "mask": mask})
    })
}

fn partial_view(x: Option<p::PartialServerInfo>) -> (bool, usize, Option<u64>) {
    match x {
        None => (false, 0, None),
        Some(pi) => {
            let s = format!("{:?}", pi);
            let mask = s.rfind("received: ").and_then(|i| {
                let num: String = s[i + 10..].chars().take_while(|c| c.is_ascii_digit()).collect();
                num.parse::<u64>().ok()
            });
            (true, count_names(&s), mask)
        }
    }
}

fn resp_header(hk: &str) -> Vec<u8> {
    match hk {
        "list5" => p::LIST_5.to_vec(),
        "list6" => p::LIST_6.to_vec(),
        "list7" => p::LIST_7.to_vec(),
        "count" => p::COUNT.to_vec(),
        "count7" => p::COUNT_7.to_vec(),
        "info5" => p::INFO_5.to_vec(),
        "info6" => p::INFO_6.to_vec(),
        "info6ddper" => p::INFO_6_DDPER.to_vec(),
        "info664" => p::INFO_6_64.to_vec(),
        "info6ex" => p::INFO_6_EX.to_vec(),
        "info6exmore" => p::INFO_6_EX_MORE.to_vec(),
        "info7" => p::INFO_7.to_vec(),
        "token7" => p::TOKEN_7.to_vec(),
        _ => panic!("harness: response kind"),
    }
}

fn render_resp(hk: &str, pre: &str, len: usize) -> Vec<u8> {
    let mut d = resp_header(hk);
    match pre {
        "xe" => d[..6].copy_from_slice(b"xe\0\0\0\0"),
        "noflag" => d[0] = 0,
        "short" => {
            // `len` bytes of header + payload are present
            for j in 0..20 {
                d.push((j * 37 + 5) as u8);
            }
            d.truncate(len);
            return d;
        }
        _ => {}
    }
    for j in 0..len {
        d.push((j * 37 + 5) as u8);
    }
    d
}

fn touch_partial(x: Option<p::PartialServerInfo>) {
    if let Some(mut pi) = x {
        let _ = pi.token();
        let _ = pi.get_info().map(|i| i.clients.len());
        let mut c = pi.clone();
        let _ = c.take_info();
        let _ = c.take_info();
        let _ = pi.merge(c);
        let me = pi.clone();
        let _ = pi.merge(me);
        let _ = format!("{:?}", pi);
    }
}

/// classify through the real parse_response and touch every accessor of the result
fn run_resp(d: &[u8]) -> Result<Value, String> {
    catch(|| {
        let (kind, entries): (&str, usize) = match p::parse_response(d) {
            None => ("none", 0),
            Some(p::Response::List5(l)) => {
                for a in l.0 {
                    let _ = format!("{}", a.unpack());
                }
                ("list5", l.0.len())
            }
            Some(p::Response::List6(l)) => {
                for a in l.0 {
                    let _ = format!("{}", a.unpack());
                }
                ("list6", l.0.len())
            }
            Some(p::Response::List7(l)) => {
                for a in l.2 {
                    let _ = format!("{}", a.unpack());
                }
                let _ = format!("{} {}", l.0, l.1);
                ("list7", l.2.len())
            }
            Some(p::Response::Count(_)) => ("count", 0),
            Some(p::Response::Count7(_)) => ("count7", 0),
            Some(p::Response::Info5(x)) => {
                let _ = x.parse().map(|i| format!("{:?}", i));
                ("info5", 0)
            }
            Some(p::Response::Info6(x)) => {
                let _ = x.parse().map(|i| format!("{:?}", i));
                ("info6", 0)
            }
            Some(p::Response::Info6Ddper(x)) => {
                let _ = x.parse().map(|i| format!("{:?}", i));
                ("info6ddper", 0)
            }
            Some(p::Response::Info664(x)) => {
                touch_partial(x.parse());
                ("info664", 0)
            }
            Some(p::Response::Info6Ex(x)) => {
                touch_partial(x.parse());
                ("info6ex", 0)
            }
            Some(p::Response::Info6ExMore(x)) => {
                touch_partial(x.parse());
                ("info6exmore", 0)
            }
            Some(p::Response::Info7(x)) => {
                let _ = x.parse().map(|i| format!("{:?}", i));
                ("info7", 0)
            }
            Some(p::Response::Token7(_)) => ("token7", 0),
        };
        json!({"kind": kind, "entries": entries})
    })
}

fn parse_replay() {
    let stdin = std::io::stdin();
    let (mut cases, mut info_cases, mut resp_cases, mut nontrivial) = (0u64, 0u64, 0u64, 0u64);
    let mut panics: HashMap<String, (u64, Value)> = HashMap::new();
    let mut drift: HashMap<String, (u64, Value)> = HashMap::new();
    let mut tlc_tail: Vec<String> = Vec::new();
    let mut samples: Vec<Value> = Vec::new();
    let mut mask_seen = 0u64;
    for line in stdin.lock().lines() {
        let line = match line {
            Ok(l) => l,
            Err(_) => break,
        };
        let t = match parse_tlc_tuple(&line) {
            Some(t) if t.len() == 3 && t[0] == "C" => t,
            _ => {
                if !line.starts_with("<<\"C\"") {
                    if tlc_tail.len() >= 600 {
                        tlc_tail.remove(0);
                    }
                    tlc_tail.push(line);
                }
                continue;
            }
        };
        let (c, want): (Value, Value) = match (serde_json::from_str(&t[1]), serde_json::from_str(&t[2])) {
            (Ok(a), Ok(b)) => (a, b),
            _ => continue,
        };
        cases += 1;
        set_case(&c.to_string());
        if c["t"] == "info" {
            info_cases += 1;
            let k = c["k"].as_str().unwrap_or("");
            let toks: Vec<Value> = c["toks"].as_array().cloned().unwrap_or_default();
            let d = render_tokens(k, &toks);
            match run_info(&d) {
                Err(msg) => {
                    let mut m = msg.clone();
                    m.truncate(40);
                    let key = format!("panic:parse:{}:{}", k, m);
                    panics.entry(key).or_insert((0, json!({"replay": {"kind": "parse", "case": c}, "why": msg, "hex": vh_common::hex(&d)}))).0 += 1;
                }
                Ok(got) => {
                    let wsome = want["some"].as_bool().unwrap_or(false);
                    // 0.7: a non-number token cannot be expressed, the stream is only shifted: skip the comparison
                    let inexpressible = k == "v7" && toks.iter().any(|t| t["ty"] == "s" && t["v"] == 0);
                    if wsome {
                        nontrivial += 1;
                    }
                    if !inexpressible {
                        let mut same = got["some"].as_bool() == Some(wsome);
                        if same && wsome {
                            // (an unreadable Debug image is projected as a huge count: skip then)
                            same = got["n"].as_u64() == want["n"].as_u64() || got["n"].as_u64().map(|n| n > 1_000_000).unwrap_or(true);
                            if let Some(m) = got["mask"].as_u64() {
                                mask_seen += 1;
                                let wbits: u64 = want["bits"].as_array().map(|a| a.iter().enumerate().fold(0u64, |acc, (i, b)| if b == true && i < 64 { acc | 1 << i } else { acc })).unwrap_or(0);
                                if m != wbits {
                                    same = false;
                                }
                            }
                        }
                        if !same {
                            let key = format!("parse-verdict:{}", k);
                            drift.entry(key).or_insert((0, json!({"case": c, "want": want, "got": got}))).0 += 1;
                        }
                    }
                    if samples.len() < 2 && wsome && want["n"].as_u64().unwrap_or(0) >= 2 {
                        samples.push(json!({"kind": k, "tokens": toks.len(), "result": got}));
                    }
                }
            }
        } else {
            resp_cases += 1;
            let hk = c["hk"].as_str().unwrap_or("");
            let d = render_resp(hk, c["pre"].as_str().unwrap_or("std"), c["len"].as_u64().unwrap_or(0) as usize);
            match run_resp(&d) {
                Err(msg) => {
                    let key = format!("panic:response:{}:{}", hk, c["pre"].as_str().unwrap_or(""));
                    panics.entry(key).or_insert((0, json!({"replay": {"kind": "parse", "case": c}, "why": msg}))).0 += 1;
                }
                Ok(got) => {
                    if got["kind"] != want["kind"] || (want["kind"] != "none" && got["entries"] != want["entries"]) {
                        drift.entry(format!("classify:{}:{}", hk, c["pre"].as_str().unwrap_or(""))).or_insert((0, json!({"case": c, "want": want, "got": got}))).0 += 1;
                    }
                    if got["kind"] != "none" {
                        nontrivial += 1;
                    }
                }
            }
        }
    }
    let conv = |m: HashMap<String, (u64, Value)>| -> Value {
        let mut v: Vec<(String, (u64, Value))> = m.into_iter().collect();
        v.sort_by(|a, b| a.0.cmp(&b.0));
        Value::Array(v.into_iter().map(|(k, (n, x))| json!({"key": k, "count": n, "first": x})).collect())
    };
    println!(
        "{}",
        json!({"summary": true, "cases": cases, "info_cases": info_cases, "resp_cases": resp_cases, "nontrivial": nontrivial,
               "mask_compared": mask_seen, "panics": conv(panics), "drift": conv(drift), "samples": samples, "tlc_tail": tlc_tail})
    );
}

// ---------------------------------------------------------------- direction B

fn part_664(srv: i64, tok: i64, n: usize, off: i64, cnt: usize, rec: &[i64]) -> Value {
    let cl: Vec<i64> = (0..cnt as i64).map(|k| off + k + 1).collect();
    let recs: Vec<i64> = cl.iter().map(|c| rec[((*c - 1).rem_euclid(70)) as usize]).collect();
    json!({"srv": srv, "v": "v664", "tok": tok, "main": true, "n": n, "off": off, "cl": cl, "recs": recs})
}
fn part_ex(srv: i64, tok: i64, n: usize, pno: i64, cl: Vec<i64>, rec: &[i64]) -> Value {
    let recs: Vec<i64> = cl.iter().map(|c| rec[((*c - 1).rem_euclid(70)) as usize]).collect();
    json!({"srv": srv, "v": "v6ex", "tok": tok, "main": pno == 0, "n": if pno == 0 { n } else { 0 }, "off": pno, "cl": cl, "recs": recs})
}
fn parts_664(srv: i64, tok: i64, sizes: &[usize], rec: &[i64]) -> Vec<Value> {
    let n: usize = sizes.iter().sum();
    let mut from = 0usize;
    let mut out = Vec::new();
    for s in sizes {
        out.push(part_664(srv, tok, n, from.min(63) as i64, *s, rec));
        from += s;
    }
    out
}
fn parts_ex(srv: i64, tok: i64, sizes: &[usize], first_id: i64, rec: &[i64]) -> Vec<Value> {
    let n: usize = sizes.iter().sum();
    let mut from = first_id;
    let mut out = Vec::new();
    for (k, s) in sizes.iter().enumerate() {
        out.push(part_ex(srv, tok, n, k as i64, (from..from + *s as i64).collect(), rec));
        from += *s as i64;
    }
    out
}

/// split `total` clients into parts so that every rendered datagram is as full as the 1400-byte
/// limit allows (ex: extended format; the first part is the main packet)
fn fill_sizes(total: usize, ex: bool, style: Style, rec: &[i64]) -> Vec<usize> {
    let mut sizes = Vec::new();
    let mut done = 0usize;
    while done < total || sizes.is_empty() {
        let mut s = 0usize;
        loop {
            if done + s >= total {
                break;
            }
            let cand = if ex {
                part_ex(1, 7, total, sizes.len() as i64, (done as i64 + 1..=(done + s + 1) as i64).collect(), rec)
            } else {
                part_664(1, 7, total, done as i64, s + 1, rec)
            };
            if render_part(&cand, style).len() > 1400 {
                break;
            }
            s += 1;
        }
        sizes.push(s);
        done += s;
        if s == 0 {
            break;
        }
    }
    sizes
}

fn random_sizes(rng: &mut StdRng, total: usize, ex: bool, maxpart: usize) -> Vec<usize> {
    let mut sizes = vec![];
    let mut left = total;
    if ex {
        let s = rng.gen_range(0..10.min(left + 1));
        sizes.push(s);
        left -= s;
    }
    while left > 0 && sizes.len() < 63 {
        let lo = if ex { 1 } else { 0 };
        let s = rng.gen_range(lo..=maxpart.min(left));
        sizes.push(s);
        left -= s;
    }
    if left > 0 {
        let l = sizes.len();
        sizes[l - 1] += left;
    }
    sizes
}

fn drive(args: &[String]) {
    let seed: u64 = args[0].parse().unwrap_or(1);
    let thorough = args[1] == "thorough";
    let prefix = &args[2];
    let mut rng = StdRng::seed_from_u64(seed ^ 0x5151);
    let path = format!("{}-merge.ndjson", prefix);
    let mut w = std::io::BufWriter::new(std::fs::File::create(&path).unwrap());
    let (mut runs, mut events) = (0u64, 0u64);
    let nruns = if thorough { 480 } else { 48 };
    let mut maxlen = 0usize;
    for r in 0..nruns {
        let style = STYLES[rng.gen_range(0..4)];
        // records: all different, or a server full of equal records (1, 2 or 3 distinct ones)
        let rec: Vec<i64> = match rng.gen_range(0..3) {
            0 => {
                let k = rng.gen_range(1..=3);
                let base: Vec<i64> = (0..k).map(|_| rng.gen_range(1..=64)).collect();
                (0..70).map(|c| base[c % k]).collect()
            }
            _ => (0..70).map(|c| (c % 64) as i64 + 1).collect(),
        };
        // real-size instances: 64 clients; legacy 24/24/16, random finer splits, datagrams filled up to
        // 1400 bytes; extended with the maximum number of packets, random splits, filled datagrams;
        // a second server / malformed parts mixed in
        let mut parts: Vec<Value> = match r % 8 {
            0 => parts_664(1, 7, &[24, 24, 16], &rec),
            1 => parts_664(1, 7, &random_sizes(&mut rng, 64, false, 24), &rec),
            2 => parts_ex(1, 7, &vec![1; 64], 1, &rec),
            3 => parts_ex(1, 7, &random_sizes(&mut rng, 64, true, 12), 1, &rec),
            4 => parts_664(1, 7, &fill_sizes(64, false, style, &rec), &rec),
            5 => parts_ex(1, 7, &fill_sizes(64, true, style, &rec), 1, &rec),
            6 => parts_664(1, 7, &random_sizes(&mut rng, 64, false, 30), &rec),
            _ => parts_ex(1, 7, &random_sizes(&mut rng, 64, true, 30), 1, &rec),
        };
        match rng.gen_range(0..6) {
            // parts of another request: other token, other version, or indistinguishable
            0 => parts.extend(parts_ex(2, 9, &[2, 3, 2], 1, &rec)),
            1 => {
                let other = if parts[0]["v"] == "v664" { parts_ex(2, 7, &[2, 3], 1, &rec) } else { parts_664(2, 7, &[3, 2], &rec) };
                parts.extend(other)
            }
            2 => {
                // malformed parts of the same server: overlapping / out-of-range slots, repeated or
                // out-of-range packet numbers
                if parts[0]["v"] == "v664" {
                    let off = rng.gen_range(0..70);
                    parts.push(part_664(1, 7, 64, off, rng.gen_range(0..6), &rec));
                } else {
                    let pno = *[1i64, 2, 63, 64, 0].choose(&mut rng).unwrap();
                    parts.push(part_ex(1, 7, 64, pno.max(0), vec![rng.gen_range(1..=64)], &rec));
                    if pno == 0 {
                        let l = parts.len();
                        parts[l - 1]["main"] = json!(false);
                        parts[l - 1]["n"] = json!(0);
                    }
                }
            }
            _ => {}
        }
        let np = parts.len();
        for k in 0..np {
            maxlen = maxlen.max(render_part(&parts[k], style).len());
        }
        let inst = json!({"parts": parts, "rec": rec, "style": style_name(style)});
        writeln!(w, "{}", json!({"t": "I", "inst": inst})).unwrap();
        events += 1;
        runs += 1;
        // a permutation of the parts with duplications, merged with occasional side pools
        let mut order: Vec<usize> = (1..=np).collect();
        order.shuffle(&mut rng);
        let dups = rng.gen_range(0..=np.min(6));
        for _ in 0..dups {
            let x = order[rng.gen_range(0..order.len())];
            let at = rng.gen_range(0..=order.len());
            order.insert(at, x);
        }
        let mut pools = Pools::default();
        let mut alive = true;
        let mut emit_merge = |w: &mut std::io::BufWriter<std::fs::File>, pools: &mut Pools, i: usize, j: usize, events: &mut u64| -> bool {
            let act = json!({"a": "merge", "i": i, "j": j});
            *events += 1;
            match apply(&inst, pools, &act, style) {
                Ok(a) => {
                    writeln!(w, "{}", json!({"t": "M", "i": i, "j": j, "res": a.res, "obs": a.obs, "obsq": a.obsq, "same": a.same})).unwrap();
                    true
                }
                Err(_) => {
                    writeln!(w, "{}", json!({"t": "M", "i": i, "j": j, "res": "panic", "obs": obs_none(), "obsq": obs_none(), "same": true})).unwrap();
                    false
                }
            }
        };
        for pidx in order {
            if !alive {
                break;
            }
            let act = json!({"a": "parse", "p": pidx});
            set_case(&json!({"inst": inst, "act": act}).to_string());
            events += 1;
            match apply(&inst, &mut pools, &act, style) {
                Ok(a) => writeln!(w, "{}", json!({"t": "P", "p": pidx, "res": a.res})).unwrap(),
                Err(_) => {
                    writeln!(w, "{}", json!({"t": "P", "p": pidx, "res": "panic"})).unwrap();
                    break;
                }
            }
            // merge eagerly most of the time; sometimes keep a side partial and merge partials later
            while alive && pools.a.len() > 1 && (pools.a.len() > 3 || rng.gen_range(0..4) != 0) {
                let (i, j) = if rng.gen_range(0..5) == 0 && pools.a.len() > 2 {
                    let i = rng.gen_range(1..=pools.a.len());
                    let mut j = rng.gen_range(1..=pools.a.len());
                    while j == i {
                        j = rng.gen_range(1..=pools.a.len());
                    }
                    (i, j)
                } else {
                    (1, pools.a.len())
                };
                alive = emit_merge(&mut w, &mut pools, i, j, &mut events);
            }
            // the application polls take_info now and then
            if alive && !pools.a.is_empty() && rng.gen_range(0..24) == 0 {
                let i = rng.gen_range(1..=pools.a.len());
                events += 1;
                match apply(&inst, &mut pools, &json!({"a": "take", "i": i}), style) {
                    Ok(a) => writeln!(w, "{}", json!({"t": "K", "i": i, "obs": a.obs})).unwrap(),
                    Err(_) => {
                        writeln!(w, "{}", json!({"t": "K", "i": i, "obs": {"complete": false, "clients": [], "srv": -9, "n": 0}})).unwrap();
                        alive = false;
                    }
                }
            }
        }
        while alive && pools.a.len() > 1 {
            alive = emit_merge(&mut w, &mut pools, 1, 2, &mut events);
        }
        if alive && !pools.a.is_empty() {
            events += 1;
            match apply(&inst, &mut pools, &json!({"a": "take", "i": 1}), style) {
                Ok(a) => writeln!(w, "{}", json!({"t": "K", "i": 1, "obs": a.obs})).unwrap(),
                Err(_) => writeln!(w, "{}", json!({"t": "K", "i": 1, "obs": {"complete": false, "clients": [], "srv": -9, "n": 0}})).unwrap(),
            }
        }
    }
    w.flush().unwrap();

    // totality on arbitrary datagrams: every response kind with random / mutated payloads
    let path2 = format!("{}-total.ndjson", prefix);
    let mut w2 = std::io::BufWriter::new(std::fs::File::create(&path2).unwrap());
    let kinds = ["list5", "list6", "list7", "count", "count7", "info5", "info6", "info6ddper", "info664", "info6ex", "info6exmore", "info7", "token7"];
    let nd = if thorough { 60000 } else { 6000 };
    let mut ev2 = 0u64;
    let idrec: Vec<i64> = (0..70).map(|c| (c % 64) as i64 + 1).collect();
    let valid664 = render_part(&parts_664(1, 7, &[24, 24, 16], &idrec)[1], Style::Long);
    let validex = render_part(&parts_ex(1, 7, &[3, 3, 3], 1, &idrec)[0], Style::Utf8);
    let validmore = render_part(&parts_ex(1, 7, &[3, 3, 3], 1, &idrec)[1], Style::Over);
    for n in 0..nd {
        let hk = kinds[n % kinds.len()];
        let mut d = resp_header(hk);
        let hl = d.len();
        // the bytes of the header that carry tokens / are ignored take arbitrary values
        match hk {
            "list7" | "count7" | "info7" => {
                for b in &mut d[1..9] {
                    *b = rng.gen();
                }
            }
            "token7" => {
                for b in &mut d[3..7] {
                    *b = rng.gen();
                }
            }
            "info6ddper" => {
                for b in &mut d[2..6] {
                    *b = rng.gen();
                }
            }
            _ => {
                if rng.gen_range(0..3) == 0 {
                    for b in &mut d[0..6] {
                        *b = rng.gen();
                    }
                    d[0] |= 0x40;
                }
            }
        }
        match rng.gen_range(0..5) {
            0 => {
                let l = if rng.gen_range(0..10) == 0 { rng.gen_range(1300..1400) } else { rng.gen_range(0..200) };
                for _ in 0..l {
                    d.push(rng.gen());
                }
            }
            1 => {
                // number-ish tokens
                let l = rng.gen_range(0..40);
                for _ in 0..l {
                    let v: i64 = match rng.gen_range(0..7) {
                        0 => -1,
                        1 => 64,
                        2 => 65,
                        3 => rng.gen_range(0..70),
                        4 => i32::MAX as i64,
                        5 => i32::MIN as i64,
                        _ => rng.gen_range(-3..20),
                    };
                    if rng.gen_range(0..8) == 0 {
                        push_str(&mut d, "x");
                    } else {
                        push_int(&mut d, v);
                    }
                }
            }
            2 => {
                // 0.7-style: short strings and variable-length integers
                let l = rng.gen_range(0..40);
                for _ in 0..l {
                    if rng.gen_range(0..3) == 0 {
                        push_str(&mut d, ["a", "", "verylongstringverylongstringverylongstring", "\u{e4}"][rng.gen_range(0..4)]);
                    } else {
                        put_varint(&mut d, [0, 1, -1, 63, 64, 65, 16, 17, i32::MAX, i32::MIN][rng.gen_range(0..10)]);
                    }
                }
            }
            _ => {
                let base = match hk {
                    "info664" => &valid664,
                    "info6ex" => &validex,
                    "info6exmore" => &validmore,
                    _ => &valid664,
                };
                d.extend_from_slice(&base[14..]);
                for _ in 0..rng.gen_range(1..4) {
                    let at = rng.gen_range(hl.min(d.len() - 1)..d.len());
                    match rng.gen_range(0..3) {
                        0 => d[at] = rng.gen(),
                        1 => {
                            d.remove(at);
                        }
                        _ => d.insert(at, b'0' + rng.gen_range(0..10)),
                    }
                }
                if rng.gen_range(0..4) == 0 {
                    let l = rng.gen_range(0..d.len());
                    d.truncate(l);
                }
            }
        }
        set_case(&json!({"hex": vh_common::hex(&d)}).to_string());
        let res = match run_resp(&d) {
            Ok(v) => v["kind"].as_str().unwrap_or("none").to_string(),
            Err(_) => "panic".to_string(),
        };
        let mut e = json!({"t": "D", "hk": hk, "len": d.len(), "res": res});
        if res == "panic" {
            e["hex"] = json!(vh_common::hex(&d));
        }
        writeln!(w2, "{}", e).unwrap();
        ev2 += 1;
    }
    w2.flush().unwrap();
    println!(
        "{}",
        json!({"summary": true, "max_datagram": maxlen,
               "files": [{"path": path, "kind": "merge", "runs": runs, "events": events},
                         {"path": path2, "kind": "total", "runs": nd, "events": ev2}]})
    );
}

fn case(args: &[String]) {
    let v: Value = serde_json::from_str(&std::fs::read_to_string(&args[0]).unwrap()).unwrap();
    let c = if v.get("replay").is_some() { v["replay"].clone() } else { v };
    let c = if c.get("replay").is_some() { c["replay"].clone() } else { c };
    if let Some(h) = c.get("hex").and_then(|h| h.as_str()) {
        let d = vh_common::unhex(h);
        let r = run_resp(&d).and_then(|_| wire_value(&d));
        println!("{}", json!({"result": match r { Ok(v) => v, Err(m) => json!({"panic": m}) }}));
        return;
    }
    if c["kind"] == "parse" {
        let cc = &c["case"];
        let r = if cc["t"] == "info" {
            let toks: Vec<Value> = cc["toks"].as_array().cloned().unwrap_or_default();
            run_info(&render_tokens(cc["k"].as_str().unwrap_or(""), &toks))
        } else {
            run_resp(&render_resp(cc["hk"].as_str().unwrap_or(""), cc["pre"].as_str().unwrap_or("std"), cc["len"].as_u64().unwrap_or(0) as usize))
        };
        println!("{}", json!({"result": match r { Ok(v) => v, Err(m) => json!({"panic": m}) }}));
        return;
    }
    // merge case: re-execute the history on fresh pools and print it as a trace
    let from = &c["from"];
    let inst = &from["inst"];
    let style = style_of(if from.get("style").is_some() { &from["style"] } else { &inst["style"] });
    let mut pools = Pools::default();
    let mut out = Vec::new();
    let mut i2 = inst.clone();
    if i2.get("rec").is_none() {
        i2["rec"] = json!((0..70).map(|c| (c % 64) as i64 + 1).collect::<Vec<i64>>());
        // the export carries the records per part: rebuild the client -> record map from them
        if let Some(parts) = inst["parts"].as_array() {
            for pt in parts {
                for (c, r) in ids(&pt["cl"]).iter().zip(ids(&pt["recs"]).iter()) {
                    if *c >= 1 && *c <= 70 {
                        i2["rec"][(*c - 1) as usize] = json!(*r);
                    }
                }
            }
        }
    }
    writeln!(&mut out, "{}", json!({"t": "I", "inst": i2})).unwrap();
    if let Some(hist) = c.get("history").and_then(|h| h.as_array()) {
        for a in hist {
            let r = apply(inst, &mut pools, a, style);
            match (a["a"].as_str(), r) {
                (Some("parse"), Ok(x)) => writeln!(&mut out, "{}", json!({"t": "P", "p": a["p"], "res": x.res})).unwrap(),
                (Some("merge"), Ok(x)) => writeln!(&mut out, "{}", json!({"t": "M", "i": a["i"], "j": a["j"], "res": x.res, "obs": x.obs, "obsq": x.obsq, "same": x.same})).unwrap(),
                (Some("take"), Ok(x)) => writeln!(&mut out, "{}", json!({"t": "K", "i": a["i"], "obs": x.obs})).unwrap(),
                (Some("parse"), Err(_)) => writeln!(&mut out, "{}", json!({"t": "P", "p": a["p"], "res": "panic"})).unwrap(),
                (Some("take"), Err(_)) => writeln!(&mut out, "{}", json!({"t": "K", "i": a["i"], "obs": {"complete": false, "clients": [], "srv": -9, "n": 0}})).unwrap(),
                (_, Err(_)) => writeln!(&mut out, "{}", json!({"t": "M", "i": a["i"], "j": a["j"], "res": "panic", "obs": obs_none(), "obsq": obs_none(), "same": true})).unwrap(),
                _ => {}
            }
        }
    }
    std::io::stdout().write_all(&out).unwrap();
}

fn main() {
    quiet_panics();
    start_watchdog();
    vh_common::arm(3_600_000);
    let args: Vec<String> = std::env::args().collect();
    match args.get(1).map(|s| s.as_str()) {
        Some("merge") => merge_replay(),
        Some("wire") => wire_replay(),
        Some("parse") => parse_replay(),
        Some("drive") => drive(&args[2..]),
        Some("case") => case(&args[2..]),
        _ => {
            eprintln!("usage: vh-srvinfo merge|wire|parse|drive|case");
            std::process::exit(2);
        }
    }
}
