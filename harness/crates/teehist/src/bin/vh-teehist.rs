//! vh-teehist replay <mismatch-out> [seed]      TLC export on stdin (direction A)
//! vh-teehist drive <seed> <tier> <out-prefix>  records traces of random histories (direction B)
//! vh-teehist case <replay.json> <trace-out>    re-executes one stored case
use serde_json::{json, Value};
use std::io::{BufRead, Write};
use vh_common::rand::rngs::StdRng;
use vh_common::rand::{Rng, SeedableRng};
use vh_common::{canon, parse_tlc_tuple, quiet_panics, set_case, start_watchdog};
use vh_teehist::*;

fn kinds(s: &Value) -> String {
    let mut v: Vec<String> = s["items"]
        .as_array()
        .map(|a| {
            a.iter()
                .map(|it| {
                    let k = it["k"].as_str().unwrap_or("?");
                    if k == "o" {
                        it["s"].as_str().unwrap_or("o").to_string()
                    } else if it.get("c").is_some() {
                        format!("{}{}", k, it["c"])
                    } else {
                        k.to_string()
                    }
                })
                .collect()
        })
        .unwrap_or_default();
    if v.len() > 8 {
        v.truncate(8);
        v.push("...".into());
    }
    let hd = if s.get("hd").map(|h| h.is_object()).unwrap_or(false) {
        let h = &s["hd"];
        format!(
            "hd[{}{}{}/{}/{}/{}/{}/pad{}],",
            if h["magic"][0] == 105 && h["magic"][15] == 209 && h["magic"][1] == 157 && h["magic"][8] == 177 { "" } else { "badmagic/" },
            if h["nul"] == true { "" } else { "nonul/" },
            h["mal"].as_str().unwrap_or(""),
            h["vtext"].as_str().unwrap_or(""),
            h["ver"],
            h["var"].as_str().unwrap_or(""),
            h["num"].as_str().unwrap_or(""),
            h["pad"]
        )
    } else {
        String::new()
    };
    format!("{}{},cut{}", hd, v.join(","), s["cut"])
}

/// model positions -> real positions (the model's header is `hm` bytes long)
fn map_pos(p: usize, hm: usize, hreal: usize) -> usize {
    if hm == 0 {
        p
    } else if p <= hm {
        p * hreal / hm
    } else {
        hreal + (p - hm)
    }
}

fn real_sizes(sched: &[usize], hm: usize, hreal: usize) -> Vec<usize> {
    let mut out = Vec::new();
    let mut cum = 0usize;
    for n in sched {
        let a = map_pos(cum, hm, hreal);
        cum += n;
        out.push(map_pos(cum, hm, hreal) - a);
    }
    out
}

fn random_sizes(rng: &mut StdRng, total: usize) -> Vec<usize> {
    let mut v = Vec::new();
    let mut left = total;
    while left > 0 {
        let n = match rng.gen_range(0..10) {
            0 => 0,
            1..=4 => rng.gen_range(1..=3),
            5..=7 => rng.gen_range(1..=40),
            _ => rng.gen_range(1..=left),
        }
        .min(left);
        v.push(n);
        left -= n;
    }
    v
}

fn write_run(out: &mut dyn Write, s: &Value, hlen: usize, same: bool, run: &Run, with_reads: bool) {
    writeln!(out, "{}", json!({"t": "R", "S": s, "H": hlen, "same": same})).unwrap();
    for e in &run.events {
        if !with_reads && e["t"] == "C" {
            continue;
        }
        writeln!(out, "{}", e).unwrap();
    }
}

fn replay(args: &[String]) {
    let mis_path = &args[0];
    let seed: u64 = args.get(1).and_then(|s| s.parse().ok()).unwrap_or(1);
    let mut mis = std::io::BufWriter::new(std::fs::File::create(mis_path).unwrap());
    let stdin = std::io::stdin();
    let (mut cases, mut runs, mut mism_cases, mut mism_runs, mut panics, mut nontrivial) = (0u64, 0u64, 0u64, 0u64, 0u64, 0u64);
    let mut samples: Vec<Value> = Vec::new();
    let mut tlc_tail: Vec<String> = Vec::new();
    let mut mismatch_list: Vec<Value> = Vec::new();
    for line in stdin.lock().lines() {
        let line = match line {
            Ok(l) => l,
            Err(_) => break,
        };
        let t = match parse_tlc_tuple(&line) {
            Some(t) if t.len() == 2 && t[0] == "F" => t,
            _ => {
                if !line.starts_with("<<\"F\"") {
                    if tlc_tail.len() >= 600 {
                        tlc_tail.remove(0);
                    }
                    tlc_tail.push(line);
                }
                continue;
            }
        };
        let case: Value = match serde_json::from_str(&t[1]) {
            Ok(v) => v,
            Err(_) => continue,
        };
        cases += 1;
        let mut s_owned = case["S"].clone();
        let has_hd = s_owned.get("hd").map(|h| h.is_object()).unwrap_or(false);
        if has_hd {
            // the spec leaves the length of the rendered header text (and "header length - 1") to the harness
            let hl = render_header(&s_owned["hd"]).len();
            s_owned["hd"]["hl"] = json!(hl);
            if s_owned["cut"] == 3 && s_owned["cl"].as_i64() == Some(-1) {
                s_owned["cl"] = json!(hl - 1);
            }
        }
        let s = &s_owned;
        let items: Vec<Value> = s["items"].as_array().cloned().unwrap_or_default();
        let enc = encode_stream(s);
        let want_ev = canon(&case["ev"]);
        let want_end = case["end"].as_str().unwrap_or("").to_string();
        if case["ev"].as_array().map(|a| a.len() >= 3).unwrap_or(false) {
            nontrivial += 1;
        }
        let sched: Vec<usize> = case["sched"]
            .as_array()
            .map(|a| a.iter().map(|x| x.as_u64().unwrap_or(0) as usize).collect())
            .unwrap_or_default();
        let hm = case["hm"].as_u64().unwrap_or(0) as usize;
        let mut frags: Vec<Frag> = Vec::new();
        if !sched.is_empty() {
            frags.push(Frag::Sizes(real_sizes(&sched, hm, enc.hlen)));
        } else if has_hd {
            // cuts around the magic, around the end of the header and around the 8 KiB buffer size
            frags.push(Frag::Whole);
            frags.push(Frag::Each(if enc.bytes.len() > 2000 { 7 } else { 1 }));
            let mut rng = StdRng::seed_from_u64(seed ^ (cases.wrapping_mul(0x9e3779b97f4a7c15)));
            frags.push(Frag::Sizes(random_sizes(&mut rng, enc.bytes.len())));
            let hl = enc.hlen;
            for at in [1usize, 15, 16, 17, hl.saturating_sub(2), hl.saturating_sub(1), hl, hl + 1, 8191, 8192, 8193] {
                if at >= 1 && at < enc.bytes.len() {
                    frags.push(Frag::Sizes(vec![at]));
                    frags.push(Frag::Sizes(vec![at, 0, 1]));
                }
            }
        } else {
            frags.push(Frag::Whole);
            frags.push(Frag::Each(1));
            let mut rng = StdRng::seed_from_u64(seed ^ (cases.wrapping_mul(0x9e3779b97f4a7c15)));
            frags.push(Frag::Sizes(random_sizes(&mut rng, enc.bytes.len())));
        }
        set_case(&json!({"S": s, "sched": case["sched"], "hm": hm}).to_string());
        let mut results: Vec<Run> = Vec::new();
        let mut bad = false;
        for f in frags {
            let run = run_reader_hd(&enc.bytes, f, &items, if has_hd { Some(&s["hd"]) } else { None }, 10 * items.len() + 20, 5000);
            runs += 1;
            if run.end == "panic" {
                panics += 1;
            }
            if canon(&Value::Array(run.outs.clone())) != want_ev || run.end != want_end || !run.quiet_end {
                bad = true;
                mism_runs += 1;
            }
            results.push(run);
        }
        if bad {
            mism_cases += 1;
            if mism_cases <= 400 {
                let first_line = mismatch_list.len();
                for (i, run) in results.iter().enumerate() {
                    write_run(&mut mis, s, enc.hlen, i > 0, run, false);
                }
                let mut case = case.clone();
                case["S"] = s.clone();
                mismatch_list.push(json!({"case": case, "kinds": kinds(s), "n": first_line,
                    "got": results.iter().map(|r| json!({"ev": r.outs, "end": r.end})).collect::<Vec<_>>()}));
            }
        } else if samples.len() < 3 && items.len() >= 3 {
            samples.push(json!({"stream": kinds(s), "sched": case["sched"], "events": results[0].outs.len(), "end": results[0].end}));
        }
    }
    mis.flush().unwrap();
    println!(
        "{}",
        json!({"summary": true, "cases": cases, "runs": runs, "mismatch_cases": mism_cases, "mismatch_runs": mism_runs,
               "panics": panics, "nontrivial": nontrivial, "samples": samples, "mismatches": mismatch_list,
               "tlc_tail": tlc_tail})
    );
}

// ---------------------------------------------------------------- direction B: generators

struct Gen {
    rng: StdRng,
    items: Vec<Value>,
    alive: Vec<i32>,
    inputs: Vec<i32>,
    max_cid: i32,
}

fn big(rng: &mut StdRng) -> i32 {
    match rng.gen_range(0..8) {
        0 => i32::MAX - rng.gen_range(0..3),
        1 => i32::MIN + rng.gen_range(0..3),
        2 => rng.gen_range(-70..70),
        3 => rng.gen_range(-9000..9000),
        4 => rng.gen_range(-1100000..1100000),
        5 => rng.gen_range(-140000000..140000000),
        _ => rng.gen(),
    }
}

const SUBS: [&str; 25] = [
    "msg", "join", "drop", "cc", "x_unknown", "x_antibot", "x_auth_init", "x_auth_login", "x_auth_logout",
    "x_ddnetver", "x_ddnetver_old", "x_joinver6", "x_joinver7", "x_player_finish", "x_player_name",
    "x_player_ready", "x_player_rejoin", "x_player_swap", "x_player_team", "x_team_finish",
    "x_team_load_failure", "x_team_load_success", "x_team_practice", "x_team_save_failure",
    "x_team_save_success",
];

impl Gen {
    fn new(seed: u64, max_cid: i32) -> Gen {
        Gen { rng: StdRng::seed_from_u64(seed), items: Vec::new(), alive: Vec::new(), inputs: Vec::new(), max_cid }
    }
    fn cid(&mut self) -> i32 {
        if self.rng.gen_range(0..if self.max_cid > 63 { 4 } else { 20 }) == 0 {
            self.rng.gen_range(0..=self.max_cid)
        } else {
            self.rng.gen_range(0..=self.max_cid.min(15))
        }
    }
    fn other(&mut self, ver: i64, big_len: Option<usize>) {
        let n = if ver == 1 { 4 } else { SUBS.len() };
        let sub = if big_len.is_some() {
            if ver == 1 || self.rng.gen() {
                "msg"
            } else {
                "x_unknown"
            }
        } else {
            SUBS[self.rng.gen_range(0..n)]
        };
        let sh = shape(sub);
        let live = |g: &mut Gen| -> Option<i32> {
            if !g.alive.is_empty() && g.rng.gen_range(0..2) == 0 {
                let i = g.rng.gen_range(0..g.alive.len());
                Some(g.alive[i])
            } else {
                None
            }
        };
        let c = if sh.contains('c') { live(self).unwrap_or_else(|| self.cid()) } else { 0 };
        let mut a = if sh.contains('s') || sh.contains('d') || sh.contains('r') {
            match self.rng.gen_range(0..6) {
                0 => 0,
                1 => self.rng.gen_range(60..70),
                _ => self.rng.gen_range(0..24),
            }
        } else {
            0
        };
        if let Some(l) = big_len {
            a = l as i32;
        }
        let b = if sub == "cc" {
            self.rng.gen_range(0..=16)
        } else if sh.contains('b') {
            // the second member may be a client id as well (PLAYER_SWAP)
            live(self).unwrap_or_else(|| big(&mut self.rng))
        } else {
            0
        };
        self.items.push(json!({"k": "o", "s": sub, "c": c, "a": a, "b": b}));
    }
    /// one server tick: events, then player records in increasing cid order
    fn tick(&mut self, ver: i64) {
        let r = &mut self.rng;
        if r.gen_range(0..3) == 0 {
            let dt = match r.gen_range(0..40) {
                // boundary values (the spec predicts TickOverflow where the tick would leave 31 bits)
                39 => [i32::MAX, i32::MAX - 1, i32::MAX - 2, 63, 64, 1][r.gen_range(0..6)],
                _ => match r.gen_range(0..10) {
                0..=5 => 0,
                6..=8 => r.gen_range(1..200),
                _ => r.gen_range(1..100000),
                },
            };
            self.items.push(json!({"k": "ts", "a": dt}));
        }
        for _ in 0..self.rng.gen_range(0..4) {
            match self.rng.gen_range(0..3) {
                0 => self.other(ver, None),
                _ => {
                    let c = self.cid();
                    let (a, b) = (big(&mut self.rng), big(&mut self.rng));
                    if self.inputs.contains(&c) && self.rng.gen_range(0..4) != 0 {
                        self.items.push(json!({"k": "id", "c": c, "a": a, "b": b}));
                    } else {
                        self.inputs.push(c);
                        self.items.push(json!({"k": "in", "c": c, "a": a, "b": b}));
                    }
                }
            }
        }
        // spawn / despawn / move
        let mut todo: Vec<(i32, u8)> = Vec::new();
        for c in self.alive.clone() {
            match self.rng.gen_range(0..12) {
                0 => todo.push((c, 2)),
                1 => {}
                _ => todo.push((c, 1)),
            }
        }
        if self.rng.gen_range(0..3) == 0 {
            let c = self.cid();
            if !self.alive.contains(&c) {
                todo.push((c, 0));
            }
        }
        todo.sort();
        // sometimes records are not in cid order (several implicit ticks)
        if self.rng.gen_range(0..6) == 0 && todo.len() > 1 {
            let i = self.rng.gen_range(0..todo.len());
            let x = todo.remove(i);
            todo.push(x);
        }
        for (c, what) in todo {
            match what {
                0 => {
                    self.alive.push(c);
                    let (a, b) = (big(&mut self.rng), big(&mut self.rng));
                    self.items.push(json!({"k": "pn", "c": c, "a": a, "b": b}));
                }
                1 => {
                    let (a, b) = (big(&mut self.rng), big(&mut self.rng));
                    self.items.push(json!({"k": "pd", "c": c, "a": a, "b": b}));
                }
                _ => {
                    self.alive.retain(|x| *x != c);
                    self.items.push(json!({"k": "po", "c": c}));
                }
            }
        }
    }
    /// a semantically wrong / hostile item (the spec predicts the error)
    fn wrong(&mut self, ver: i64) {
        let c = self.cid();
        let it = match self.rng.gen_range(0..9) {
            0 => json!({"k": "pd", "c": (0..64).find(|x| !self.alive.contains(x)).unwrap_or(70), "a": 1, "b": 1}),
            1 => json!({"k": "po", "c": (0..64).find(|x| !self.alive.contains(x)).unwrap_or(70)}),
            2 if !self.alive.is_empty() => json!({"k": "pn", "c": self.alive[0], "a": 0, "b": 0}),
            3 => json!({"k": "id", "c": (0..64).find(|x| !self.inputs.contains(x)).unwrap_or(70), "a": 1, "b": 2}),
            4 => json!({"k": "ts", "a": -1 - self.rng.gen_range(0..5)}),
            5 => json!({"k": "ts", "a": i32::MAX - self.rng.gen_range(0..3)}),
            6 => json!({"k": "bad", "a": if ver == 1 && self.rng.gen() { -11 } else { -12 - self.rng.gen_range(0..100000) }}),
            7 => json!({"k": "pn", "c": -1 - self.rng.gen_range(0..100), "a": 0, "b": 0}),
            _ => json!({"k": "in", "c": -1 - c, "a": 0, "b": 0}),
        };
        self.items.push(it);
    }
}

fn stream(ver: i64, items: Vec<Value>, cut: i64, cl: usize) -> Value {
    json!({"ver": ver, "items": items, "cut": cut, "cl": cl})
}

/// truncation of an encoded stream at byte `at`: the descriptor the spec understands
fn truncated(ver: i64, items: &[Value], enc: &Encoded, at: usize) -> Value {
    if at < enc.hlen {
        return stream(ver, vec![], 3, at);
    }
    for (i, (s0, s1, s2)) in enc.spans.iter().enumerate() {
        if at == *s0 {
            return stream(ver, items[..i].to_vec(), 0, 0);
        }
        if at > *s0 && at < *s1 {
            return stream(ver, items[..=i].to_vec(), 2, at - s0);
        }
        if at >= *s1 && at < *s2 {
            return stream(ver, items[..=i].to_vec(), 1, at - s1);
        }
    }
    stream(ver, items.to_vec(), 0, 0)
}

struct Out {
    w: std::io::BufWriter<std::fs::File>,
    events: u64,
    runs: u64,
}
impl Out {
    fn new(path: &str) -> Out {
        Out { w: std::io::BufWriter::new(std::fs::File::create(path).unwrap()), events: 0, runs: 0 }
    }
    fn run(&mut self, s: &Value, same: bool, frag: Frag, with_reads: bool) -> Run {
        let enc = encode_stream(s);
        let items: Vec<Value> = s["items"].as_array().cloned().unwrap_or_default();
        set_case(&json!({"S": kinds(s), "bytes": enc.bytes.len()}).to_string());
        let run = run_reader(&enc.bytes, frag, &items, 10 * items.len() + 50, 20000);
        write_run(&mut self.w, s, enc.hlen, same, &run, with_reads);
        self.events += 1 + run.events.iter().filter(|e| with_reads || e["t"] != "C").count() as u64;
        self.runs += 1;
        run
    }
}

/// Streams whose decode-unit boundaries fall exactly on chosen stream offsets (the offsets at which
/// the reader's 8 KiB window is full), obtained by padding with a MESSAGE record of the right size.
/// `kind`: 0 = a record ends at the target, 1 = the message-id / payload boundary of the next record
/// is at the target, 2 = the record after the padding ends at the target.
fn aligned_items(seed: u64, targets: &[usize], kind: u8) -> Vec<Value> {
    let hlen = header(2).len();
    let mut g = Gen::new(seed, 63);
    let mut pos = hlen;
    let len_of = |idx: usize, it: &Value| {
        let (k, r) = encode_item(idx, it);
        (k.len(), r.len())
    };
    for (tno, t) in targets.iter().enumerate() {
        // the record that follows the padding: a PLAYER_NEW with a 3-byte message id
        let next = json!({"k": "pn", "c": 70 + tno, "a": 5, "b": -70});
        let (nk, nr) = len_of(0, &next);
        let extra = match kind {
            0 => 0,
            1 => nk,
            _ => nk + nr,
        };
        // some ordinary traffic, as long as there is room before the target
        for round in 0..3 {
            let before = g.items.len();
            g.tick(2);
            let add: usize = g.items[before..].iter().map(|it| { let (a, b) = len_of(0, it); a + b }).sum();
            if pos + add + extra + 600 > *t || round == 2 {
                g.items.truncate(before);
                // undo the generator's bookkeeping of the dropped tick as far as validity needs it:
                // rebuild alive / inputs from the kept items
                g.alive.clear();
                g.inputs.clear();
                for it in g.items.iter() {
                    let c = it["c"].as_i64().unwrap_or(0) as i32;
                    match it["k"].as_str().unwrap_or("") {
                        "pn" => g.alive.push(c),
                        "po" => g.alive.retain(|x| *x != c),
                        "in" => if !g.inputs.contains(&c) { g.inputs.push(c) },
                        _ => {}
                    }
                }
                break;
            }
            pos += add;
        }
        // padding message: 1 + VarLen(cid) + VarLen(size) + size bytes
        let want = *t - extra - pos;
        let mut size = want.saturating_sub(8);
        loop {
            let pad = json!({"k": "o", "s": "msg", "c": 0, "a": size, "b": 0});
            let (a, b) = len_of(0, &pad);
            if a + b == want {
                g.items.push(pad);
                pos += want;
                break;
            }
            size += 1;
            if size > want {
                eprintln!("harness: cannot pad to {}", t);
                std::process::exit(3);
            }
        }
        g.items.push(next.clone());
        g.alive.push(70 + tno as i32);
        pos += nk + nr;
    }
    for _ in 0..3 {
        g.tick(2);
    }
    g.items.push(json!({"k": "fin"}));
    g.items
}

fn drive(args: &[String]) {
    let seed: u64 = args[0].parse().unwrap_or(1);
    let thorough = args[1] == "thorough";
    let prefix = &args[2];
    let mut files: Vec<Value> = Vec::new();
    let mut stats = json!({});
    let mut rng = StdRng::seed_from_u64(seed ^ 0xabcdef);
    let (mut n_streams, mut n_trunc, mut n_corrupt, mut n_skipped, mut max_bytes, mut grow_items) = (0u64, 0u64, 0u64, 0u64, 0usize, 0u64);

    // ---- file group 1: generated histories (valid or with a predicted error), detailed validation
    let nfiles = if thorough { 4 } else { 1 };
    for fno in 0..nfiles {
        let path = format!("{}-hist-{}.ndjson", prefix, fno);
        let mut out = Out::new(&path);
        let nstreams = if thorough { 6 } else { 3 };
        let quick = !thorough;
        for sno in 0..nstreams {
            let ver = if sno % 3 == 2 { 1 } else { 2 };
            let mut g = Gen::new(seed.wrapping_mul(1000003) ^ (fno * 100 + sno) as u64, if sno % 2 == 1 { 63 } else { 4095 });
            let ticks = match sno {
                0 => if quick { 6 } else { 12 },
                1 => if thorough { 250 } else { 16 },
                _ => rng.gen_range(if quick { 10..25 } else { 20..120 }),
            };
            let big_at = if sno == 1 || (thorough && sno == 3) { Some(ticks / 2) } else { None };
            let wrong_at = if sno >= 3 && sno % 2 == 1 { Some(ticks - 2) } else { None };
            for t in 0..ticks {
                g.tick(ver);
                if Some(t) == big_at {
                    g.other(ver, Some(if thorough { 20000 } else { 9000 }));
                    g.other(ver, Some(8300));
                    grow_items += 2;
                }
                if Some(t) == wrong_at {
                    g.wrong(ver);
                }
            }
            if wrong_at.is_none() {
                g.items.push(json!({"k": "fin"}));
            }
            let s = stream(ver, g.items.clone(), 0, 0);
            let enc = encode_stream(&s);
            n_streams += 1;
            max_bytes = max_bytes.max(enc.bytes.len());
            let total = enc.bytes.len();
            // whole, random splits, byte-by-byte (short streams), two-piece splits
            out.run(&s, false, Frag::Whole, true);
            for _ in 0..(if thorough { 3 } else { 2 }) {
                let sizes = random_sizes(&mut rng, total);
                out.run(&s, true, Frag::Sizes(sizes), true);
            }
            if total < 3000 {
                out.run(&s, true, Frag::Each(1), true);
                let step = if thorough { 2 } else { 61 };
                let mut at = 1;
                while at < total {
                    out.run(&s, true, Frag::Sizes(vec![at]), true);
                    at += step;
                }
            } else {
                out.run(&s, true, Frag::Each(rng.gen_range(2..50)), true);
                for _ in 0..(if thorough { 12 } else { 3 }) {
                    let at = rng.gen_range(1..total);
                    out.run(&s, true, Frag::Sizes(vec![at]), true);
                }
            }
            // truncations
            let ntr = if thorough { 40 } else { 4 };
            for j in 0..ntr {
                let at = if j < 3 { rng.gen_range(0..enc.hlen) } else { rng.gen_range(enc.hlen..total) };
                let ts = truncated(ver, &g.items, &enc, at);
                let tenc = encode_stream(&ts);
                if tenc.bytes[..] != enc.bytes[..at] {
                    eprintln!("harness: truncation descriptor does not reproduce the prefix at {}", at);
                    std::process::exit(3);
                }
                n_trunc += 1;
                out.run(&ts, false, Frag::Whole, true);
                let sizes = random_sizes(&mut rng, at);
                out.run(&ts, true, Frag::Sizes(sizes), true);
            }
        }
        out.w.flush().unwrap();
        files.push(json!({"path": path, "mode": "detailed", "events": out.events, "runs": out.runs}));
    }

    // ---- file group 1b: record boundaries aligned with the offsets at which the 8 KiB window is
    // full (8192 * m, and one byte before / after), deterministic, in both tiers
    {
        let path = format!("{}-aligned.ndjson", prefix);
        let mut out = Out::new(&path);
        let fills: Vec<usize> = vec![8192, 16384, 24576];
        let mut variants: Vec<(Vec<usize>, u8)> = vec![
            (fills.clone(), 0), (fills.clone(), 1), (fills.clone(), 2),
            (vec![8191, 16384], 0), (vec![8193, 16384], 0), (vec![8192], 0),
        ];
        if thorough {
            variants.push((vec![8191, 16383, 24575], 1));
            variants.push((vec![8193, 16385, 24577], 2));
            variants.push((vec![8192, 16383, 24576], 0));
        }
        for (vno, (targets, kind)) in variants.iter().enumerate() {
            let items = aligned_items(seed ^ (vno as u64 + 4242), targets, *kind);
            let s = stream(2, items, 0, 0);
            let enc = encode_stream(&s);
            // the alignment itself is checked here (tool failure, not a verdict)
            for t in targets {
                let hit = enc.spans.iter().any(|(a, b, c)| match kind { 1 => b == t, _ => c == t || a == t });
                if !hit {
                    eprintln!("harness: no unit boundary at {}", t);
                    std::process::exit(3);
                }
            }
            n_streams += 1;
            max_bytes = max_bytes.max(enc.bytes.len());
            out.run(&s, false, Frag::Whole, true);
            out.run(&s, true, Frag::Each(8192), true);
            out.run(&s, true, Frag::Each(4096), true);
            out.run(&s, true, Frag::Sizes(random_sizes(&mut rng, enc.bytes.len())), true);
            if thorough || targets.len() == 1 {
                out.run(&s, true, Frag::Each(1), true);
            }
        }
        out.w.flush().unwrap();
        files.push(json!({"path": path, "mode": "detailed", "events": out.events, "runs": out.runs, "need_cover": "compact-all"}));
    }

    // ---- file group 2: byte-level corruption (the spec cannot predict the items: property level only)
    let path = format!("{}-corrupt.ndjson", prefix);
    let mut out = Out::new(&path);
    let ncor = if thorough { 1500 } else { 36 };
    let mut base: Vec<(Vec<Value>, i64)> = Vec::new();
    for b in 0..6 {
        let ver = if b % 3 == 2 { 1 } else { 2 };
        let mut g = Gen::new(seed.wrapping_mul(7919) ^ (b as u64 + 77), 63);
        for _ in 0..(if thorough { 6 + b * 4 } else { 3 + b * 2 }) {
            g.tick(ver);
        }
        g.items.push(json!({"k": "fin"}));
        base.push((g.items, ver));
    }
    for cno in 0..ncor {
        let (items, ver) = &base[cno % base.len()];
        let s = stream(*ver, items.clone(), 0, 0);
        let enc = encode_stream(&s);
        let mut bytes = enc.bytes.clone();
        let nmut = rng.gen_range(1..4);
        for _ in 0..nmut {
            let at = if rng.gen_range(0..10) == 0 { rng.gen_range(0..enc.hlen) } else { rng.gen_range(enc.hlen..bytes.len()) };
            match rng.gen_range(0..4) {
                0 => bytes[at] ^= 1 << rng.gen_range(0..8),
                1 => bytes[at] = rng.gen(),
                2 => {
                    bytes.remove(at);
                }
                _ => bytes.insert(at, rng.gen()),
            }
        }
        if max_alloc_cid(&bytes, enc.hlen.min(bytes.len()), *ver) > 4095 {
            n_skipped += 1;
            continue;
        }
        n_corrupt += 1;
        let unknown = json!({"ver": 0, "items": [], "cut": 0, "cl": 0, "id": cno});
        set_case(&json!({"corrupt": vh_common::hex(&bytes)}).to_string());
        let total = bytes.len();
        let mut first = true;
        let mut frs = vec![Frag::Whole, Frag::Each(1), Frag::Sizes(random_sizes(&mut rng, total)), Frag::Sizes(vec![rng.gen_range(1..total)])];
        for f in frs.drain(..) {
            let run = run_reader(&bytes, f, &[], 20 * items.len() + 100, 20000);
            let mut sr = unknown.clone();
            sr["hex"] = json!(vh_common::hex(&bytes));
            write_run(&mut out.w, &sr, enc.hlen, !first, &run, false);
            out.events += 1 + run.events.iter().filter(|e| e["t"] != "C").count() as u64;
            out.runs += 1;
            first = false;
        }
    }
    out.w.flush().unwrap();
    files.push(json!({"path": path, "mode": "props", "events": out.events, "runs": out.runs}));

    stats["streams"] = json!(n_streams);
    stats["truncations"] = json!(n_trunc);
    stats["corrupted"] = json!(n_corrupt);
    stats["corrupted_skipped_cid_over_4095"] = json!(n_skipped);
    stats["max_stream_bytes"] = json!(max_bytes);
    stats["items_over_8k"] = json!(grow_items);
    println!("{}", json!({"summary": true, "files": files, "stats": stats}));
}

/// re-executes a stored case: {"S":..., "sched":[...], "hm":..} or {"hex":"..."}; writes the trace
fn case(args: &[String]) {
    let v: Value = serde_json::from_str(&std::fs::read_to_string(&args[0]).unwrap()).unwrap();
    let c = if v.get("replay").is_some() { v["replay"].clone() } else { v };
    let mut w = std::io::BufWriter::new(std::fs::File::create(&args[1]).unwrap());
    if let Some(h) = c.get("hex").and_then(|h| h.as_str()) {
        let bytes = vh_common::unhex(h);
        let s = json!({"ver": 0, "items": [], "cut": 0, "cl": 0});
        let total = bytes.len();
        let mut rng = StdRng::seed_from_u64(1);
        let mut first = true;
        for f in vec![Frag::Whole, Frag::Each(1), Frag::Sizes(random_sizes(&mut rng, total)), Frag::Sizes(vec![total / 2])] {
            let run = run_reader(&bytes, f, &[], 100000, 20000);
            write_run(&mut w, &s, header(2).len(), !first, &run, false);
            first = false;
        }
    } else {
        let s = &c["S"];
        let has_hd = s.get("hd").map(|h| h.is_object()).unwrap_or(false);
        let enc = encode_stream(s);
        let items: Vec<Value> = s["items"].as_array().cloned().unwrap_or_default();
        let sched: Vec<usize> = c["sched"].as_array().map(|a| a.iter().map(|x| x.as_u64().unwrap_or(0) as usize).collect()).unwrap_or_default();
        let hm = c["hm"].as_u64().unwrap_or(0) as usize;
        let mut frags = vec![];
        if !sched.is_empty() {
            frags.push(Frag::Sizes(real_sizes(&sched, hm, enc.hlen)));
        }
        frags.push(Frag::Whole);
        frags.push(Frag::Each(1));
        if has_hd {
            for at in [16usize, enc.hlen.saturating_sub(1), enc.hlen, 8192] {
                if at >= 1 && at < enc.bytes.len() {
                    frags.push(Frag::Sizes(vec![at]));
                }
            }
        }
        let mut first = true;
        for f in frags {
            let run = run_reader_hd(&enc.bytes, f, &items, if has_hd { Some(&s["hd"]) } else { None }, 10 * items.len() + 50, 20000);
            write_run(&mut w, s, enc.hlen, !first, &run, false);
            first = false;
        }
    }
    w.flush().unwrap();
}

fn main() {
    quiet_panics();
    start_watchdog();
    let args: Vec<String> = std::env::args().collect();
    match args.get(1).map(|s| s.as_str()) {
        Some("replay") => replay(&args[2..]),
        Some("drive") => drive(&args[2..]),
        Some("case") => case(&args[2..]),
        Some("hlen") => println!("{}", header(2).len()),
        _ => {
            eprintln!("usage: vh-teehist replay|drive|case ...");
            std::process::exit(2);
        }
    }
}
