//! Harness for C17 (teehistorian reader).  Nothing here decides the property: the
//! module (i) encodes abstract item streams (the vocabulary of spec/teehist/TeehistCore.tla)
//! into real bytes, (ii) drives `libtw2_teehistorian::verif::Reader` through a read
//! callback whose fragment sizes are chosen by the caller, (iii) projects the items the
//! reader returns back into the spec's vocabulary and records panics / errors as data.
use libtw2_teehistorian::format;
use libtw2_teehistorian::format::item;
use libtw2_teehistorian::verif::{Buffer, Callback, Error, Item, Reader};
use serde_json::{json, Value};
use vh_common::guarded;

pub const MAGIC: [u8; 16] = [
    0x69, 0x9d, 0xb1, 0x7b, 0x8e, 0xfb, 0x34, 0xff, 0xb1, 0xd8, 0xda, 0x6f, 0x60, 0xc1, 0x5d, 0xd1,
];

pub fn header(ver: i64) -> Vec<u8> {
    let mut h = MAGIC.to_vec();
    let j = format!(
        "{{\"version\":\"{}\",\"game_uuid\":\"00000000-0000-0000-0000-000000000000\",\"start_time\":\"{}\",\"server_port\":\"8303\",\"map_name\":\"dm1\",\"map_size\":\"5805\",\"map_crc\":\"f2159e21\",\"config\":{{\"sv_name\":\"verif\"}}}}",
        ver,
        if ver == 1 { "2017-09-24 11:22:33 +0200" } else { "2017-09-24T11:22:33+02:00" }
    );
    h.extend_from_slice(j.as_bytes());
    h.push(0);
    h
}

pub const HDR_NAME_PLAIN: &str = "dm1";
/// decoded value of the map name written with JSON escapes (variation "esc")
pub const HDR_NAME_ESC: &str = "d\tm\"1\\A";
pub const HDR_NAME_ESC_JSON: &str = "d\\tm\\\"1\\\\\\u0041";

/// Renders a header descriptor (TeehistCore.tla, "the header") into bytes.  The descriptor says
/// *what* is in the header or what is wrong with it; the text is made here.
pub fn render_header(hd: &Value) -> Vec<u8> {
    let mut h: Vec<u8> = hd["magic"]
        .as_array()
        .map(|a| a.iter().map(|x| x.as_u64().unwrap_or(0) as u8).collect())
        .unwrap_or_else(|| MAGIC.to_vec());
    let ver = hd["ver"].as_i64().unwrap_or(2);
    let mal = hd["mal"].as_str().unwrap_or("");
    let var = hd["var"].as_str().unwrap_or("plain");
    let num = hd["num"].as_str().unwrap_or("mid");
    let pad = hd["pad"].as_u64().unwrap_or(0) as usize;
    let vtext = match hd["vtext"].as_str().unwrap_or("plain") {
        "plus" => format!("+{}", ver),
        "zero" => format!("0{}", ver),
        "space" => format!(" {}", ver),
        "empty" => String::new(),
        "word" => "two".to_string(),
        "big" => "2147483648".to_string(),
        _ => format!("{}", ver),
    };
    let q = |s: &str| format!("\"{}\"", s);
    let (port, size, crc) = match num {
        "min" => ("0", "0", "0"),
        "max" => ("65535", "4294967295", "ffffffff"),
        _ => ("8303", "5805", "f2159e21"),
    };
    let mut members: Vec<(String, String)> = Vec::new();
    members.push(("version".into(), q(&vtext)));
    if mal == "dup" {
        members.push(("version".into(), q("1")));
    }
    members.push(("game_uuid".into(), q(if mal == "game_uuid" { "nope" } else { "00000000-0000-0000-0000-000000000000" })));
    members.push((
        "start_time".into(),
        q(if mal == "start_time" {
            "yesterday"
        } else if ver == 1 {
            "2017-09-24 11:22:33 +0200"
        } else {
            "2017-09-24T11:22:33+02:00"
        }),
    ));
    members.push(("server_port".into(), if mal == "type" { port.to_string() } else { q(if mal == "server_port" { "65536" } else { port }) }));
    members.push(("map_name".into(), q(if var == "esc" { HDR_NAME_ESC_JSON } else if mal == "utf8" { "dm\u{1}1" } else { HDR_NAME_PLAIN })));
    members.push(("map_size".into(), q(if mal == "map_size" { "-1" } else { size })));
    if var == "sha" || mal == "sha" {
        let good = "0123456789abcdef0123456789abcdef0123456789abcdef0123456789abcdef";
        members.push(("map_sha256".into(), q(if mal == "sha" { "zz" } else { good })));
    }
    if mal != "missing" {
        members.push(("map_crc".into(), q(if mal == "map_crc" { "100000000" } else { crc })));
    }
    if var == "extra" {
        members.push(("foo".into(), "{\"bar\":[1,2,{\"x\":null}],\"baz\":true}".into()));
    }
    let mut cfg: Vec<String> = Vec::new();
    match var {
        "nocfg" => {}
        "manycfg" => {
            for i in 0..40 {
                cfg.push(format!("\"k{:02}\":\"v{}\"", i, i));
            }
        }
        _ => cfg.push(if mal == "cfgtype" { "\"sv_name\":5".to_string() } else { "\"sv_name\":\"verif\"".to_string() }),
    }
    if pad > 0 {
        cfg.push(format!("\"pad\":\"{}\"", "x".repeat(pad)));
    }
    let sep = if var == "ws" { " ,\n\t " } else { "," };
    let colon = if var == "ws" { " : " } else { ":" };
    members.push(("config".into(), format!("{{{}}}", cfg.join(sep))));
    if var == "extra" {
        members.push(("tail".into(), "1.5e3".into()));
    }
    let mut j = String::new();
    if var == "ws" {
        j.push_str(" \n");
    }
    j.push('{');
    j.push_str(&members.iter().map(|(k, v)| format!("\"{}\"{}{}", k, colon, v)).collect::<Vec<_>>().join(sep));
    if mal != "syntax" {
        j.push('}');
    }
    if var == "ws" {
        j.push_str("  \n ");
    }
    if mal == "trailing" {
        j.push('x');
    }
    if mal == "notobj" {
        j = "7".to_string();
    }
    let mut jb = j.into_bytes();
    if mal == "utf8" {
        // the placeholder U+0001 becomes a byte that is not UTF-8
        for b in jb.iter_mut() {
            if *b == 1 {
                *b = 0xff;
            }
        }
    }
    h.extend_from_slice(&jb);
    if hd["nul"].as_bool().unwrap_or(true) {
        h.push(0);
    }
    h
}

/// Projects the header the library returned into the spec's vocabulary (TeehistCore!HdrEvent).
pub fn project_header(h: &libtw2_teehistorian::format::Header, hd: &Value) -> Value {
    let var = hd["var"].as_str().unwrap_or("plain");
    let pad = hd["pad"].as_u64().unwrap_or(0) as usize;
    let want_name = if var == "esc" { HDR_NAME_ESC } else { HDR_NAME_PLAIN };
    let nil_uuid = h.game_uuid.as_bytes().iter().all(|b| *b == 0);
    let num = match (h.server_port, h.map_size, h.map_crc) {
        (8303, 5805, 0xf2159e21) if nil_uuid => "mid",
        (0, 0, 0) if nil_uuid => "min",
        (65535, 0xffff_ffff, 0xffff_ffff) if nil_uuid => "max",
        _ => "other",
    };
    let mut cfg_ok = true;
    for (k, v) in h.config.iter() {
        let ok = match &k[..] {
            "sv_name" => v == "verif",
            "pad" => v.len() == pad && v.bytes().all(|b| b == b'x'),
            k if k.len() == 3 && k.starts_with('k') => k[1..].parse::<u32>().map(|i| *v == format!("v{}", i)).unwrap_or(false),
            _ => false,
        };
        cfg_ok &= ok;
    }
    let sha_ok = h.map_sha256.map(|s| format!("{}", s) == "0123456789abcdef0123456789abcdef0123456789abcdef0123456789abcdef");
    json!({"e": "hdr", "ver": h.version, "time": h.timestamp.timestamp(), "num": num,
           "name": len_if(h.map_name == want_name, h.map_name.len()),
           "ncfg": if cfg_ok { h.config.len() as i64 } else { -1 },
           "sha": sha_ok.unwrap_or(false)})
}

/// doc/int.md
pub fn put_int(out: &mut Vec<u8>, v: i32) {
    let sign: u8 = if v < 0 { 1 } else { 0 };
    let mut m: u32 = if v < 0 { !(v as u32) } else { v as u32 };
    let mut b = (sign << 6) | (m & 0x3f) as u8;
    m >>= 6;
    if m != 0 {
        b |= 0x80;
    }
    out.push(b);
    while m != 0 {
        let mut b = (m & 0x7f) as u8;
        m >>= 7;
        if m != 0 {
            b |= 0x80;
        }
        out.push(b);
    }
}

fn geti(it: &Value, f: &str) -> i32 {
    it.get(f).and_then(|v| v.as_i64()).unwrap_or(0) as i32
}
fn gets<'a>(it: &'a Value, f: &str) -> &'a str {
    it.get(f).and_then(|v| v.as_str()).unwrap_or("")
}

pub fn vec10(a: i32, b: i32) -> [i32; 10] {
    let mut v = [0; 10];
    for i in 0..10 {
        v[i] = if i % 2 == 0 { a } else { b };
    }
    v
}

/// deterministic contents of the string / data member of the idx-th stream item
pub fn text(idx: usize, len: usize, salt: usize) -> Vec<u8> {
    (0..len).map(|j| b'a' + ((idx * 7 + j * 3 + salt) % 26) as u8).collect()
}
pub fn raw(idx: usize, len: usize) -> Vec<u8> {
    (0..len).map(|j| ((idx * 31 + j * 13) & 0xff) as u8).collect()
}
pub fn uuid_of(idx: usize) -> [u8; 16] {
    let mut u = [0u8; 16];
    for j in 0..16 {
        u[j] = ((idx * 17 + j * 5 + 1) & 0xff) as u8;
    }
    u
}
/// a uuid that is none of the known extension messages
pub const UUID_UNKNOWN: [u8; 16] = [
    0x6b, 0xb8, 0xba, 0x88, 0x0f, 0x0b, 0x38, 0x2e, 0x8d, 0xae, 0xdb, 0xf4, 0x05, 0x2b, 0x8b, 0x7d,
];

pub fn ex_uuid(sub: &str) -> Option<[u8; 16]> {
    Some(match sub {
        "x_unknown" => UUID_UNKNOWN,
        "x_antibot" => item::UUID_ANTIBOT,
        "x_auth_init" => item::UUID_AUTH_INIT,
        "x_auth_login" => item::UUID_AUTH_LOGIN,
        "x_auth_logout" => item::UUID_AUTH_LOGOUT,
        "x_ddnetver" => item::UUID_DDNETVER,
        "x_ddnetver_old" => item::UUID_DDNETVER_OLD,
        "x_joinver6" => item::UUID_JOINVER6,
        "x_joinver7" => item::UUID_JOINVER7,
        "x_player_finish" => item::UUID_PLAYER_FINISH,
        "x_player_name" => item::UUID_PLAYER_NAME,
        "x_player_ready" => item::UUID_PLAYER_READY,
        "x_player_rejoin" => item::UUID_PLAYER_REJOIN,
        "x_player_swap" => item::UUID_PLAYER_SWAP,
        "x_player_team" => item::UUID_PLAYER_TEAM,
        "x_team_finish" => item::UUID_TEAM_FINISH,
        "x_team_load_failure" => item::UUID_TEAM_LOAD_FAILURE,
        "x_team_load_success" => item::UUID_TEAM_LOAD_SUCCESS,
        "x_team_practice" => item::UUID_TEAM_PRACTICE,
        "x_team_save_failure" => item::UUID_TEAM_SAVE_FAILURE,
        "x_team_save_success" => item::UUID_TEAM_SAVE_SUCCESS,
        _ => return None,
    })
}

/// member list of the "other" records (same table as TeehistCore!Shape)
pub fn shape(sub: &str) -> &'static str {
    match sub {
        "msg" => "cd",
        "join" => "c",
        "drop" => "cs",
        "cc" => "cfsn",
        "x_unknown" | "x_antibot" => "r",
        "x_auth_init" | "x_auth_login" => "cbs",
        "x_ddnetver" => "cubs",
        "x_team_load_success" | "x_team_save_success" => "cus",
        "x_player_name" => "cs",
        "x_ddnetver_old" | "x_player_finish" | "x_player_swap" | "x_player_team" | "x_team_finish"
        | "x_team_practice" => "cb",
        _ => "c",
    }
}

/// Encodes one item: (message-id part, payload part).
pub fn encode_item(idx: usize, it: &Value) -> (Vec<u8>, Vec<u8>) {
    let mut k = Vec::new();
    let mut r = Vec::new();
    let (c, a, b) = (geti(it, "c"), geti(it, "a"), geti(it, "b"));
    match gets(it, "k") {
        "pd" => {
            put_int(&mut k, c);
            put_int(&mut r, a);
            put_int(&mut r, b);
        }
        "pn" => {
            put_int(&mut k, item::PLAYER_NEW);
            put_int(&mut k, c);
            put_int(&mut r, a);
            put_int(&mut r, b);
        }
        "po" => {
            put_int(&mut k, item::PLAYER_OLD);
            put_int(&mut k, c);
        }
        "ts" => {
            put_int(&mut k, item::TICK_SKIP);
            put_int(&mut r, a);
        }
        kk @ ("in" | "id") => {
            put_int(&mut k, if kk == "in" { item::INPUT_NEW } else { item::INPUT_DIFF });
            put_int(&mut r, c);
            for x in vec10(a, b).iter() {
                put_int(&mut r, *x);
            }
        }
        "fin" => put_int(&mut k, item::FINISH),
        "bad" => put_int(&mut k, a),
        "o" => {
            let sub = gets(it, "s");
            let mut inner = Vec::new();
            for ch in shape(sub).chars() {
                match ch {
                    'c' => put_int(&mut inner, c),
                    'b' => put_int(&mut inner, b),
                    'f' => put_int(&mut inner, 0),
                    's' => {
                        inner.extend(text(idx, a as usize, 0));
                        inner.push(0);
                    }
                    'u' => inner.extend_from_slice(&uuid_of(idx)),
                    'd' => {
                        put_int(&mut inner, a);
                        inner.extend(raw(idx, a as usize));
                    }
                    'r' => inner.extend(raw(idx, a as usize)),
                    'n' => {
                        put_int(&mut inner, b);
                        for j in 0..b as usize {
                            inner.extend(text(idx, a as usize, j + 1));
                            inner.push(0);
                        }
                    }
                    _ => unreachable!(),
                }
            }
            match sub {
                "msg" => put_int(&mut k, item::MESSAGE),
                "join" => put_int(&mut k, item::JOIN),
                "drop" => put_int(&mut k, item::DROP),
                "cc" => put_int(&mut k, item::CONSOLE_COMMAND),
                _ => put_int(&mut k, item::EX),
            }
            if let Some(u) = ex_uuid(sub) {
                r.extend_from_slice(&u);
                put_int(&mut r, inner.len() as i32);
            }
            r.extend(inner);
        }
        other => panic!("harness: unknown item kind {:?}", other),
    }
    (k, r)
}

pub struct Encoded {
    pub bytes: Vec<u8>,
    pub hlen: usize,
    /// (start of message id, start of payload, end) of every item in `bytes` (untruncated layout)
    pub spans: Vec<(usize, usize, usize)>,
}

/// Encodes a stream descriptor {ver, items, cut, cl}.
pub fn encode_stream(s: &Value) -> Encoded {
    let ver = s["ver"].as_i64().unwrap_or(2);
    let mut bytes = if s.get("hd").map(|h| h.is_object()).unwrap_or(false) {
        render_header(&s["hd"])
    } else {
        header(if ver == 0 { 2 } else { ver })
    };
    let hlen = bytes.len();
    let items = s["items"].as_array().cloned().unwrap_or_default();
    let cut = s["cut"].as_i64().unwrap_or(0);
    let cl = s["cl"].as_i64().unwrap_or(0) as usize;
    let mut spans = Vec::new();
    if cut == 3 {
        bytes.truncate(cl);
        return Encoded { bytes, hlen, spans };
    }
    let n = items.len();
    for (i, it) in items.iter().enumerate() {
        let (k, r) = encode_item(i + 1, it);
        let s0 = bytes.len();
        let last = i + 1 == n;
        if last && cut == 2 {
            bytes.extend_from_slice(&k[..cl.min(k.len())]);
        } else if last && cut == 1 {
            bytes.extend_from_slice(&k);
            bytes.extend_from_slice(&r[..cl.min(r.len())]);
        } else {
            bytes.extend_from_slice(&k);
            bytes.extend_from_slice(&r);
        }
        spans.push((s0, s0 + k.len(), s0 + k.len() + r.len()));
    }
    Encoded { bytes, hlen, spans }
}

// ---------------------------------------------------------------- projection

fn o(sub: &str, c: i32, a: i64, b: i32) -> Value {
    json!({"e": "o", "s": sub, "c": c, "a": a, "b": b})
}
fn len_if(ok: bool, len: usize) -> i64 {
    if ok {
        len as i64
    } else {
        -1
    }
}

/// Projects a returned item into the spec's vocabulary.  `idx` = 1-based index of the stream
/// item this output must stem from if it is an "other" record (contents are compared with what
/// was encoded for that index; differing contents are projected as length -1).
pub fn project(it: &Item, idx: usize) -> Value {
    match it {
        Item::TickStart(t) => json!({"e": "start", "a": t}),
        Item::TickEnd(t) => json!({"e": "end", "a": t}),
        Item::PlayerNew(p) => json!({"e": "pn", "c": p.cid, "a": p.pos.x, "b": p.pos.y}),
        Item::PlayerChange(p) => {
            json!({"e": "pc", "c": p.cid, "a": p.pos.x, "b": p.pos.y, "p": p.old_pos.x, "q": p.old_pos.y})
        }
        Item::PlayerOld(p) => json!({"e": "po", "c": p.cid, "a": p.pos.x, "b": p.pos.y}),
        Item::Input(i) => json!({"e": "in", "c": i.cid, "v": i.input.to_vec()}),
        Item::Message(m) => o("msg", m.cid, len_if(m.msg == &raw(idx, m.msg.len())[..], m.msg.len()), 0),
        Item::Join(j) => o("join", j.cid, 0, 0),
        Item::Drop(d) => o("drop", d.cid, len_if(d.reason == &text(idx, d.reason.len(), 0)[..], d.reason.len()), 0),
        Item::ConsoleCommand(c) => {
            let l = c.cmd.len();
            let ok = c.flag_mask == 0
                && c.cmd == &text(idx, l, 0)[..]
                && c.args.iter().enumerate().all(|(j, a)| *a == &text(idx, l, j + 1)[..]);
            o("cc", c.cid, len_if(ok, l), c.args.len() as i32)
        }
        Item::Antibot(x) => o("x_antibot", 0, len_if(x.data == &raw(idx, x.data.len())[..], x.data.len()), 0),
        Item::UnknownEx(x) => o(
            "x_unknown",
            0,
            len_if(x.uuid.as_bytes() == &UUID_UNKNOWN && x.data == &raw(idx, x.data.len())[..], x.data.len()),
            0,
        ),
        Item::AuthInit(x) => o(
            "x_auth_init",
            x.cid,
            len_if(x.identity == &text(idx, x.identity.len(), 0)[..], x.identity.len()),
            x.level,
        ),
        Item::AuthLogin(x) => o(
            "x_auth_login",
            x.cid,
            len_if(x.identity == &text(idx, x.identity.len(), 0)[..], x.identity.len()),
            x.level,
        ),
        Item::AuthLogout(x) => o("x_auth_logout", x.cid, 0, 0),
        Item::Ddnetver(x) => {
            let l = x.ddnet_version_str.len();
            let ok = x.connection_id.as_bytes() == &uuid_of(idx) && x.ddnet_version_str == &text(idx, l, 0)[..];
            o("x_ddnetver", x.cid, len_if(ok, l), x.ddnet_version)
        }
        Item::DdnetverOld(x) => o("x_ddnetver_old", x.cid, 0, x.ddnet_version),
        Item::Joinver6(x) => o("x_joinver6", x.cid, 0, 0),
        Item::Joinver7(x) => o("x_joinver7", x.cid, 0, 0),
        Item::PlayerFinish(x) => o("x_player_finish", x.cid, 0, x.time_ticks),
        Item::PlayerName(x) => o(
            "x_player_name",
            x.cid,
            len_if(x.name == &text(idx, x.name.len(), 0)[..], x.name.len()),
            0,
        ),
        Item::PlayerReady(x) => o("x_player_ready", x.cid, 0, 0),
        Item::PlayerRejoin(x) => o("x_player_rejoin", x.cid, 0, 0),
        Item::PlayerSwap(x) => o("x_player_swap", x.cid1, 0, x.cid2),
        Item::PlayerTeam(x) => o("x_player_team", x.cid, 0, x.team),
        Item::TeamFinish(x) => o("x_team_finish", x.team, 0, x.time_ticks),
        Item::TeamLoadFailure(x) => o("x_team_load_failure", x.team, 0, 0),
        Item::TeamLoadSuccess(x) => {
            let l = x.save.len();
            let ok = x.save_uuid.as_bytes() == &uuid_of(idx) && x.save == &text(idx, l, 0)[..];
            o("x_team_load_success", x.team, len_if(ok, l), 0)
        }
        Item::TeamPractice(x) => o("x_team_practice", x.team, 0, x.practice),
        Item::TeamSaveFailure(x) => o("x_team_save_failure", x.team, 0, 0),
        Item::TeamSaveSuccess(x) => {
            let l = x.save.len();
            let ok = x.save_uuid.as_bytes() == &uuid_of(idx) && x.save == &text(idx, l, 0)[..];
            o("x_team_save_success", x.team, len_if(ok, l), 0)
        }
    }
}

pub fn error_class(e: &format::Error) -> String {
    use format::Error::*;
    let s = match e {
        Header(h) => {
            use format::HeaderError::*;
            match h {
                WrongMagic => "header:wrong_magic",
                MalformedJson => "header:malformed_json",
                MalformedHeader => "header:malformed_header",
                MalformedVersion => "header:malformed_version",
                MalformedGameUuid => "header:malformed_game_uuid",
                MalformedStartTime => "header:malformed_start_time",
                MalformedServerPort => "header:malformed_server_port",
                MalformedMapSize => "header:malformed_map_size",
                MalformedMapCrc => "header:malformed_map_crc",
            }
        }
        Item(item::Error::UnknownType(_)) => "unknown_type",
        Item(item::Error::NegativeDt) => "negative_dt",
        Item(item::Error::NegativeNumArgs) => "negative_num_args",
        Item(item::Error::NumArgsTooLarge) => "num_args_too_large",
        UnknownVersion => "unknown_version",
        TickOverflow => "tick_overflow",
        UnexpectedEnd => "unexpected_end",
        InvalidClientId => "invalid_cid",
        PlayerNewDuplicate => "player_new_duplicate",
        PlayerDiffWithoutNew => "player_diff_without_new",
        PlayerOldWithoutNew => "player_old_without_new",
        InputNewDuplicate => "input_new_duplicate",
        InputDiffWithoutNew => "input_diff_without_new",
    };
    format!("err:{}", s)
}

// ---------------------------------------------------------------- driving the reader

/// How the callback cuts the stream.
pub enum Frag {
    /// deliver as much as the reader has room for
    Whole,
    /// the given sizes in order (a size larger than the spare room is split), then the rest at once
    Sizes(Vec<usize>),
    /// every read delivers exactly this many bytes
    Each(usize),
}

pub struct Cb<'a> {
    pub data: &'a [u8],
    pub pos: usize,
    pub frag: Frag,
    pub next: usize,
    /// (spare offered, delivered or -1 for end of file)
    pub log: Vec<(usize, i64)>,
    pub carry: usize,
}

impl<'a> Callback for Cb<'a> {
    type Error = ();
    fn read_at_most(&mut self, buffer: &mut [u8]) -> Result<Option<usize>, ()> {
        let spare = buffer.len();
        let remaining = self.data.len() - self.pos;
        if remaining == 0 {
            self.log.push((spare, -1));
            return Ok(None);
        }
        let want = if self.carry > 0 {
            self.carry
        } else {
            match &self.frag {
                Frag::Whole => remaining,
                Frag::Each(n) => *n,
                Frag::Sizes(v) => {
                    if self.next < v.len() {
                        self.next += 1;
                        v[self.next - 1]
                    } else {
                        remaining
                    }
                }
            }
        };
        let n = want.min(spare).min(remaining);
        // a scheduled piece that does not fit the spare room is continued by the next read
        self.carry = if want > n && want <= remaining && !matches!(self.frag, Frag::Whole | Frag::Each(_)) {
            want - n
        } else {
            0
        };
        buffer[..n].copy_from_slice(&self.data[self.pos..self.pos + n]);
        self.pos += n;
        self.log.push((spare, n as i64));
        Ok(Some(n))
    }
}

/// What the accessors of the reader report (`cids`, `player_pos`, `input`), kept between two
/// calls so that only the *difference* is logged.
pub struct Snap {
    pos: Vec<Option<(i32, i32)>>,
    inp: Vec<Option<[i32; 10]>>,
    /// client ids below this are queried in any case (the largest id the stream names, capped)
    floor: usize,
}

pub const QUERY_CAP: usize = 4097;

impl Snap {
    pub fn new(items: &[Value]) -> Snap {
        let floor = items
            .iter()
            .flat_map(|it| vec![it.get("c").and_then(|v| v.as_i64()).unwrap_or(-1), it.get("b").and_then(|v| v.as_i64()).unwrap_or(-1)])
            .filter(|c| *c >= 0 && (*c as usize) < QUERY_CAP)
            .max()
            .map(|c| c as usize + 1)
            .unwrap_or(0);
        Snap { pos: Vec::new(), inp: Vec::new(), floor }
    }
    /// Queries the reader and returns (dp, di, mc): changed positions / inputs since the last
    /// query, sorted by client id, and `cids().end - 1` (-2: the accessor panicked).
    pub fn delta(&mut self, r: &Reader) -> (Value, Value, i64) {
        let mc: i64 = match vh_common::catch(|| r.cids().end as i64 - 1) {
            Ok(x) => x,
            Err(_) => -2,
        };
        let n = (if mc >= 0 { (mc as usize + 1).min(QUERY_CAP) } else { 0 }).max(self.floor).max(self.pos.len());
        self.pos.resize(n, None);
        self.inp.resize(n, None);
        let mut dp = Vec::new();
        let mut di = Vec::new();
        for c in 0..n {
            let p = r.player_pos(c as i32).map(|p| (p.x, p.y));
            if p != self.pos[c] {
                dp.push(match p {
                    Some((x, y)) => json!({"c": c, "v": [x, y]}),
                    None => json!({"c": c, "v": []}),
                });
                self.pos[c] = p;
            }
            let i = r.input(c as i32);
            if i != self.inp[c] {
                di.push(match i {
                    Some(v) => json!({"c": c, "v": v.to_vec()}),
                    None => json!({"c": c, "v": []}),
                });
                self.inp[c] = i;
            }
        }
        (Value::Array(dp), Value::Array(di), mc)
    }
}

pub struct Run {
    /// events in trace order: {"t":"C",..} / {"t":"O",..}, and finally {"t":"E",..}
    pub events: Vec<Value>,
    /// only the outputs (without the header event)
    pub outs: Vec<Value>,
    pub end: String,
    /// false: the accessors reported a change when FINISH was read
    pub quiet_end: bool,
}

/// Runs the real reader over `bytes` with the fragmentation `frag`.  `items` (the abstract
/// stream, may be empty for unknown streams) is used only to find the index of the stream item
/// an "other" record stems from (n-th "other" output <- n-th "other" item).
pub fn run_reader(bytes: &[u8], frag: Frag, items: &[Value], max_outputs: usize, ms: u64) -> Run {
    run_reader_hd(bytes, frag, items, None, max_outputs, ms)
}

/// `hd`: the header descriptor the bytes were rendered from (then the returned header is projected
/// into the spec's vocabulary and is part of the outputs).
pub fn run_reader_hd(bytes: &[u8], frag: Frag, items: &[Value], hd: Option<&Value>, max_outputs: usize, ms: u64) -> Run {
    let o_idx: Vec<usize> = items
        .iter()
        .enumerate()
        .filter(|(_, it)| it["k"] == "o")
        .map(|(i, _)| i + 1)
        .collect();
    let mut events = Vec::new();
    let mut outs = Vec::new();
    let mut cb = Cb { data: bytes, pos: 0, frag, next: 0, log: Vec::new(), carry: 0 };
    let mut flushed = 0usize;
    let mut snap = Snap::new(items);
    let mut fin_delta: Option<(Value, Value)> = None;
    let res = guarded(ms, || {
        let mut buffer = Buffer::new();
        let mut end: Option<String> = None;
        let mut hdr_ev = json!({"e": "hdr"});
        let mut reader = match Reader::new(&mut cb, &mut buffer) {
            Ok((h, r)) => {
                if let Some(hd) = hd {
                    hdr_ev = project_header(&h, hd);
                }
                Some(r)
            }
            Err(Error::Teehistorian(e)) => {
                end = Some(error_class(&e));
                None
            }
            Err(Error::Cb(())) => {
                end = Some("err:callback".into());
                None
            }
        };
        for (sp, n) in cb.log[flushed..].iter() {
            events.push(json!({"t": "C", "sp": sp, "n": n}));
        }
        flushed = cb.log.len();
        if reader.is_some() {
            if hd.is_some() {
                outs.push(hdr_ev.clone());
            }
            events.push(json!({"t": "O", "ev": hdr_ev}));
        }
        let mut n_o = 0usize;
        while let Some(r) = reader.as_mut() {
            let res = r.read(&mut cb, &mut buffer);
            for (sp, n) in cb.log[flushed..].iter() {
                events.push(json!({"t": "C", "sp": sp, "n": n}));
            }
            flushed = cb.log.len();
            match res {
                Ok(Some(item)) => {
                    let is_o = !matches!(
                        item,
                        Item::TickStart(_)
                            | Item::TickEnd(_)
                            | Item::PlayerNew(_)
                            | Item::PlayerChange(_)
                            | Item::PlayerOld(_)
                            | Item::Input(_)
                    );
                    let idx = if is_o {
                        n_o += 1;
                        o_idx.get(n_o - 1).copied().unwrap_or(0)
                    } else {
                        0
                    };
                    let mut v = project(&item, idx);
                    // the item borrows the buffer, not the reader: the accessors can be asked now
                    let (dp, di, mc) = snap.delta(r);
                    v["dp"] = dp;
                    v["di"] = di;
                    v["mc"] = json!(mc);
                    events.push(json!({"t": "O", "ev": v}));
                    outs.push(v);
                    if outs.len() > max_outputs {
                        end = Some("hang".into());
                        break;
                    }
                }
                Ok(None) => {
                    // FINISH leaves the tracked positions / inputs alone
                    let (dp, di, _mc) = snap.delta(r);
                    fin_delta = Some((dp, di));
                    end = Some("fin".into());
                    break;
                }
                Err(Error::Teehistorian(e)) => {
                    end = Some(error_class(&e));
                    break;
                }
                Err(Error::Cb(())) => {
                    end = Some("err:callback".into());
                    break;
                }
            }
        }
        end.unwrap_or_else(|| "err:none".into())
    });
    let end = match res {
        Ok(e) => e,
        Err(_msg) => {
            for (sp, n) in cb.log[flushed.min(cb.log.len())..].iter() {
                events.push(json!({"t": "C", "sp": sp, "n": n}));
            }
            "panic".to_string()
        }
    };
    let mut e = json!({"t": "E", "end": end});
    let mut quiet_end = true;
    if let Some((dp, di)) = fin_delta {
        quiet_end = dp.as_array().map(|a| a.is_empty()).unwrap_or(true) && di.as_array().map(|a| a.is_empty()).unwrap_or(true);
        e["dp"] = dp;
        e["di"] = di;
    }
    events.push(e);
    Run { events, outs, end, quiet_end }
}

/// Largest client id a PLAYER_NEW / INPUT_NEW of `bytes` (after the header) would make the
/// reader allocate for — found with the library's own stateless item decoder.  Used only to
/// enforce the stated assumption "client ids <= 4095" on corrupted streams.
pub fn max_alloc_cid(bytes: &[u8], hlen: usize, ver: i64) -> i32 {
    use libtw2_teehistorian::format::Version;
    let mut max = -1;
    if bytes.len() <= hlen {
        return max;
    }
    let version = if ver == 1 { Version::V1 } else { Version::V2 };
    let _ = vh_common::catch(|| {
        let mut p = libtw2_teehistorian_unpacker(&bytes[hlen..]);
        loop {
            match item::Item::decode(&mut p, version) {
                Ok(item::Item::PlayerNew(x)) => max = max.max(x.cid),
                Ok(item::Item::InputNew(x)) => max = max.max(x.cid),
                Ok(item::Item::Finish(_)) => break,
                Ok(_) => {}
                Err(_) => break,
            }
        }
    });
    max
}

fn libtw2_teehistorian_unpacker(data: &[u8]) -> libtw2_packer::Unpacker<'_> {
    libtw2_packer::Unpacker::new(data)
}
