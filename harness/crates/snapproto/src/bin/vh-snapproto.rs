use std::env;
fn main() {
    vh_common::quiet_panics();
    vh_common::start_watchdog();
    let args: Vec<String> = env::args().collect();
    let cmd = args.get(1).map(|s| s.as_str()).unwrap_or("");
    let rest = &args[2.min(args.len())..];
    let rc = match cmd {
        "recv-replay" => vh_snapproto::recv::cmd_replay(rest),
        "recv-run" => vh_snapproto::recv::cmd_run(rest),
        "recv-drive" => vh_snapproto::recv::cmd_drive(rest),
        "sync-replay" => vh_snapproto::sync::cmd_replay(rest),
        "sync-run" => vh_snapproto::sync::cmd_run(rest),
        "sync-drive" => vh_snapproto::sync::cmd_drive(rest),
        _ => {
            eprintln!("usage: vh-snapproto recv-replay|recv-run|recv-drive|sync-replay|sync-run|sync-drive ...");
            2
        }
    };
    std::process::exit(rc);
}
