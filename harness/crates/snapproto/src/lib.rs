//! Harness for the snapshot *protocol* properties C12 (multi-part transfer,
//! `DeltaReceiver` + `delta_chunks`) and C13 (sender `Storage` vs. receiver
//! `Manager`).  Only glue: TLC output -> API calls, real results -> the
//! vocabulary of spec/snaprecv and spec/snapsync, panics/hangs -> data.
pub mod recv;
pub mod sync;
