pub fn cmd_replay(_a: &[String]) -> i32 { 2 }
pub fn cmd_run(_a: &[String]) -> i32 { 2 }
pub fn cmd_drive(_a: &[String]) -> i32 { 2 }
