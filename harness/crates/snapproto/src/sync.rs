//! C13: sender `Storage` vs. receiver `Manager` over lossy message and
//! acknowledgement paths, with the real wire forms in between.
//!
//! * `sync-replay`: reads the transition export of spec/snapsync, executes every
//!   transition on a clone of the real system kept per spec state, compares.
//! * `sync-run`: executes operational schedules, prints an NDJSON trace.
//! * `sync-drive`: seeded long lossy random histories (real constants), NDJSON trace.
use libtw2_gamenet_common::snap_obj::TypeId;
use libtw2_gamenet_snap as msg;
use libtw2_packer::with_packer;
use libtw2_snapshot::manager;
use libtw2_snapshot::snap::delta_chunks;
use libtw2_snapshot::storage;
use libtw2_snapshot::Manager;
use libtw2_snapshot::Snap;
use libtw2_snapshot::Storage;
use serde_json::json;
use serde_json::Value;
use std::collections::HashMap;
use std::io::BufRead;
use std::io::Write;
use std::rc::Rc;
use uuid::Uuid;
use vh_common::rand::rngs::StdRng;
use vh_common::rand::Rng;
use vh_common::rand::SeedableRng;

const CALL_MS: u64 = 20_000;

#[derive(Clone, Debug)]
pub struct ItemSpec {
    pub ty: i32,
    pub id: u16,
    pub rep: usize,
    pub d: Vec<i32>,
}

impl ItemSpec {
    fn from_json(v: &Value) -> ItemSpec {
        ItemSpec {
            ty: v["ty"].as_i64().unwrap() as i32,
            id: v["id"].as_u64().unwrap() as u16,
            rep: v["rep"].as_u64().unwrap() as usize,
            d: v["d"].as_array().unwrap().iter().map(|x| x.as_i64().unwrap() as i32).collect(),
        }
    }
    fn to_json(&self) -> Value {
        json!({"ty": self.ty, "id": self.id, "rep": self.rep, "d": self.d})
    }
    fn real(&self) -> Vec<i32> {
        let mut v = Vec::with_capacity(self.rep * self.d.len());
        for &x in &self.d {
            for _ in 0..self.rep {
                v.push(x);
            }
        }
        v
    }
}

pub fn world_from_json(v: &Value) -> Vec<ItemSpec> {
    let mut w: Vec<ItemSpec> = v.as_array().unwrap().iter().map(ItemSpec::from_json).collect();
    sort_world(&mut w);
    w
}

/// The order in which the application adds the items: ordinal types first, then
/// UUID types by ascending type number (the spec's ExtendReg assumes this order).
fn sort_world(w: &mut Vec<ItemSpec>) {
    w.sort_by_key(|i| (i.ty < 0, if i.ty < 0 { -i.ty } else { i.ty }, i.id));
}

fn world_to_json(w: &[ItemSpec]) -> Value {
    Value::Array(w.iter().map(|i| i.to_json()).collect())
}

fn uuid_of(u: i32) -> Uuid {
    let mut b = [0u8; 16];
    for k in 0..4 {
        b[4 * k..4 * k + 4].copy_from_slice(&(u * (k as i32 + 1)).to_be_bytes());
    }
    Uuid::from_bytes(b)
}

fn type_id(ty: i32) -> TypeId {
    if ty > 0 {
        TypeId::Ordinal(ty as u16)
    } else {
        TypeId::Uuid(uuid_of(-ty))
    }
}

fn user_ty(t: TypeId) -> i32 {
    match t {
        TypeId::Ordinal(o) => o as i32,
        TypeId::Uuid(u) => {
            let b = u.as_bytes();
            -i32::from_be_bytes([b[0], b[1], b[2], b[3]])
        }
    }
}

#[derive(Clone, Default)]
pub struct Config {
    pub agreed: HashMap<u16, u32>,
    /// user type -> repetition factor, for projecting real data back
    pub reps: HashMap<i32, usize>,
}

impl Config {
    fn learn(&mut self, w: &[ItemSpec]) {
        for i in w {
            self.reps.insert(i.ty, i.rep);
        }
    }
    fn agreed_json(&self) -> Value {
        let mut v: Vec<(u16, u32)> = self.agreed.iter().map(|(a, b)| (*a, *b)).collect();
        v.sort();
        Value::Array(v.into_iter().map(|(ty, size)| json!({"ty": ty, "size": size})).collect())
    }
    fn set_agreed(&mut self, v: &Value) {
        self.agreed.clear();
        if let Some(a) = v.as_array() {
            for x in a {
                self.agreed.insert(x["ty"].as_u64().unwrap() as u16, x["size"].as_u64().unwrap() as u32);
            }
        }
    }
    /// real data -> item value of the spec (each integer repeated `rep` times)
    fn compress(&self, ty: i32, data: &[i32]) -> (usize, Vec<i32>) {
        let rep = *self.reps.get(&ty).unwrap_or(&1);
        if rep > 1 && data.len() % rep == 0 && data.chunks(rep).all(|c| c.iter().all(|&x| x == c[0])) {
            (rep, data.chunks(rep).map(|c| c[0]).collect())
        } else {
            (1, data.to_vec())
        }
    }
}

#[derive(Clone, Debug)]
pub struct Wire {
    pub k: &'static str,
    pub t: i32,
    pub dt: i32,
    pub n: i32,
    pub i: i32,
    pub crc: i32,
    pub lo: usize,
    pub hi: usize,
    pub data: Vec<u8>,
}

impl Wire {
    fn fields(&self) -> Value {
        json!({"k": self.k, "t": self.t, "dt": self.dt, "n": self.n, "i": self.i, "crc": self.crc, "lo": self.lo, "hi": self.hi})
    }
}

#[derive(Clone)]
pub struct Sys {
    pub sender: Storage,
    pub tick: i32,
    pub manager: Manager,
    pub msgs: Vec<Rc<Wire>>,
    pub acks: Vec<i32>,
}

impl Sys {
    pub fn new() -> Sys {
        Sys {
            sender: Storage::new(),
            tick: 0,
            manager: Manager::new(),
            msgs: Vec::new(),
            acks: Vec::new(),
        }
    }
}

fn panic_out(p: String) -> Value {
    json!({"r": "panic", "e": format!("{} @{}", p, vh_common::last_panic_location())})
}

/// new_builder -> add_item* -> finish -> add_snap -> Delta::write -> delta_chunks
pub fn do_tick(sys: &mut Sys, cfg: &Config, world: &[ItemSpec]) -> Value {
    sys.tick += 1;
    let tick = sys.tick;
    let sender = &mut sys.sender;
    let res = vh_common::guarded(CALL_MS, || -> Result<(Vec<Wire>, i32, usize, i32), String> {
        let mut b = sender.new_builder();
        for it in world {
            b.add_item(type_id(it.ty), it.id, &it.real()).map_err(|e| format!("builder:{:?}", e))?;
        }
        let snap = b.finish();
        let crc = snap.crc();
        let dt = sender.delta_tick().unwrap_or(-1);
        let delta = sender.add_snap(tick, snap);
        let mut buf: Vec<u8> = Vec::with_capacity(512 * 1024);
        let agreed = &cfg.agreed;
        with_packer(&mut buf, |p| delta.write(|ty| agreed.get(&ty).copied(), p).map(|_| ())).map_err(|_| "delta-write:capacity".to_string())?;
        let mut out = Vec::new();
        let base = buf.as_ptr() as usize;
        for m in delta_chunks(tick, dt, &buf, crc) {
            out.push(match m {
                msg::SnapMsg::SnapEmpty(e) => Wire { k: "empty", t: e.tick, dt: e.delta_tick, n: 0, i: 0, crc: 0, lo: 0, hi: 0, data: vec![] },
                msg::SnapMsg::SnapSingle(s) => Wire { k: "single", t: s.tick, dt: s.delta_tick, n: 1, i: 0, crc: s.crc, lo: 0, hi: s.data.len(), data: s.data.to_vec() },
                msg::SnapMsg::Snap(s) => {
                    let lo = (s.data.as_ptr() as usize).wrapping_sub(base);
                    Wire { k: "part", t: s.tick, dt: s.delta_tick, n: s.num_parts, i: s.part, crc: s.crc, lo, hi: lo + s.data.len(), data: s.data.to_vec() }
                }
            });
            if out.len() > 10_000 {
                panic!("delta_chunks does not terminate");
            }
        }
        Ok((out, crc, buf.len(), dt))
    });
    match res {
        Err(p) => panic_out(p),
        Ok(Err(e)) => json!({"r": e, "e": ""}),
        Ok(Ok((ms, crc, len, dt))) => {
            let f: Vec<Value> = ms.iter().map(|m| m.fields()).collect();
            let n = ms.len();
            for m in ms {
                sys.msgs.push(Rc::new(m));
            }
            json!({"r": "ok", "n": n, "crc": crc, "len": len, "dt": dt, "msgs": f})
        }
    }
}

fn project_snap(cfg: &Config, snap: &Snap) -> (Value, bool) {
    let mut items: Vec<(i32, u16, usize, Vec<i32>)> = Vec::new();
    let mut lk = true;
    for it in snap.items() {
        let ty = user_ty(it.type_id);
        let (rep, d) = cfg.compress(ty, it.data);
        items.push((ty, it.id, rep, d));
        // the same item through the keyed lookup of the public API
        if snap.item(it.type_id, it.id) != Some(it.data) {
            lk = false;
        }
    }
    items.sort();
    (Value::Array(items.into_iter().map(|(ty, id, rep, d)| json!({"ty": ty, "id": id, "rep": rep, "d": d})).collect()), lk)
}

pub fn do_deliver_msg(sys: &mut Sys, cfg: &Config, i: usize, keep: bool) -> Value {
    if i == 0 || i > sys.msgs.len() {
        // the real sender put fewer messages in flight than the schedule assumes: nothing is delivered
        let ack = vh_common::catch(|| sys.manager.ack_tick().unwrap_or(-1)).unwrap_or(-2);
        return json!({"r": "skip", "e": "", "ack": ack, "view": [], "w": [], "lk": true, "t": 0});
    }
    let m = if keep { sys.msgs[i - 1].clone() } else { sys.msgs.remove(i - 1) };
    let manager = &mut sys.manager;
    let agreed = &cfg.agreed;
    let res = vh_common::guarded(CALL_MS, || {
        let mut w: Vec<manager::Warning> = Vec::new();
        let os = |ty: u16| agreed.get(&ty).copied();
        let r = match m.k {
            "empty" => manager.snap_empty(&mut w, os, msg::SnapEmpty { tick: m.t, delta_tick: m.dt }),
            "single" => manager.snap_single(&mut w, os, msg::SnapSingle { tick: m.t, delta_tick: m.dt, crc: m.crc, data: &m.data }),
            _ => manager.snap(&mut w, os, msg::Snap { tick: m.t, delta_tick: m.dt, num_parts: m.n, part: m.i, crc: m.crc, data: &m.data }),
        };
        let mut o = match r {
            Ok(Some(snap)) => {
                let (view, lk) = project_snap(cfg, snap);
                json!({"r": "ok", "e": "", "view": view, "lk": lk})
            }
            Ok(None) => json!({"r": "none", "e": "", "view": [], "lk": true}),
            Err(e) => json!({"r": "err", "e": format!("{:?}", e), "view": [], "lk": true}),
        };
        let mut names: Vec<String> = w.iter().map(|x| format!("{:?}", x)).collect();
        names.sort();
        names.dedup();
        o["w"] = json!(names);
        o
    });
    let mut o = match res {
        Ok(o) => o,
        Err(p) => {
            let mut o = panic_out(p);
            o["view"] = json!([]);
            o["lk"] = json!(true);
            o["w"] = json!([]);
            o
        }
    };
    o["ack"] = json!(vh_common::catch(|| sys.manager.ack_tick().unwrap_or(-1)).unwrap_or(-2));
    o["t"] = json!(m.t);
    o
}

pub fn do_client_ack(sys: &mut Sys) -> Value {
    let a = sys.manager.ack_tick().unwrap_or(-1);
    sys.acks.push(a);
    json!({"r": "ok", "ack": a})
}

pub fn do_deliver_ack(sys: &mut Sys, i: usize, keep: bool) -> Value {
    if i == 0 || i > sys.acks.len() {
        return json!({"r": "skip", "dt": sys.sender.delta_tick().unwrap_or(-1), "a": -1});
    }
    let a = if keep { sys.acks[i - 1] } else { sys.acks.remove(i - 1) };
    let sender = &mut sys.sender;
    let res = vh_common::guarded(CALL_MS, || {
        let mut w: Vec<storage::WeirdNegativeDeltaTick> = Vec::new();
        match sender.set_delta_tick(&mut w, a) {
            Ok(()) => "ok".to_string(),
            Err(e) => format!("{:?}", e),
        }
    });
    match res {
        Ok(r) => json!({"r": r, "dt": sys.sender.delta_tick().unwrap_or(-1), "a": a}),
        Err(p) => {
            let mut o = panic_out(p);
            o["dt"] = json!(vh_common::catch(|| sys.sender.delta_tick().unwrap_or(-1)).unwrap_or(-2));
            o["a"] = json!(a);
            o
        }
    }
}

/// Executes one step of a schedule; returns the trace event.
pub fn do_step(sys: &mut Sys, cfg: &mut Config, step: &Value, worlds: &[Vec<ItemSpec>]) -> Value {
    let a = step["a"].as_str().unwrap_or("");
    let i = step["i"].as_u64().unwrap_or(0) as usize;
    let keep = step["keep"].as_bool().unwrap_or(false);
    match a {
        "tick" => {
            let world: Vec<ItemSpec> = if step.get("world").map(|w| w.is_array()).unwrap_or(false) {
                world_from_json(&step["world"])
            } else {
                worlds[step["w"].as_u64().unwrap() as usize - 1].clone()
            };
            cfg.learn(&world);
            let o = do_tick(sys, cfg, &world);
            json!({"e": "tick", "i": 0, "keep": false, "world": world_to_json(&world), "out": o})
        }
        "deliver_msg" => {
            let o = do_deliver_msg(sys, cfg, i, keep);
            json!({"e": "deliver_msg", "i": i, "keep": keep, "out": o})
        }
        "client_ack" => json!({"e": "client_ack", "i": 0, "keep": false, "out": do_client_ack(sys)}),
        "deliver_ack" => {
            let o = do_deliver_ack(sys, i, keep);
            json!({"e": "deliver_ack", "i": i, "keep": keep, "out": o})
        }
        "drop_msg" => {
            if i >= 1 && i <= sys.msgs.len() {
                sys.msgs.remove(i - 1);
            }
            json!({"e": "drop_msg", "i": i, "keep": false, "out": {"r": "ok"}})
        }
        "drop_ack" => {
            if i >= 1 && i <= sys.acks.len() {
                sys.acks.remove(i - 1);
            }
            json!({"e": "drop_ack", "i": i, "keep": false, "out": {"r": "ok"}})
        }
        _ => json!({"e": "skip", "i": 0, "keep": false, "out": {"r": "ok"}}),
    }
}

pub fn execute_schedule(run_no: usize, sched: &Value, out: &mut dyn Write) {
    let mut cfg = Config::default();
    cfg.set_agreed(&sched["agreed"]);
    let worlds: Vec<Vec<ItemSpec>> = sched.get("worlds").and_then(|w| w.as_array()).map(|a| a.iter().map(world_from_json).collect()).unwrap_or_default();
    for w in &worlds {
        cfg.learn(w);
    }
    // learn the repetition factors of all worlds of the schedule before projecting anything
    for s in sched["steps"].as_array().unwrap() {
        if s.get("world").map(|w| w.is_array()).unwrap_or(false) {
            cfg.learn(&world_from_json(&s["world"]));
        }
    }
    writeln!(out, "{}", json!({"e": "reset", "run": run_no, "agreed": cfg.agreed_json()})).unwrap();
    let mut sys = Sys::new();
    vh_common::set_case(&vh_common::canon(sched));
    for s in sched["steps"].as_array().unwrap() {
        let ev = do_step(&mut sys, &mut cfg, s, &worlds);
        writeln!(out, "{}", ev).unwrap();
    }
}

/// `sync-run <schedules.json> [out.ndjson]`
pub fn cmd_run(args: &[String]) -> i32 {
    let text = std::fs::read_to_string(&args[0]).expect("schedule file");
    let v: Value = serde_json::from_str(&text).expect("schedule json");
    let mut out: Box<dyn Write> = match args.get(1) {
        Some(p) => Box::new(std::io::BufWriter::new(std::fs::File::create(p).unwrap())),
        None => Box::new(std::io::BufWriter::new(std::io::stdout())),
    };
    for (k, s) in v["runs"].as_array().unwrap().iter().enumerate() {
        execute_schedule(k + 1, s, &mut *out);
    }
    out.flush().unwrap();
    0
}

// ------------------------------------------------------------------ direction A

struct Node {
    parent: u32,
    step: Option<Rc<Value>>,
    sys: Option<Sys>,
}

fn norm(v: &Value) -> Value {
    // order-insensitive parts: view items, warning names
    let mut o = v.clone();
    if let Some(a) = o.get_mut("view").and_then(|x| x.as_array_mut()) {
        a.sort_by_key(|it| (it["ty"].as_i64().unwrap_or(0), it["id"].as_i64().unwrap_or(0)));
    }
    if let Some(a) = o.get_mut("w").and_then(|x| x.as_array_mut()) {
        a.sort_by(|x, y| x.as_str().unwrap_or("").cmp(y.as_str().unwrap_or("")));
    }
    if let Some(m) = o.as_object_mut() {
        m.remove("a");
    }
    o
}

pub fn cmd_replay(_args: &[String]) -> i32 {
    let stdin = std::io::stdin();
    let stdout = std::io::stdout();
    let mut out = std::io::BufWriter::new(stdout.lock());
    let mut cfg = Config::default();
    let mut worlds: Vec<Vec<ItemSpec>> = Vec::new();
    let mut worlds_json = Value::Null;
    let mut nodes: Vec<Node> = Vec::new();
    let mut queue: std::collections::VecDeque<u32> = std::collections::VecDeque::new();
    let mut pending: Option<(u32, Value, Sys)> = None;
    let mut cur: Option<u32> = None;
    let mut n_align = 0u64;
    let (mut n_trans, mut n_mism, mut n_panic, mut n_ok, mut n_err) = (0u64, 0u64, 0u64, 0u64, 0u64);
    let mut multi = 0u64;
    let mut printed: HashMap<String, u32> = HashMap::new();
    let mut tlc_tail: Vec<String> = Vec::new();
    let mut sample: Vec<Value> = Vec::new();

    let schedule = |nodes: &Vec<Node>, from: u32, last: &Value, cfg: &Config, worlds_json: &Value| -> Value {
        let mut steps = Vec::new();
        let mut n = from;
        loop {
            let node = &nodes[n as usize];
            match &node.step {
                Some(s) => steps.push((**s).clone()),
                None => break,
            }
            n = node.parent;
        }
        steps.reverse();
        steps.push(last.clone());
        json!({"agreed": cfg.agreed_json(), "worlds": worlds_json, "steps": steps})
    };

    for line in stdin.lock().lines() {
        let line = match line {
            Ok(l) => l,
            Err(_) => break,
        };
        let parts = match vh_common::parse_tlc_tuple(&line) {
            Some(p) if !p.is_empty() => p,
            _ => {
                if !line.starts_with("Parsing file") && !line.starts_with("Semantic processing") && !line.starts_with("Linting") {
                    tlc_tail.push(line);
                    if tlc_tail.len() > 60 {
                        tlc_tail.remove(0);
                    }
                }
                continue;
            }
        };
        match parts[0].as_str() {
            "C" => {
                let v: Value = serde_json::from_str(&parts[1]).unwrap();
                worlds = v["worlds"].as_array().unwrap().iter().map(world_from_json).collect();
                worlds_json = v["worlds"].clone();
                for w in &worlds {
                    cfg.learn(w);
                }
                cfg.set_agreed(&v["agreed"]);
            }
            "N" => {
                // the target of the preceding transition (or the initial state) is a new state
                let idx = nodes.len() as u32;
                match pending.take() {
                    Some((src, step, sys)) => nodes.push(Node { parent: src, step: Some(Rc::new(step)), sys: Some(sys) }),
                    None if nodes.is_empty() => nodes.push(Node { parent: 0, step: None, sys: Some(Sys::new()) }),
                    None => {
                        eprintln!("sync-replay: N without a preceding transition");
                        return 3;
                    }
                }
                queue.push_back(idx);
            }
            "S" => {
                pending = None;
                if let Some(c) = cur {
                    nodes[c as usize].sys = None;
                }
                cur = queue.pop_front();
                let c = match cur {
                    Some(c) => c,
                    None => {
                        eprintln!("sync-replay: more source states than discovered states");
                        return 3;
                    }
                };
                // cross-check of the alignment with a few observables of the real system
                if let Some(sys) = &nodes[c as usize].sys {
                    let obs = vec![sys.tick.to_string(), sys.msgs.len().to_string(), sys.acks.len().to_string(),
                                   sys.manager.ack_tick().unwrap_or(-1).to_string()];
                    if parts[1..] != obs[..] {
                        n_align += 1;
                    }
                }
            }
            "T" => {
                let src = cur.expect("S before T");
                let act: Value = serde_json::from_str(&parts[1]).unwrap();
                let exp: Value = serde_json::from_str(&parts[2]).unwrap();
                let mut sys = match &nodes[src as usize].sys {
                    Some(s) => s.clone(),
                    None => {
                        eprintln!("sync-replay: source system already released");
                        return 3;
                    }
                };
                let a = act["a"].as_str().unwrap_or("").to_string();
                let step = json!({"a": a, "w": act["w"], "i": act["i"], "keep": act["keep"]});
                if n_trans % 32 == 0 {
                    vh_common::set_case(&vh_common::canon(&schedule(&nodes, src, &step, &cfg, &worlds_json)));
                }
                let ev = do_step(&mut sys, &mut cfg, &step, &worlds);
                let real = ev["out"].clone();
                n_trans += 1;
                match real["r"].as_str().unwrap_or("") {
                    "panic" => n_panic += 1,
                    "ok" if a == "deliver_msg" => n_ok += 1,
                    "err" => n_err += 1,
                    _ => {}
                }
                if a == "tick" && real["n"].as_u64().unwrap_or(0) > 1 {
                    multi += 1;
                }
                let mut realc = real.clone();
                if a == "deliver_ack" {
                    if let Some(m) = realc.as_object_mut() {
                        m.remove("a");
                    }
                }
                let e = vh_common::canon(&norm(&exp));
                let g = vh_common::canon(&norm(&realc));
                if e != g || real["r"] == "panic" {
                    n_mism += 1;
                    let ne = norm(&exp);
                    let ng = norm(&realc);
                    let mut diff: Vec<String> = Vec::new();
                    let mut keys: Vec<String> = ne.as_object().map(|m| m.keys().cloned().collect()).unwrap_or_default();
                    for k in ng.as_object().map(|m| m.keys().cloned().collect::<Vec<_>>()).unwrap_or_default() {
                        if !keys.contains(&k) {
                            keys.push(k);
                        }
                    }
                    keys.sort();
                    for f in keys {
                        if ne.get(&f) != ng.get(&f) {
                            diff.push(f);
                        }
                    }
                    let sig = format!("{}:{}->{}:{}:{}", a, exp["r"].as_str().unwrap_or(""), real["r"].as_str().unwrap_or(""),
                        real["e"].as_str().unwrap_or("").chars().take(60).collect::<String>(), diff.join("+"));
                    let c = printed.entry(sig.clone()).or_insert(0);
                    *c += 1;
                    if *c <= 3 {
                        writeln!(out, "{}", json!({"kind": "mismatch", "sig": sig, "expected": exp, "real": real,
                            "schedule": schedule(&nodes, src, &step, &cfg, &worlds_json)})).unwrap();
                    }
                } else if sample.len() < 3 && a == "deliver_msg" && real["r"] == "ok" && real["view"].as_array().map(|v| v.len() > 1).unwrap_or(false) {
                    sample.push(json!({"steps": schedule(&nodes, src, &step, &cfg, &worlds_json)["steps"], "real_out": real}));
                }
                pending = Some((src, step, sys));
            }
            _ => {}
        }
    }
    let sigs: Vec<Value> = printed.iter().map(|(k, v)| json!({"sig": k, "count": v})).collect();
    writeln!(out, "{}", json!({"kind": "summary", "states": nodes.len(), "transitions": n_trans, "mismatches": n_mism,
        "panics": n_panic, "misaligned_sources": n_align, "accepted": n_ok, "rejected": n_err, "multi_part_ticks": multi, "signatures": sigs,
        "sample": sample, "tlc_tail": tlc_tail})).unwrap();
    out.flush().unwrap();
    0
}

// ------------------------------------------------------------------ direction B

fn small_value(rng: &mut StdRng) -> i32 {
    // one byte on the wire; zero is frequent (an all-zero item is invisible to the checksum)
    if rng.gen_range(0..4) == 0 {
        0
    } else {
        rng.gen_range(0..60)
    }
}

/// A change the checksum (sum of all integers) cannot see and that keeps the wire layout: two small items
/// of one type swap their data, or the fields of one item rotate.  Big items stay as they are.
fn neutral_change(rng: &mut StdRng, prev: &[ItemSpec]) -> Vec<ItemSpec> {
    let mut w: Vec<ItemSpec> = prev.to_vec();
    let small: Vec<usize> = (0..w.len()).filter(|&k| w[k].rep == 1 && !w[k].d.is_empty()).collect();
    let mut pairs: Vec<(usize, usize)> = Vec::new();
    for &a in &small {
        for &b in &small {
            if a < b && w[a].ty == w[b].ty && w[a].d.len() == w[b].d.len() && w[a].d != w[b].d {
                pairs.push((a, b));
            }
        }
    }
    if !pairs.is_empty() && rng.gen_bool(0.7) {
        let (a, b) = pairs[rng.gen_range(0..pairs.len())];
        let t = w[a].d.clone();
        w[a].d = w[b].d.clone();
        w[b].d = t;
    } else {
        let multi: Vec<usize> = small.iter().copied().filter(|&k| w[k].d.len() >= 2).collect();
        if !multi.is_empty() {
            let k = multi[rng.gen_range(0..multi.len())];
            w[k].d.rotate_left(1);
        }
    }
    w
}

fn random_world(rng: &mut StdRng, prev: &[ItemSpec], big_rep: usize) -> Vec<ItemSpec> {
    // types: 1 (pre-agreed size 2), 2 (size 1), 5 (size 3), 6 (size 0), 3 (big, multi-part),
    // UUID -1/-2 (size 1), UUID -3 (big)
    if rng.gen_range(0..8) == 0 {
        return neutral_change(rng, prev);
    }
    let mut w: Vec<ItemSpec> = Vec::new();
    for it in prev {
        if it.id >= 100 {
            // the long-lived pair of the calm phases: only ever permuted, so that a delta applied to a
            // snapshot of another tick than its base stays visible however much later it is accepted
            w.push(it.clone());
            continue;
        }
        match rng.gen_range(0..10) {
            0 | 1 => {} // disappears
            2 | 3 | 4 => {
                let mut it = it.clone();
                for x in it.d.iter_mut() {
                    *x = if it.rep > 1 { rng.gen_range(0..8000) } else { small_value(rng) };
                }
                w.push(it);
            }
            _ => w.push(it.clone()),
        }
    }
    let n_new = rng.gen_range(0..3);
    for _ in 0..n_new {
        let (ty, len, rep): (i32, usize, usize) = match rng.gen_range(0..13) {
            12 => (6, 0, 1),
            0 | 1 => (1, 2, 1),
            2 | 3 => (2, 1, 1),
            4 => (5, 3, 1),
            5 => (3, 1, big_rep),
            6 | 7 => (-1, 1, 1),
            8 | 9 => (-2, 1, 1),
            10 => (-3, 1, big_rep),
            _ => (2, 1, 1),
        };
        let id: u16 = rng.gen_range(0..4);
        if w.iter().any(|i| i.ty == ty && i.id == id) {
            continue;
        }
        // at most two big items so that the snapshot stays below 64 KiB and the delta below 32 parts
        if rep > 1 && w.iter().filter(|i| i.rep > 1).count() >= 2 {
            continue;
        }
        let all_zero = rng.gen_range(0..5) == 0;
        let d: Vec<i32> = (0..len).map(|_| if all_zero { 0 } else if rep > 1 { rng.gen_range(0..8000) } else { small_value(rng) }).collect();
        w.push(ItemSpec { ty, id, rep, d });
    }
    sort_world(&mut w);
    w
}

/// `sync-drive <seed> <runs> <ticks> <out.ndjson>`
pub fn cmd_drive(args: &[String]) -> i32 {
    let seed: u64 = args[0].parse().unwrap();
    let runs: usize = args[1].parse().unwrap();
    let ticks: usize = args[2].parse().unwrap();
    let mut out = std::io::BufWriter::new(std::fs::File::create(&args[3]).unwrap());
    let mut rng = StdRng::seed_from_u64(seed);
    let (mut events, mut accepted, mut rejected, mut multi, mut maxparts, mut max_stored) = (0u64, 0u64, 0u64, 0u64, 0u64, 0usize);
    let mut unknown_ack = 0u64;
    let mut complementary = 0u64;
    for run_no in 1..=runs {
        let mut cfg = Config::default();
        cfg.agreed.insert(1, 2);
        let big_rep = [1000usize, 1500, 2600, 5000, 7000][rng.gen_range(0..5)];
        for (ty, rep) in [(7, 13700), (8, 14200), (1, 1), (2, 1), (5, 1), (6, 1), (3, big_rep), (-1, 1), (-2, 1), (-3, big_rep)] {
            cfg.reps.insert(ty, rep);
        }
        writeln!(out, "{}", json!({"e": "reset", "run": run_no, "agreed": cfg.agreed_json()})).unwrap();
        let mut sys = Sys::new();
        let mut world: Vec<ItemSpec> = Vec::new();
        // per-run fault profile
        let mut p_loss = [0.0, 0.05, 0.2, 0.4][rng.gen_range(0..4)];
        let p_dup = [0.0, 0.05, 0.2][rng.gen_range(0..3)];
        let p_reorder = [0.0, 0.2, 0.6][rng.gen_range(0..3)];
        let mut p_ack = [0.1, 0.5, 1.0][rng.gen_range(0..3)];
        // a phase without any acknowledgement reaching the sender: the receiver's cap (100) evicts the base
        // (always in the first run, which acknowledges reliably before the phase starts)
        let blackout = if (run_no == 1 || rng.gen_range(0..3) == 0) && ticks > 130 { Some(rng.gen_range(5..ticks - 120)) } else { None };
        if run_no == 1 && blackout.is_some() {
            p_loss = 0.05;
            p_ack = 1.0;
        }
        // Calm phases: the world only changes in ways the checksum cannot see (values swap between items,
        // rotate inside an item), so that a delta applied to another snapshot of the phase than its base still
        // passes the checksum.  One phase always surrounds the start of the eviction phase.
        let mut calm: Vec<(usize, usize)> = Vec::new();
        if let Some(b) = blackout {
            calm.push((b.saturating_sub(4), b + 25));
        }
        for _ in 0..rng.gen_range(0..3) {
            let a = rng.gen_range(0..ticks.max(1));
            calm.push((a, a + rng.gen_range(5..25)));
        }
        // acknowledgements kept in flight before the oldest is delivered (reordering then lets a late
        // acknowledgement of an already dropped snapshot reach the sender)
        let ack_lag: usize = [0, 0, 1, 2, 3][rng.gen_range(0..5)];
        let worlds: Vec<Vec<ItemSpec>> = Vec::new();
        let mut stored_estimate = 0usize;
        let mut comp: Option<(usize, Vec<usize>)> = None;
        let mut neutral_next = false;
        let emit = |ev: Value, out: &mut std::io::BufWriter<std::fs::File>| {
            writeln!(out, "{}", ev).unwrap();
        };
        for tk in 0..ticks {
            vh_common::set_case(&format!("{{\"seed\":{},\"run\":{},\"tick\":{}}}", seed, run_no, tk));
            let in_calm = calm.iter().any(|&(a, b)| tk >= a && tk < b);
            // Part-count limit, in every run: a 13700-integer item appears alone (a delta of 31 parts whatever
            // the base is), is replaced by a 14200-integer item (32 parts, the maximum), then the world is empty.
            let limit_phase = tk >= 3 && tk <= 5;
            world = if limit_phase {
                match tk {
                    3 => vec![ItemSpec { ty: 7, id: 1, rep: 13700, d: vec![rng.gen_range(64..8000)] }],
                    4 => vec![ItemSpec { ty: 8, id: 1, rep: 14200, d: vec![rng.gen_range(64..8000)] }],
                    _ => Vec::new(),
                }
            } else if neutral_next || in_calm {
                let w = neutral_change(&mut rng, &world);
                if in_calm && w.iter().zip(&world).all(|(x, y)| x.d == y.d) {
                    // nothing to permute yet: give the world two items that can swap
                    let mut w = world.clone();
                    for id in [100u16, 101] {
                        if !w.iter().any(|i| i.ty == 2 && i.id == id) {
                            w.push(ItemSpec { ty: 2, id, rep: 1, d: vec![1 + (id as i32 - 100) * 7] });
                        }
                    }
                    sort_world(&mut w);
                    w
                } else {
                    w
                }
            } else {
                random_world(&mut rng, &world, big_rep)
            };
            neutral_next = false;
            let ev = do_step(&mut sys, &mut cfg, &json!({"a": "tick", "world": world_to_json(&world)}), &worlds);
            let n = ev["out"]["n"].as_u64().unwrap_or(0);
            if n > 1 {
                multi += 1;
            }
            maxparts = maxparts.max(n);
            events += 1;
            emit(ev, &mut out);
            let in_blackout = blackout.map(|b| tk >= b && tk < b + 115).unwrap_or(false);
            // Complementary losses on two consecutive multi-part snapshots made against the same base: of the
            // first only some parts arrive, of the second (whose world differs by a checksum-neutral change)
            // exactly the other part numbers.  Nothing may be accepted from such a pair.
            let n = n as usize;
            let pending = comp.take();
            let mut comp_lost: Option<Vec<usize>> = None;
            if !in_blackout && !limit_phase && n >= 2 && sys.msgs.len() >= n {
                match pending {
                    Some((n0, lost)) if n0 == n => comp_lost = Some((0..n).filter(|j| !lost.contains(j)).collect()),
                    _ => {
                        if rng.gen_range(0..6) == 0 {
                            let mut lost: Vec<usize> = (0..n).filter(|_| rng.gen_bool(0.5)).collect();
                            if lost.is_empty() {
                                lost.push(n - 1);
                            }
                            if lost.len() == n {
                                lost.remove(0);
                            }
                            comp = Some((n, lost.clone()));
                            neutral_next = true;
                            comp_lost = Some(lost);
                        }
                    }
                }
            }
            if let Some(lost) = comp_lost {
                while sys.msgs.len() > n {
                    let ev = do_step(&mut sys, &mut cfg, &json!({"a": "drop_msg", "i": 1}), &worlds);
                    events += 1;
                    emit(ev, &mut out);
                }
                for j in (0..n).rev() {
                    let step = if lost.contains(&j) { json!({"a": "drop_msg", "i": j + 1}) } else { json!({"a": "deliver_msg", "i": j + 1, "keep": false}) };
                    let ev = do_step(&mut sys, &mut cfg, &step, &worlds);
                    if ev["out"]["r"] == "ok" {
                        accepted += 1;
                    } else if ev["out"]["r"] == "err" {
                        rejected += 1;
                    }
                    events += 1;
                    emit(ev, &mut out);
                }
                complementary += 1;
                continue;
            }
            // network activity until the queues are short
            let mut guard = 0;
            while (sys.msgs.len() > 3 || (!sys.msgs.is_empty() && (in_blackout || limit_phase || rng.gen_bool(0.8)))) && guard < 200 {
                guard += 1;
                // during the black-out everything arrives, in order: more than 100 snapshots are accepted on one base
                let i = if !in_blackout && rng.gen_bool(if limit_phase { 0.5 } else { p_reorder }) { rng.gen_range(1..=sys.msgs.len()) } else { 1 };
                let step = if !in_blackout && !limit_phase && rng.gen_bool(p_loss) {
                    json!({"a": "drop_msg", "i": i})
                } else {
                    json!({"a": "deliver_msg", "i": i, "keep": rng.gen_bool(p_dup)})
                };
                let ev = do_step(&mut sys, &mut cfg, &step, &worlds);
                if ev["e"] == "deliver_msg" {
                    match ev["out"]["r"].as_str().unwrap_or("") {
                        "ok" => {
                            accepted += 1;
                            stored_estimate += 1;
                        }
                        "err" => {
                            rejected += 1;
                            if ev["out"]["e"] == "Storage(UnknownSnap)" {
                                stored_estimate = 0;
                            }
                        }
                        _ => {}
                    }
                    max_stored = max_stored.max(stored_estimate);
                }
                events += 1;
                emit(ev, &mut out);
            }
            if rng.gen_bool(p_ack) {
                let ev = do_step(&mut sys, &mut cfg, &json!({"a": "client_ack"}), &worlds);
                events += 1;
                emit(ev, &mut out);
            }
            while sys.acks.len() > ack_lag && (sys.acks.len() > ack_lag + 3 || rng.gen_bool(0.7)) {
                let i = if ack_lag > 0 && rng.gen_bool(0.5) {
                    sys.acks.len() // the newest first: the older ones arrive late
                } else if rng.gen_bool(p_reorder) {
                    rng.gen_range(1..=sys.acks.len())
                } else {
                    1
                };
                let step = if in_blackout || rng.gen_bool(p_loss) {
                    json!({"a": "drop_ack", "i": i})
                } else {
                    json!({"a": "deliver_ack", "i": i, "keep": rng.gen_bool(p_dup)})
                };
                let ev = do_step(&mut sys, &mut cfg, &step, &worlds);
                if ev["out"]["r"] == "UnknownSnap" {
                    unknown_ack += 1;
                } else if ev["e"] == "deliver_ack" {
                    // the receiver drops what is older than the new base with the next accepted delta
                    stored_estimate = stored_estimate.min(110);
                }
                events += 1;
                emit(ev, &mut out);
            }
        }
    }
    out.flush().unwrap();
    println!("{}", json!({"kind": "summary", "runs": runs, "ticks_per_run": ticks, "events": events, "accepted": accepted,
        "rejected": rejected, "multi_part_ticks": multi, "max_parts": maxparts, "acks_naming_dropped_snapshots": unknown_ack,
        "max_consecutive_accepts_without_rebase": max_stored,
        "ticks_with_complementary_part_loss": complementary}));
    0
}
