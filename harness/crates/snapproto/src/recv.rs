//! C12: `delta_chunks` + `DeltaReceiver`.
//!
//! * `recv-replay`: reads the transition export of spec/snaprecv (TLC stdout),
//!   executes every transition on a clone of the real receiver kept per spec
//!   state and compares the real output with the output TLC printed.
//! * `recv-run`: executes operational schedules (JSON) and prints an NDJSON trace.
//! * `recv-drive`: seeded random histories with real-size data, NDJSON trace.
use libtw2_gamenet_snap as msg;
use libtw2_packer::with_packer;
use libtw2_packer::Unpacker;
use libtw2_snapshot::receiver::DeltaReceiver;
use libtw2_snapshot::receiver::Warning;
use libtw2_snapshot::snap::delta_chunks;
use serde_json::json;
use serde_json::Value;
use std::collections::hash_map::DefaultHasher;
use std::collections::HashMap;
use std::hash::Hash;
use std::hash::Hasher;
use std::io::BufRead;
use std::io::Write;
use vh_common::rand::rngs::StdRng;
use vh_common::rand::seq::SliceRandom;
use vh_common::rand::Rng;
use vh_common::rand::SeedableRng;

const CALL_MS: u64 = 10_000;

#[derive(Clone, Debug)]
pub struct Transfer {
    pub id: i64,
    pub t: i32,
    pub b: i32,
    pub len: usize,
    pub crc: i32,
}

impl Transfer {
    pub fn from_json(v: &Value) -> Transfer {
        Transfer {
            id: v["id"].as_i64().unwrap(),
            t: v["t"].as_i64().unwrap() as i32,
            b: v["b"].as_i64().unwrap() as i32,
            len: v["len"].as_u64().unwrap() as usize,
            crc: v["crc"].as_i64().unwrap() as i32,
        }
    }
    pub fn to_json(&self) -> Value {
        json!({"id": self.id, "t": self.t, "b": self.b, "len": self.len, "crc": self.crc})
    }
}

/// A snapshot message with owned data, in the spec's vocabulary.
#[derive(Clone, Debug)]
pub struct OwnedMsg {
    pub k: String,
    pub t: i32,
    pub dt: i32,
    pub n: i32,
    pub i: i32,
    pub crc: i32,
    pub tr: i64,
    pub lo: usize,
    pub hi: usize,
    pub data: Vec<u8>,
}

impl OwnedMsg {
    pub fn to_json(&self) -> Value {
        json!({"k": self.k, "t": self.t, "dt": self.dt, "n": self.n, "i": self.i, "crc": self.crc,
               "tr": self.tr, "lo": self.lo, "hi": self.hi})
    }
    /// Builds the message the spec describes (used for forged/malformed messages
    /// and when the real `delta_chunks` could not produce one).
    pub fn from_spec(v: &Value) -> OwnedMsg {
        let lo = v["lo"].as_u64().unwrap() as usize;
        let hi = v["hi"].as_u64().unwrap() as usize;
        let tr = v["tr"].as_i64().unwrap();
        let b = blob(tr, hi);
        OwnedMsg {
            k: v["k"].as_str().unwrap().to_string(),
            t: v["t"].as_i64().unwrap() as i32,
            dt: v["dt"].as_i64().unwrap() as i32,
            n: v["n"].as_i64().unwrap() as i32,
            i: v["i"].as_i64().unwrap() as i32,
            crc: v["crc"].as_i64().unwrap() as i32,
            tr,
            lo,
            hi,
            data: b[lo..hi].to_vec(),
        }
    }
}

/// The data block of transfer `id`: pseudo-random bytes, a function of (id, len)
/// such that blocks of the same id are prefixes of each other and blocks of ids
/// that differ modulo 16 differ in every byte.
pub fn blob(id: i64, len: usize) -> Vec<u8> {
    let mut x: u64 = (id as u64).wrapping_mul(0x9E37_79B9_7F4A_7C15) ^ 0xD1B5_4A32_D192_ED03;
    if x == 0 {
        x = 1;
    }
    let mut out = Vec::with_capacity(len);
    while out.len() < len {
        x ^= x >> 12;
        x ^= x << 25;
        x ^= x >> 27;
        let v = x.wrapping_mul(0x2545_F491_4F6C_DD1D);
        for b in v.to_le_bytes() {
            if out.len() < len {
                // the low nibble of every byte is the transfer's "colour" (id mod 16; a run has at
                // most 9 transfers with consecutive ids), so pieces of different transfers of a run
                // never have a byte in common and even a 1-byte piece maps back unambiguously
                out.push((b & 0xF0) | ((id as u8) & 0x0F));
            }
        }
    }
    out
}

/// Maps real bytes back to segments `[tr, lo, hi)` of known data blocks.
#[derive(Default)]
pub struct Pieces {
    all: Vec<(i64, usize, usize, Vec<u8>)>,
    seen: HashMap<(i64, usize, usize), usize>,
    long: HashMap<[u8; 8], Vec<usize>>,
    short: Vec<usize>,
}

impl Pieces {
    pub fn add(&mut self, tr: i64, lo: usize, hi: usize, bytes: &[u8]) {
        if bytes.is_empty() || self.seen.contains_key(&(tr, lo, hi)) {
            return;
        }
        let idx = self.all.len();
        self.all.push((tr, lo, hi, bytes.to_vec()));
        self.seen.insert((tr, lo, hi), idx);
        if bytes.len() >= 8 {
            let mut k = [0u8; 8];
            k.copy_from_slice(&bytes[..8]);
            self.long.entry(k).or_default().push(idx);
        } else {
            self.short.push(idx);
        }
    }
    pub fn add_msg(&mut self, m: &OwnedMsg) {
        self.add(m.tr, m.lo, m.hi, &m.data);
    }
    /// Longest-match decomposition; bytes that match no known piece become one
    /// segment with `tr = -1`.
    pub fn decompose(&self, bytes: &[u8]) -> Value {
        let mut out = Vec::new();
        let mut pos = 0;
        while pos < bytes.len() {
            let rest = &bytes[pos..];
            let mut best: Option<usize> = None;
            let consider = |idx: usize, best: &mut Option<usize>| {
                let p = &self.all[idx].3;
                if rest.len() >= p.len() && &rest[..p.len()] == &p[..] {
                    if best.map(|b| self.all[b].3.len() < p.len()).unwrap_or(true) {
                        *best = Some(idx);
                    }
                }
            };
            if rest.len() >= 8 {
                let mut k = [0u8; 8];
                k.copy_from_slice(&rest[..8]);
                if let Some(v) = self.long.get(&k) {
                    for &idx in v {
                        consider(idx, &mut best);
                    }
                }
            }
            for &idx in &self.short {
                consider(idx, &mut best);
            }
            match best {
                Some(idx) => {
                    let (tr, lo, hi, ref p) = self.all[idx];
                    out.push(json!({"tr": tr, "lo": lo, "hi": hi}));
                    pos += p.len();
                }
                None => {
                    out.push(json!({"tr": -1, "lo": pos, "hi": bytes.len()}));
                    break;
                }
            }
        }
        Value::Array(out)
    }
}

/// Calls the real `delta_chunks`; `Err(panic message)` if it panicked.
pub fn cut(t: &Transfer) -> Result<Vec<OwnedMsg>, String> {
    let data = blob(t.id, t.len);
    let tr = t.clone();
    vh_common::guarded(CALL_MS, move || {
        let mut out = Vec::new();
        let mut pos = 0usize;
        for m in delta_chunks(tr.t, tr.b, &data, tr.crc) {
            let om = match m {
                msg::SnapMsg::SnapEmpty(e) => OwnedMsg {
                    k: "empty".into(),
                    t: e.tick,
                    dt: e.delta_tick,
                    n: 0,
                    i: 0,
                    crc: 0,
                    tr: tr.id,
                    lo: 0,
                    hi: 0,
                    data: vec![],
                },
                msg::SnapMsg::SnapSingle(s) => {
                    let lo = pos;
                    pos += s.data.len();
                    OwnedMsg {
                        k: "single".into(),
                        t: s.tick,
                        dt: s.delta_tick,
                        n: 1,
                        i: 0,
                        crc: s.crc,
                        tr: tr.id,
                        lo,
                        hi: pos,
                        data: s.data.to_vec(),
                    }
                }
                msg::SnapMsg::Snap(s) => {
                    // Position of this part's data inside the block (pointer arithmetic
                    // on the borrowed slice; falls back to the running position).
                    let base = data.as_ptr() as usize;
                    let p = s.data.as_ptr() as usize;
                    let lo = if p >= base && p + s.data.len() <= base + data.len() {
                        p - base
                    } else {
                        pos
                    };
                    pos = lo + s.data.len();
                    OwnedMsg {
                        k: "part".into(),
                        t: s.tick,
                        dt: s.delta_tick,
                        n: s.num_parts,
                        i: s.part,
                        crc: s.crc,
                        tr: tr.id,
                        lo,
                        hi: pos,
                        data: s.data.to_vec(),
                    }
                }
            };
            out.push(om);
            if out.len() > 100_000 {
                panic!("delta_chunks does not terminate");
            }
        }
        out
    })
}

fn warn_names(w: &[Warning]) -> Value {
    let mut v: Vec<String> = w.iter().map(|x| format!("{:?}", x)).collect();
    v.sort();
    v.dedup();
    json!(v)
}

pub fn no_out(r: &str, e: &str) -> Value {
    json!({"r": r, "e": e, "t": 0, "b": 0, "hd": false, "crc": 0, "data": [], "w": []})
}

/// Sends the message through its own wire encoding (gamenet/snap) and feeds what
/// was decoded to the receiver.  Everything that happens is returned as data.
pub fn feed(r: &mut DeltaReceiver, m: &OwnedMsg, pieces: &Pieces) -> Value {
    let res = vh_common::guarded(CALL_MS, || {
        let mut buf: Vec<u8> = Vec::with_capacity(m.data.len() + 64);
        let mut pw: Vec<libtw2_packer::Warning> = Vec::new();
        let mut w: Vec<Warning> = Vec::new();
        let out = match m.k.as_str() {
            "empty" => {
                let s = msg::SnapEmpty {
                    tick: m.t,
                    delta_tick: m.dt,
                };
                if with_packer(&mut buf, |p| s.encode(p).map(|_| ())).is_err() {
                    return no_out("wire", "encode");
                }
                let d = match msg::SnapEmpty::decode(&mut pw, &mut Unpacker::new(&buf)) {
                    Ok(d) => d,
                    Err(e) => return no_out("wire", &format!("decode:{:?}", e)),
                };
                project(r.snap_empty(&mut w, d), pieces)
            }
            "single" => {
                let s = msg::SnapSingle {
                    tick: m.t,
                    delta_tick: m.dt,
                    crc: m.crc,
                    data: &m.data,
                };
                if with_packer(&mut buf, |p| s.encode(p).map(|_| ())).is_err() {
                    return no_out("wire", "encode");
                }
                let d = match msg::SnapSingle::decode(&mut pw, &mut Unpacker::new(&buf)) {
                    Ok(d) => d,
                    Err(e) => return no_out("wire", &format!("decode:{:?}", e)),
                };
                project(r.snap_single(&mut w, d), pieces)
            }
            _ => {
                let s = msg::Snap {
                    tick: m.t,
                    delta_tick: m.dt,
                    num_parts: m.n,
                    part: m.i,
                    crc: m.crc,
                    data: &m.data,
                };
                if with_packer(&mut buf, |p| s.encode(p).map(|_| ())).is_err() {
                    return no_out("wire", "encode");
                }
                let d = match msg::Snap::decode(&mut pw, &mut Unpacker::new(&buf)) {
                    Ok(d) => d,
                    Err(e) => return no_out("wire", &format!("decode:{:?}", e)),
                };
                project(r.snap(&mut w, d), pieces)
            }
        };
        let mut out = out;
        let mut names = warn_names(&w);
        if !pw.is_empty() {
            names.as_array_mut().unwrap().push(json!("WirePacker"));
        }
        out["w"] = names;
        out
    });
    match res {
        Ok(v) => v,
        Err(p) => no_out("panic", &format!("{} @{}", p, vh_common::last_panic_location())),
    }
}

fn project(
    res: Result<Option<libtw2_snapshot::ReceivedDelta<'_>>, libtw2_snapshot::receiver::Error>,
    pieces: &Pieces,
) -> Value {
    match res {
        Err(e) => no_out("err", &format!("{:?}", e)),
        Ok(None) => no_out("none", ""),
        Ok(Some(d)) => match d.data_and_crc {
            None => json!({"r": "done", "e": "", "t": d.tick, "b": d.delta_tick, "hd": false, "crc": 0, "data": [], "w": []}),
            Some((data, crc)) => json!({"r": "done", "e": "", "t": d.tick, "b": d.delta_tick, "hd": true, "crc": crc,
                                        "data": pieces.decompose(data), "w": []}),
        },
    }
}

fn norm_out(v: &Value) -> Value {
    let mut o = v.clone();
    if let Some(a) = o.get_mut("w").and_then(|w| w.as_array_mut()) {
        a.sort_by(|x, y| x.as_str().unwrap_or("").cmp(y.as_str().unwrap_or("")));
    }
    o
}

fn msg_fields_equal(real: &OwnedMsg, spec: &Value) -> bool {
    vh_common::canon(&real.to_json()) == vh_common::canon(spec)
}

// ------------------------------------------------------------------ one run (shared by run/drive/replay files)

/// The real objects of one run: the transfers as cut by the real `delta_chunks`.
pub struct Run {
    pub transfers: Vec<Transfer>,
    pub consistent: bool,
    pub chunks: HashMap<i64, Result<Vec<OwnedMsg>, String>>,
    pub pieces: Pieces,
}

impl Run {
    pub fn new(transfers: Vec<Transfer>, consistent: bool) -> Run {
        let mut r = Run {
            transfers,
            consistent,
            chunks: HashMap::new(),
            pieces: Pieces::default(),
        };
        for t in r.transfers.clone() {
            let c = cut(&t);
            if let Ok(ms) = &c {
                for m in ms {
                    r.pieces.add_msg(m);
                }
            }
            r.chunks.insert(t.id, c);
        }
        r
    }
    pub fn header_events(&self, run_no: usize, out: &mut dyn Write) {
        let trs: Vec<Value> = self.transfers.iter().map(|t| t.to_json()).collect();
        writeln!(out, "{}", json!({"e": "reset", "run": run_no, "consistent": self.consistent, "transfers": trs})).unwrap();
        for t in &self.transfers {
            match &self.chunks[&t.id] {
                Ok(ms) => {
                    let v: Vec<Value> = ms.iter().map(|m| m.to_json()).collect();
                    writeln!(out, "{}", json!({"e": "cut", "T": t.to_json(), "ok": true, "panic": "", "msgs": v})).unwrap();
                }
                Err(p) => {
                    writeln!(out, "{}", json!({"e": "cut", "T": t.to_json(), "ok": false, "panic": p, "msgs": []})).unwrap();
                }
            }
        }
    }
    /// The message to feed for step (tr, j): the real one, or the one the spec
    /// describes if the real sender produced none.
    pub fn message(&mut self, tr: i64, j: usize, spec_m: Option<&Value>) -> Option<OwnedMsg> {
        if let Some(Ok(ms)) = self.chunks.get(&tr) {
            if let Some(m) = ms.get(j) {
                return Some(m.clone());
            }
        }
        let m = OwnedMsg::from_spec(spec_m?);
        self.pieces.add_msg(&m);
        Some(m)
    }
}

/// Executes a schedule `{transfers, consistent, steps}` on a fresh receiver.
pub fn execute_schedule(run_no: usize, sched: &Value, out: &mut dyn Write) {
    let transfers: Vec<Transfer> = sched["transfers"].as_array().unwrap().iter().map(Transfer::from_json).collect();
    let consistent = sched["consistent"].as_bool().unwrap_or(true);
    let mut run = Run::new(transfers, consistent);
    run.header_events(run_no, out);
    let mut r = DeltaReceiver::new();
    for s in sched["steps"].as_array().unwrap() {
        vh_common::set_case(&vh_common::canon(sched));
        let a = s["a"].as_str().unwrap_or("recv");
        if a == "recv" {
            let tr = s["tr"].as_i64().unwrap();
            let j = s["j"].as_u64().unwrap() as usize;
            match run.message(tr, j, s.get("m").filter(|m| m.is_object())) {
                Some(m) => {
                    let o = feed(&mut r, &m, &run.pieces);
                    writeln!(out, "{}", json!({"e": "recv", "tr": tr, "j": j, "m": m.to_json(), "out": o})).unwrap();
                }
                None => {
                    // the real sender produced no such message and the schedule does not describe one
                    writeln!(out, "{}", json!({"e": "skip", "tr": tr, "j": j})).unwrap();
                }
            }
        } else {
            let m = OwnedMsg::from_spec(&s["m"]);
            run.pieces.add_msg(&m);
            let o = feed(&mut r, &m, &run.pieces);
            writeln!(out, "{}", json!({"e": "extra", "tr": 0, "j": 0, "m": m.to_json(), "out": o})).unwrap();
        }
    }
}

/// `recv-run <schedules.json> [out.ndjson]`: `{"runs": [schedule, ...]}`.
pub fn cmd_run(args: &[String]) -> i32 {
    let text = std::fs::read_to_string(&args[0]).expect("schedule file");
    let v: Value = serde_json::from_str(&text).expect("schedule json");
    let mut out: Box<dyn Write> = match args.get(1) {
        Some(p) => Box::new(std::io::BufWriter::new(std::fs::File::create(p).unwrap())),
        None => Box::new(std::io::BufWriter::new(std::io::stdout())),
    };
    for (k, s) in v["runs"].as_array().unwrap().iter().enumerate() {
        execute_schedule(k + 1, s, &mut *out);
    }
    out.flush().unwrap();
    0
}

// ------------------------------------------------------------------ direction A: replay of the TLC export

#[derive(Clone)]
enum StepRef {
    Recv(i64, usize),
    Extra(std::rc::Rc<Value>),
}

struct Node {
    parent: u32,
    step: Option<StepRef>,
    recv: Option<DeltaReceiver>,
}

fn key_of(s: &str) -> (u64, u64) {
    let v: Value = serde_json::from_str(s).expect("state json");
    let c = vh_common::canon(&v);
    let mut h1 = DefaultHasher::new();
    c.hash(&mut h1);
    let mut h2 = DefaultHasher::new();
    (c.len() as u64, 0x5bd1e995u32).hash(&mut h2);
    c.hash(&mut h2);
    (h1.finish(), h2.finish())
}

pub fn cmd_replay(_args: &[String]) -> i32 {
    let stdin = std::io::stdin();
    let stdout = std::io::stdout();
    let mut out = std::io::BufWriter::new(stdout.lock());
    let mut transfers: Vec<Transfer> = Vec::new();
    let mut consistent = true;
    let mut maxmsgs: i64 = i64::MAX;
    let mut run: Option<Run> = None;
    let mut spec_chunks: Vec<(Value, Value)> = Vec::new();
    let mut nodes: Vec<Node> = Vec::new();
    let mut index: HashMap<(u64, u64), u32> = HashMap::new();
    let mut cur: Option<u32> = None;
    let (mut n_trans, mut n_mism, mut n_panic, mut n_chunk_mism, mut n_done) = (0u64, 0u64, 0u64, 0u64, 0u64);
    let mut printed: HashMap<String, u32> = HashMap::new();
    let mut tlc_tail: Vec<String> = Vec::new();
    let mut sample: Vec<Value> = Vec::new();

    let schedule = |nodes: &Vec<Node>, from: u32, last: Option<&StepRef>, last_m: Option<&Value>,
                    transfers: &Vec<Transfer>, consistent: bool| -> Value {
        let mut steps = Vec::new();
        let mut n = from;
        loop {
            let node = &nodes[n as usize];
            match &node.step {
                Some(StepRef::Recv(tr, j)) => steps.push(json!({"a": "recv", "tr": tr, "j": j})),
                Some(StepRef::Extra(m)) => steps.push(json!({"a": "extra", "m": (**m).clone()})),
                None => break,
            }
            n = node.parent;
        }
        steps.reverse();
        match last {
            Some(StepRef::Recv(tr, j)) => steps.push(json!({"a": "recv", "tr": tr, "j": j, "m": last_m.cloned().unwrap_or(Value::Null)})),
            Some(StepRef::Extra(m)) => steps.push(json!({"a": "extra", "m": (**m).clone()})),
            None => {}
        }
        let trs: Vec<Value> = transfers.iter().map(|t| t.to_json()).collect();
        json!({"transfers": trs, "consistent": consistent, "steps": steps})
    };

    for line in stdin.lock().lines() {
        let line = match line {
            Ok(l) => l,
            Err(_) => break,
        };
        let parts = match vh_common::parse_tlc_tuple(&line) {
            Some(p) if !p.is_empty() => p,
            _ => {
                if !line.starts_with("Parsing file") && !line.starts_with("Semantic processing") {
                    tlc_tail.push(line);
                    if tlc_tail.len() > 60 {
                        tlc_tail.remove(0);
                    }
                }
                continue;
            }
        };
        match parts[0].as_str() {
            "C" => {
                let v: Value = serde_json::from_str(&parts[1]).unwrap();
                transfers = v["transfers"].as_array().unwrap().iter().map(Transfer::from_json).collect();
                transfers.sort_by_key(|t| t.id);
                consistent = v["consistent"].as_bool().unwrap_or(true);
                if let Some(m) = v.get("maxmsgs").and_then(|m| m.as_i64()) {
                    maxmsgs = m;
                }
                run = Some(Run::new(transfers.clone(), consistent));
            }
            "K" => {
                let t: Value = serde_json::from_str(&parts[1]).unwrap();
                let cs: Value = serde_json::from_str(&parts[2]).unwrap();
                spec_chunks.push((t, cs));
            }
            "S" => {
                let k = key_of(&parts[1]);
                if nodes.is_empty() {
                    // the initial state
                    nodes.push(Node {
                        parent: 0,
                        step: None,
                        recv: Some(DeltaReceiver::new()),
                    });
                    index.insert(k, 0);
                    // compare the real chunking with the spec's, once
                    let run = run.as_ref().expect("C line before S");
                    for (t, cs) in &spec_chunks {
                        let tr = Transfer::from_json(t);
                        let real = &run.chunks[&tr.id];
                        let ok = match real {
                            Ok(ms) => {
                                let a = cs.as_array().unwrap();
                                a.len() == ms.len() && ms.iter().zip(a).all(|(m, s)| msg_fields_equal(m, s))
                                    && ms.iter().all(|m| m.data == blob(m.tr, m.hi)[m.lo..m.hi])
                            }
                            Err(_) => false,
                        };
                        if !ok {
                            n_chunk_mism += 1;
                            let realv = match real {
                                Ok(ms) => json!({"ok": true, "msgs": ms.iter().map(|m| m.to_json()).collect::<Vec<_>>()}),
                                Err(p) => json!({"ok": false, "panic": p}),
                            };
                            let sig = match real {
                                Ok(_) => "chunks:differ".to_string(),
                                Err(_) => "chunks:panic".to_string(),
                            };
                            writeln!(out, "{}", json!({"kind": "mismatch", "sig": sig, "expected": cs, "real": realv,
                                "schedule": {"transfers": [t], "consistent": true, "steps": []}})).unwrap();
                        }
                    }
                }
                cur = index.get(&k).copied();
                if cur.is_none() {
                    eprintln!("recv-replay: source state not reached before: {}", parts[1]);
                    return 3;
                }
                // earlier sources are never sources again (BFS prints each source block once)
            }
            "T" => {
                let src = cur.expect("S before T");
                let act: Value = serde_json::from_str(&parts[1]).unwrap();
                let exp: Value = serde_json::from_str(&parts[2]).unwrap();
                let run = run.as_mut().unwrap();
                let (step, m) = if act["a"] == "recv" {
                    let tr = act["tr"].as_i64().unwrap();
                    let j = act["j"].as_u64().unwrap() as usize;
                    (StepRef::Recv(tr, j), run.message(tr, j, Some(&act["m"])).unwrap())
                } else {
                    let m = OwnedMsg::from_spec(&act["m"]);
                    run.pieces.add_msg(&m);
                    (StepRef::Extra(std::rc::Rc::new(act["m"].clone())), m)
                };
                let mut r = match &nodes[src as usize].recv {
                    Some(r) => r.clone(),
                    None => {
                        eprintln!("recv-replay: source receiver already released");
                        return 3;
                    }
                };
                if n_trans % 64 == 0 {
                    vh_common::set_case(&vh_common::canon(&schedule(&nodes, src, Some(&step), Some(&act["m"]), &transfers, consistent)));
                }
                let real = feed(&mut r, &m, &run.pieces);
                n_trans += 1;
                if real["r"] == "done" {
                    n_done += 1;
                }
                if real["r"] == "panic" {
                    n_panic += 1;
                }
                let e = vh_common::canon(&norm_out(&exp));
                let g = vh_common::canon(&norm_out(&real));
                let fed_as_spec = vh_common::canon(&m.to_json()) == vh_common::canon(&act["m"]);
                if e != g || !fed_as_spec {
                    n_mism += 1;
                    let mut diff: Vec<String> = Vec::new();
                    for f in ["r", "e", "t", "b", "hd", "crc", "data", "w"] {
                        if norm_out(&exp)[f] != norm_out(&real)[f] {
                            diff.push(f.to_string());
                        }
                    }
                    if !fed_as_spec {
                        diff.push("msg".into());
                    }
                    let sig = format!("{}:{}->{}:{}:{}:{}", m.k, exp["r"].as_str().unwrap_or(""), real["r"].as_str().unwrap_or(""),
                        real["e"].as_str().unwrap_or(""), vh_common::canon(&norm_out(&real)["w"]), diff.join("+"));
                    let c = printed.entry(sig.clone()).or_insert(0);
                    *c += 1;
                    if *c <= 3 {
                        writeln!(out, "{}", json!({"kind": "mismatch", "sig": sig, "expected": exp, "real": real,
                            "schedule": schedule(&nodes, src, Some(&step), Some(&act["m"]), &transfers, consistent)})).unwrap();
                    }
                } else if sample.len() < 3 && real["r"] == "done" && act["a"] == "recv" {
                    sample.push(json!({"schedule": schedule(&nodes, src, Some(&step), None, &transfers, consistent), "real_out": real}));
                }
                let k = key_of(&parts[3]);
                if !index.contains_key(&k) {
                    let sp: Value = serde_json::from_str(&parts[3]).unwrap();
                    let leaf = sp["cnt"].as_i64().map(|c| c >= maxmsgs).unwrap_or(false);
                    let idx = nodes.len() as u32;
                    nodes.push(Node {
                        parent: src,
                        step: Some(step),
                        recv: if leaf { None } else { Some(r) },
                    });
                    index.insert(k, idx);
                }
            }
            _ => {}
        }
    }
    let sigs: Vec<Value> = printed.iter().map(|(k, v)| json!({"sig": k, "count": v})).collect();
    writeln!(out, "{}", json!({"kind": "summary", "states": nodes.len(), "transitions": n_trans, "mismatches": n_mism,
        "chunk_mismatches": n_chunk_mism, "panics": n_panic, "done": n_done, "signatures": sigs,
        "sample": sample, "tlc_tail": tlc_tail})).unwrap();
    out.flush().unwrap();
    0
}

// ------------------------------------------------------------------ direction B: random driver, real sizes

fn pick_len(rng: &mut StdRng) -> usize {
    match rng.gen_range(0..12) {
        0 => 0,
        1 => rng.gen_range(1..=900),
        2 => 900,
        3 => 901,
        4 => 900 * rng.gen_range(1..=32),
        5 => 900 * rng.gen_range(1..=31) + 1,
        6 => 900 * rng.gen_range(2..=32) - 1,
        7 => 28800,
        8 => 28799,
        _ => rng.gen_range(0..=28800),
    }
}

fn pick_ticks(rng: &mut StdRng, n: usize) -> Vec<i32> {
    // distinct ticks from one of several regions
    let mut v: Vec<i32> = Vec::new();
    let region = rng.gen_range(0..6);
    while v.len() < n {
        let t: i32 = match region {
            0 => rng.gen_range(0..40),
            1 => rng.gen_range(1_000..1_000_000),
            2 => i32::MAX - rng.gen_range(0..40),
            3 => -rng.gen_range(1..40),
            4 => i32::MIN + rng.gen_range(0..40),
            _ => rng.gen(),
        };
        if !v.contains(&t) {
            v.push(t);
        }
    }
    v
}

fn pick_base(rng: &mut StdRng, t: i32) -> i32 {
    let b: i32 = match rng.gen_range(0..6) {
        0 => -1,
        1 => t.wrapping_sub(rng.gen_range(1..100)),
        2 => t / 2,
        3 => rng.gen(),
        4 => t,
        _ => t.wrapping_sub(rng.gen_range(1..4)),
    };
    // the sender computes `tick - base` without wrapping: stay inside i32 (C12 overflow case is a model config)
    if t.checked_sub(b).is_some() {
        b
    } else if t.checked_sub(-1).is_some() {
        -1
    } else {
        t
    }
}

/// `recv-drive <seed> <runs> <out.ndjson>`
pub fn cmd_drive(args: &[String]) -> i32 {
    let seed: u64 = args[0].parse().unwrap();
    let runs: usize = args[1].parse().unwrap();
    let mut out = std::io::BufWriter::new(std::fs::File::create(&args[2]).unwrap());
    let mut rng = StdRng::seed_from_u64(seed);
    let mut id: i64 = 1;
    let (mut events, mut done, mut transfers_total, mut maxparts) = (0u64, 0u64, 0u64, 0usize);
    for run_no in 1..=runs {
        // The first three runs of every invocation are boundary runs: the part-count limits (31 parts,
        // 32 parts with a 1-byte and with a full last part) and the smallest lengths, all parts delivered
        // in shuffled order with duplicates; run 1 tick by tick, runs 2 and 3 with interleaved ticks.
        let boundary = run_no <= 3;
        let consistent = boundary || rng.gen_range(0..8) != 0;
        let mut transfers = Vec::new();
        if boundary {
            for (k, &len) in [27900usize, 27901, 28800, 0, 900, 901, 1].iter().enumerate() {
                let t = 10 * (k as i32 + 1) + run_no as i32;
                let b = if k % 2 == 0 { -1 } else { t - 3 };
                transfers.push(Transfer { id, t, b, len, crc: rng.gen() });
                id += 1;
            }
        } else {
            let ntr = rng.gen_range(1..=8);
            let ticks = pick_ticks(&mut rng, ntr);
            for &t in &ticks {
                let b = pick_base(&mut rng, t);
                transfers.push(Transfer { id, t, b, len: pick_len(&mut rng), crc: rng.gen() });
                id += 1;
            }
        }
        if !consistent {
            // a second transfer on an existing tick, with other attributes
            let k = rng.gen_range(0..transfers.len());
            let t0 = transfers[k].clone();
            transfers.push(Transfer {
                id,
                t: t0.t,
                b: if rng.gen() { t0.b } else { pick_base(&mut rng, t0.t) },
                len: pick_len(&mut rng),
                crc: if rng.gen() { t0.crc } else { rng.gen() },
            });
            id += 1;
        }
        transfers_total += transfers.len() as u64;
        let mut run = Run::new(transfers.clone(), consistent);
        run.header_events(run_no, &mut out);
        // deliveries: every message once or twice (or not at all), roughly in tick order with noise
        let mut order: Vec<i32> = transfers.iter().map(|t| t.t).collect();
        order.sort();
        let noise = if boundary { [0.0, 0.0, 0.3, 0.8][run_no] } else { [0.0, 0.6, 1.5, 4.0][rng.gen_range(0..4)] };
        let mut dels: Vec<(f64, i64, usize)> = Vec::new();
        for t in &transfers {
            let n = match &run.chunks[&t.id] {
                Ok(ms) => ms.len(),
                Err(_) => 0,
            };
            maxparts = maxparts.max(n);
            let rank = order.iter().position(|&x| x == t.t).unwrap() as f64;
            let mut js: Vec<usize> = (0..n).collect();
            js.shuffle(&mut rng);
            let lose = !boundary && rng.gen_range(0..6) == 0;
            for (pos, j) in js.into_iter().enumerate() {
                let copies = match rng.gen_range(0..10) {
                    0 if lose => 0,
                    1 | 2 => 2,
                    3 => 3,
                    _ => 1,
                };
                for c in 0..copies {
                    let key = rank + (pos as f64) / (n as f64 + 1.0) + rng.gen::<f64>() * noise + if c > 0 { rng.gen::<f64>() * 2.0 } else { 0.0 };
                    dels.push((key, t.id, j));
                }
            }
        }
        dels.sort_by(|a, b| a.0.partial_cmp(&b.0).unwrap());
        let mut r = DeltaReceiver::new();
        for (_, tr, j) in dels {
            vh_common::set_case(&format!("{{\"seed\":{},\"run\":{}}}", seed, run_no));
            let m = run.message(tr, j, None).unwrap();
            let o = feed(&mut r, &m, &run.pieces);
            if o["r"] == "done" {
                done += 1;
            }
            events += 1;
            writeln!(out, "{}", json!({"e": "recv", "tr": tr, "j": j, "m": m.to_json(), "out": o})).unwrap();
        }
    }
    out.flush().unwrap();
    println!("{}", json!({"kind": "summary", "runs": runs, "events": events, "done": done, "transfers": transfers_total, "max_parts": maxparts}));
    0
}
