//! C19 harness: executes operation sequences on the real `libtw2_buffer` API.
//!
//!   vh-buffer graph [--depth L] [--cover FILE] [--report N]
//!       stdin: TLC export of MC_Buffer (lines <<"S", state>> / <<"T", act, out, det, state'>>).
//!       Walks every path of at most L operations through the graph (plus the closes that
//!       release all views, plus `final`), executes it on the real code and compares each
//!       observed outcome with the labels of the graph's edges. Prints one JSON summary.
//!   vh-buffer run
//!       stdin: one plan per line (JSON array of act records); stdout: NDJSON events
//!       {"act":..,"out":..} (a trace for BufferTrace.tla).
//!   vh-buffer drive <seed> <runs> <maxcap> <ops>
//!       random driver (direction B); stdout: NDJSON events.
//!
//! Rust here only turns act records into API calls and projects what can be observed
//! (results, remaining(), initialized(), owner length / contents, memory) into the
//! vocabulary of Buffer.tla. A panic is an outcome {"r":"panic"}.
use arrayvec::ArrayVec;
use libtw2_buffer::{with_buffer, Buffer, BufferRef, ReadBuffer, ReadBufferRef};
use rand::rngs::StdRng;
use rand::{Rng, SeedableRng};
use serde_json::{json, Value};
use std::collections::{BTreeMap, HashMap};
use std::io::{BufRead, Write};
use std::panic::{catch_unwind, resume_unwind, AssertUnwindSafe};
use std::sync::atomic::{AtomicBool, AtomicUsize, Ordering};

// ------------------------------------------------------------------ operations

#[derive(Clone, Debug)]
enum Op {
    Setup { kind: String, cap: usize, len0: usize, mem0: Vec<u8> },
    Open { ks: Vec<usize> },
    Write { bs: Vec<u8> },
    Extend { bs: Vec<u8>, it: u8 },
    Advance { bs: Vec<u8> },
    Scribble { bs: Vec<u8> },
    Close,
    CloseInit,
    Unwind,
    Read { bs: Vec<u8>, ks: Vec<usize> },
    ReadClose { bs: Vec<u8>, claim: usize },
    OverAdvance { n: usize },
    Touch { ks: Vec<usize> },
    Final,
}

fn bytes_of(v: &Value) -> Vec<u8> {
    v.as_array().map(|a| a.iter().map(|x| x.as_u64().unwrap_or(0) as u8).collect()).unwrap_or_default()
}
fn usizes_of(v: &Value) -> Vec<usize> {
    v.as_array().map(|a| a.iter().map(|x| x.as_u64().unwrap_or(0) as usize).collect()).unwrap_or_default()
}

/// What the iterator handed to `extend` claims about its length.
const IT_NAMES: [&str; 4] = ["exact", "nohint", "under", "over"];
fn it_code(s: &str) -> u8 {
    IT_NAMES.iter().position(|x| *x == s).unwrap_or_else(|| panic!("harness: unknown iterator kind {}", s)) as u8
}
/// An iterator over bytes with a hand-written `size_hint` (claims exactly `claim` items).
struct Hinted<'a> {
    inner: std::slice::Iter<'a, u8>,
    claim: usize,
}
impl<'a> Iterator for Hinted<'a> {
    type Item = u8;
    fn next(&mut self) -> Option<u8> {
        self.inner.next().cloned()
    }
    fn size_hint(&self) -> (usize, Option<usize>) {
        (self.claim, Some(self.claim))
    }
}

fn parse_op(a: &Value) -> Op {
    match a["a"].as_str().unwrap_or("") {
        "setup" => Op::Setup {
            kind: a["kind"].as_str().unwrap_or("").to_string(),
            cap: a["cap"].as_u64().unwrap_or(0) as usize,
            len0: a["len0"].as_u64().unwrap_or(0) as usize,
            mem0: bytes_of(&a["mem0"]),
        },
        "open" => Op::Open { ks: usizes_of(&a["ks"]) },
        "write" => Op::Write { bs: bytes_of(&a["bs"]) },
        "extend" => Op::Extend { bs: bytes_of(&a["bs"]), it: it_code(a["it"].as_str().unwrap_or("exact")) },
        "advance" => Op::Advance { bs: bytes_of(&a["bs"]) },
        "scribble" => Op::Scribble { bs: bytes_of(&a["bs"]) },
        "close" => Op::Close,
        "closeinit" => Op::CloseInit,
        "unwind" => Op::Unwind,
        "read" => Op::Read { bs: bytes_of(&a["bs"]), ks: usizes_of(&a["ks"]) },
        "readclose" => Op::ReadClose { bs: bytes_of(&a["bs"]), claim: a["claim"].as_u64().unwrap_or(0) as usize },
        "overadvance" => Op::OverAdvance { n: a["n"].as_u64().unwrap_or(0) as usize },
        "touch" => Op::Touch { ks: usizes_of(&a["ks"]) },
        "final" => Op::Final,
        other => panic!("harness: unknown act {:?}", other),
    }
}

fn act_of(op: &Op) -> Value {
    match op {
        Op::Setup { kind, cap, len0, mem0 } => json!({"a":"setup","kind":kind,"cap":cap,"len0":len0,"mem0":mem0}),
        Op::Open { ks } => json!({"a":"open","ks":ks}),
        Op::Write { bs } => json!({"a":"write","bs":bs}),
        Op::Extend { bs, it } => json!({"a":"extend","bs":bs,"it":IT_NAMES[*it as usize]}),
        Op::Advance { bs } => json!({"a":"advance","bs":bs}),
        Op::Scribble { bs } => json!({"a":"scribble","bs":bs}),
        Op::Close => json!({"a":"close"}),
        Op::CloseInit => json!({"a":"closeinit"}),
        Op::Unwind => json!({"a":"unwind"}),
        Op::Read { bs, ks } => json!({"a":"read","bs":bs,"ks":ks}),
        Op::ReadClose { bs, claim } => json!({"a":"readclose","bs":bs,"claim":claim}),
        Op::OverAdvance { n } => json!({"a":"overadvance","n":n}),
        Op::Touch { ks } => json!({"a":"touch","ks":ks}),
        Op::Final => json!({"a":"final"}),
    }
}

// ------------------------------------------------------------------ op sources

struct RandCfg {
    maxcap: usize,
    ops: usize,
    maxdepth: usize,
}

enum Source {
    Plan(Vec<Op>, usize),
    Random { rng: StdRng, cfg: RandCfg, left: usize, started: bool },
}

const ARRAY_CAPS: &[usize] = &[0, 1, 2, 3, 4, 5, 6, 7, 8, 16, 32, 64, 128, 256, 512, 1024, 2048, 4096, 8192, 16384];

fn rand_len(rng: &mut StdRng, rem: usize, over: bool) -> usize {
    // lengths clustered around the interesting values: 0, small, around `rem`
    match rng.gen_range(0..10) {
        0 => 0,
        1 | 2 => rng.gen_range(0..=rem.min(4)),
        3 | 4 => rem.saturating_sub(rng.gen_range(0..3)),
        5 if over => rem + rng.gen_range(1..4),
        6 if over => rem + 1,
        _ => rng.gen_range(0..=rem),
    }
}
fn rand_bytes(rng: &mut StdRng, n: usize) -> Vec<u8> {
    (0..n).map(|_| rng.gen()).collect()
}
fn rand_chain(rng: &mut StdRng, spare: usize) -> Vec<usize> {
    let n = match rng.gen_range(0..10) {
        0..=4 => 0,
        5..=8 => 1,
        _ => 2,
    };
    (0..n)
        .map(|_| match rng.gen_range(0..6) {
            0 => 0,
            1 => spare,
            2 => spare + 1,
            3 => spare + rng.gen_range(1..100),
            _ => rng.gen_range(0..=spare),
        })
        .collect()
}

impl Source {
    /// Next operation. `view`: None at top level, Some((remaining, depth)) inside a view.
    fn next(&mut self, view: Option<(usize, usize)>, owner_spare: usize) -> Option<Op> {
        match self {
            Source::Plan(ops, i) => {
                let r = ops.get(*i).cloned();
                *i += 1;
                r
            }
            Source::Random { rng, cfg, left, started } => {
                if !*started {
                    *started = true;
                    let kind = ["vec", "arrayvec", "slice", "sliceref"][rng.gen_range(0..4)].to_string();
                    let cap = if kind == "arrayvec" {
                        let c: Vec<usize> = ARRAY_CAPS.iter().cloned().filter(|c| *c <= cfg.maxcap).collect();
                        c[rng.gen_range(0..c.len())]
                    } else if rng.gen_range(0..4) == 0 {
                        rng.gen_range(0..=cfg.maxcap.min(8))
                    } else {
                        rng.gen_range(0..=cfg.maxcap)
                    };
                    let len0 = if rng.gen_range(0..3) == 0 { 0 } else { rng.gen_range(0..=cap.min(40)) };
                    let mem0 = rand_bytes(rng, cap);
                    return Some(Op::Setup { kind, cap, len0, mem0 });
                }
                match view {
                    None => {
                        if *left == 0 {
                            return Some(Op::Final);
                        }
                        *left -= 1;
                        let ks = rand_chain(rng, owner_spare);
                        if rng.gen_range(0..12) == 0 {
                            return Some(Op::Touch { ks });
                        }
                        if rng.gen_range(0..5) == 0 {
                            let n = rand_len(rng, owner_spare, true);
                            Some(Op::Read { bs: rand_bytes(rng, n), ks })
                        } else {
                            Some(Op::Open { ks })
                        }
                    }
                    Some((rem, depth)) => {
                        if *left == 0 {
                            return Some(Op::Close);
                        }
                        *left -= 1;
                        let _ = cfg.ops;
                        Some(match rng.gen_range(0..20) {
                            0..=4 => Op::Write { bs: { let n = rand_len(rng, rem, true); rand_bytes(rng, n) } },
                            5..=7 => Op::Extend { bs: { let n = rand_len(rng, rem, true); rand_bytes(rng, n) }, it: rng.gen_range(0..4) },
                            8 | 9 => Op::Advance { bs: { let n = rand_len(rng, rem, false).min(rem); rand_bytes(rng, n) } },
                            10 => Op::Scribble { bs: { let n = rand_len(rng, rem, false).min(rem); rand_bytes(rng, n) } },
                            11..=13 if depth < cfg.maxdepth => Op::Open { ks: rand_chain(rng, rem) },
                            15 => Op::ReadClose { bs: { let n = rand_len(rng, rem, true).max(1); rand_bytes(rng, n) }, claim: 0 },
                            14 => Op::Read { bs: { let n = rand_len(rng, rem, true); rand_bytes(rng, n) }, ks: rand_chain(rng, rem) },
                            16 => Op::CloseInit,
                            17 => match rng.gen_range(0..4) {
                                0 => Op::Unwind,
                                1 => Op::OverAdvance { n: rem + 1 + rng.gen_range(0..3) },
                                2 => Op::ReadClose { bs: { let n = rng.gen_range(0..=rem.min(8)); rand_bytes(rng, n) }, claim: rem + 1 + rng.gen_range(0..3) },
                                _ => Op::Touch { ks: rand_chain(rng, rem) },
                            },
                            18 => Op::Close,
                            _ => Op::Write { bs: { let n = rng.gen_range(0..=rem.min(16)); rand_bytes(rng, n) } },
                        })
                    }
                }
            }
        }
    }
}

// ------------------------------------------------------------------ interpreter

/// What a call let the caller observe (projection into the vocabulary of Buffer.tla).
#[derive(Default)]
struct Out {
    r: &'static str,
    rem: Option<usize>,
    data: Option<Vec<u8>>,
    olen: Option<usize>,
    own: Option<Vec<u8>>,
    mem: Option<Vec<u8>>,
    msg: Option<String>,
    loc: Option<String>,
}
impl Out {
    fn ok() -> Out {
        Out { r: "ok", ..Default::default() }
    }
    fn rem(mut self, n: usize) -> Out {
        self.rem = Some(n);
        self
    }
    fn data(mut self, d: Vec<u8>) -> Out {
        self.data = Some(d);
        self
    }
    fn to_json(&self) -> Value {
        let mut m = serde_json::Map::new();
        m.insert("r".to_string(), json!(self.r));
        if let Some(x) = self.rem { m.insert("rem".to_string(), json!(x)); }
        if let Some(x) = &self.data { m.insert("data".to_string(), json!(x)); }
        if let Some(x) = self.olen { m.insert("olen".to_string(), json!(x)); }
        if let Some(x) = &self.own { m.insert("own".to_string(), json!(x)); }
        if let Some(x) = &self.mem { m.insert("mem".to_string(), json!(x)); }
        if let Some(x) = &self.msg { m.insert("msg".to_string(), json!(x)); }
        if let Some(x) = &self.loc { m.insert("loc".to_string(), json!(x)); }
        Value::Object(m)
    }
}

struct Cx {
    src: Source,
    /// lite mode (used under Miri): no JSON is built; observations are folded into `sum`
    lite: bool,
    sum: u64,
    /// a refusal (assertion) of the call in progress is the specified outcome; it unwinds like `unwind`
    refusal_expected: bool,
    events: Vec<(Value, Value)>,
    current: Option<Value>, // act whose library call is in progress (for panics)
    unwinding: Option<usize>, // index of the event of an `unwind` op in progress
}

impl Cx {
    fn new(src: Source, lite: bool) -> Cx {
        Cx { src, lite, sum: 0xcbf29ce484222325, refusal_expected: false, events: Vec::new(), current: None, unwinding: None }
    }
    fn fold_u(&mut self, x: u64) {
        self.sum = (self.sum ^ x).wrapping_mul(0x100000001b3);
    }
    fn fold_bytes(&mut self, b: &[u8]) {
        self.fold_u(b.len() as u64);
        for x in b {
            self.fold_u(*x as u64);
        }
    }
    fn act(&self, op: &Op) -> Value {
        if self.lite { Value::Null } else { act_of(op) }
    }
    fn push(&mut self, act: Value, o: Out) -> usize {
        if self.lite {
            self.fold_u(o.r.len() as u64);
            if let Some(x) = o.rem { self.fold_u(x as u64); }
            if let Some(x) = &o.data { self.fold_bytes(x); }
            if let Some(x) = o.olen { self.fold_u(x as u64); }
            if let Some(x) = &o.own { self.fold_bytes(x); }
            if let Some(x) = &o.mem { self.fold_bytes(x); }
            self.events.push((Value::Null, Value::Null));
        } else {
            self.events.push((act, o.to_json()));
        }
        self.events.len() - 1
    }
    fn patch_r(&mut self, i: usize, r: &str) {
        if self.lite { self.fold_u(r.len() as u64); } else { self.events[i].1["r"] = json!(r); }
    }
    fn patch_data(&mut self, i: usize, d: Vec<u8>) {
        if self.lite { self.fold_bytes(&d); } else { self.events[i].1["data"] = json!(d); }
    }
    fn patch_rem(&mut self, i: usize, rem: usize) {
        if self.lite { self.fold_u(rem as u64); } else { self.events[i].1["rem"] = json!(rem); }
    }
    fn patch_owner(&mut self, i: usize, olen: usize, own: Vec<u8>) {
        if self.lite {
            self.fold_u(olen as u64);
            self.fold_bytes(&own);
        } else {
            self.events[i].1["olen"] = json!(olen);
            self.events[i].1["own"] = json!(own);
        }
    }
}

struct UnwindMarker;

#[derive(Clone, Copy, PartialEq, Debug)]
enum Exit {
    Closed(usize), // index of the close event, to be completed by the parent
    EndOfPlan,
}

macro_rules! with_chain {
    ($buf:expr, $ks:expr, $f:expr) => {{
        let ks: &[usize] = $ks;
        match ks.len() {
            0 => with_buffer($buf, $f),
            1 => with_buffer($buf.cap_at(ks[0]), $f),
            2 => with_buffer($buf.cap_at(ks[0]).cap_at(ks[1]), $f),
            _ => panic!("harness: cap_at chain too long"),
        }
    }};
}
macro_rules! touch_chain {
    ($buf:expr, $ks:expr) => {{
        let ks: &[usize] = $ks;
        match ks.len() {
            0 => drop($buf.to_to_buffer_ref()),
            1 => drop($buf.cap_at(ks[0]).to_to_buffer_ref()),
            2 => drop($buf.cap_at(ks[0]).cap_at(ks[1]).to_to_buffer_ref()),
            _ => panic!("harness: cap_at chain too long"),
        }
    }};
}
/// A reader that stores what fits but reports `claim` bytes.
struct OverReader<'a> {
    data: &'a [u8],
    claim: usize,
}
impl<'a> std::io::Read for OverReader<'a> {
    fn read(&mut self, buf: &mut [u8]) -> std::io::Result<usize> {
        let n = self.data.len().min(buf.len());
        buf[..n].copy_from_slice(&self.data[..n]);
        Ok(self.claim)
    }
}
macro_rules! read_chain {
    ($rd:expr, $buf:expr, $ks:expr) => {{
        let ks: &[usize] = $ks;
        match ks.len() {
            0 => $rd.read_buffer($buf),
            1 => $rd.read_buffer($buf.cap_at(ks[0])),
            2 => $rd.read_buffer($buf.cap_at(ks[0]).cap_at(ks[1])),
            _ => panic!("harness: cap_at chain too long"),
        }
    }};
}

fn run_view<'d, 's>(mut b: BufferRef<'d, 's>, cx: &mut Cx, open_act: Value, depth: usize) -> Exit {
    cx.current = None;
    cx.push(open_act, Out::ok().rem(b.remaining()));
    loop {
        let op = match cx.src.next(Some((b.remaining(), depth)), 0) {
            Some(op) => op,
            None => return Exit::EndOfPlan,
        };
        let act = cx.act(&op);
        cx.current = Some(act.clone());
        match op {
            Op::Write { bs } => {
                let r = b.write(&bs);
                cx.push(act, Out { r: if r.is_ok() { "ok" } else { "cap" }, ..Default::default() }.rem(b.remaining()));
            }
            Op::Extend { bs, it } => {
                let r = match it {
                    0 => b.extend(bs.iter().cloned()),
                    1 => {
                        let mut i = 0;
                        b.extend(std::iter::from_fn(|| {
                            let x = bs.get(i).cloned();
                            i += 1;
                            x
                        }))
                    }
                    2 => b.extend(Hinted { inner: bs.iter(), claim: bs.len().saturating_sub(1) }),
                    _ => b.extend(Hinted { inner: bs.iter(), claim: bs.len() + 1 }),
                };
                cx.push(act, Out { r: if r.is_ok() { "ok" } else { "cap" }, ..Default::default() }.rem(b.remaining()));
            }
            Op::Advance { bs } => {
                unsafe {
                    b.uninitialized_mut()[..bs.len()].copy_from_slice(&bs);
                    b.advance(bs.len());
                }
                cx.push(act, Out::ok().rem(b.remaining()));
            }
            Op::Scribble { bs } => {
                unsafe {
                    b.uninitialized_mut()[..bs.len()].copy_from_slice(&bs);
                }
                cx.push(act, Out::ok().rem(b.remaining()));
            }
            Op::Open { ks } => {
                let e = with_chain!(&mut b, &ks, |c| run_view(c, cx, act.clone(), depth + 1));
                match e {
                    Exit::Closed(i) => {
                        cx.patch_rem(i, b.remaining());
                    }
                    Exit::EndOfPlan => return Exit::EndOfPlan,
                }
            }
            Op::Read { bs, ks } => {
                let mut rd: &[u8] = &bs;
                let data: Vec<u8> = match read_chain!(rd, &mut b, &ks) {
                    Ok(s) => s.to_vec(),
                    Err(e) => panic!("harness: read_buffer io error {:?}", e),
                };
                cx.push(act, Out::ok().data(data).rem(b.remaining()));
            }
            Op::ReadClose { bs, claim } if claim > 0 => {
                // a reader that reports more than what is left: read_buffer_ref must refuse (it asserts);
                // the refusal unwinds through every open view
                let i = cx.push(act, Out { r: "refused", ..Default::default() });
                cx.unwinding = Some(i);
                cx.refusal_expected = true;
                let mut rd = OverReader { data: &bs, claim };
                let s = match unsafe { libtw2_buffer::read_buffer_ref(&mut rd, b) } {
                    Ok(s) => s.to_vec(),
                    Err(e) => panic!("harness: read_buffer_ref io error {:?}", e),
                };
                // not refused: the view was consumed and is released as after an honest read
                cx.refusal_expected = false;
                cx.unwinding = None;
                cx.patch_r(i, "ok");
                cx.patch_data(i, s);
                cx.current = None;
                return Exit::Closed(i);
            }
            Op::ReadClose { bs, .. } => {
                // the view itself (it may already hold bytes) goes to the reader and is consumed
                let mut rd: &[u8] = &bs;
                let s = match rd.read_buffer_ref(b) {
                    Ok(s) => s.to_vec(),
                    Err(e) => panic!("harness: read_buffer_ref io error {:?}", e),
                };
                cx.push(act, Out::ok().data(s));
                cx.current = None;
                return Exit::Closed(cx.events.len() - 1);
            }
            Op::OverAdvance { n } => {
                // a count above what is left: advance must refuse (it asserts); the view is used further
                let r = catch_unwind(AssertUnwindSafe(|| unsafe { b.advance(n) }));
                let res = if r.is_err() { "refused" } else { "ok" };
                cx.push(act, Out { r: res, ..Default::default() }.rem(b.remaining()));
            }
            Op::Touch { ks } => {
                touch_chain!((&mut b), &ks);
                cx.push(act, Out::ok().rem(b.remaining()));
            }
            Op::Close => {
                cx.push(act, Out::ok().data(Vec::new()));
                cx.current = None;
                return Exit::Closed(cx.events.len() - 1);
            }
            Op::CloseInit => {
                let s = b.initialized().to_vec();
                cx.push(act, Out::ok().data(s));
                cx.current = None;
                return Exit::Closed(cx.events.len() - 1);
            }
            Op::Unwind => {
                cx.push(act, Out::ok());
                cx.unwinding = Some(cx.events.len() - 1);
                cx.current = None;
                resume_unwind(Box::new(UnwindMarker));
            }
            Op::Setup { .. } | Op::Final => panic!("harness: {:?} inside a view", act),
        }
        cx.current = None;
    }
}

trait Owner {
    fn touch(&mut self, ks: &[usize]);
    fn open(&mut self, ks: &[usize], cx: &mut Cx, act: Value) -> Exit;
    fn read(&mut self, bs: &[u8], ks: &[usize]) -> Vec<u8>;
    fn spare(&self) -> usize;
    fn olen(&self) -> usize;
    fn own(&self) -> Vec<u8>;
    fn mem(&self) -> Vec<u8>;
}

struct VecOwner {
    v: Vec<u8>,
    cap: usize,
}
impl Owner for VecOwner {
    fn touch(&mut self, ks: &[usize]) {
        touch_chain!((&mut self.v), ks);
    }
    fn open(&mut self, ks: &[usize], cx: &mut Cx, act: Value) -> Exit {
        with_chain!(&mut self.v, ks, |b| run_view(b, cx, act, 1))
    }
    fn read(&mut self, bs: &[u8], ks: &[usize]) -> Vec<u8> {
        let mut rd: &[u8] = bs;
        read_chain!(rd, &mut self.v, ks).expect("harness: io").to_vec()
    }
    fn spare(&self) -> usize {
        self.cap - self.v.len()
    }
    fn olen(&self) -> usize {
        self.v.len()
    }
    fn own(&self) -> Vec<u8> {
        self.v.clone()
    }
    fn mem(&self) -> Vec<u8> {
        // every byte of the allocation was initialized at set-up
        unsafe { std::slice::from_raw_parts(self.v.as_ptr(), self.cap).to_vec() }
    }
}

struct ArrOwner<A: arrayvec::Array<Item = u8>> {
    v: ArrayVec<A>,
}
impl<A: arrayvec::Array<Item = u8>> Owner for ArrOwner<A> {
    fn touch(&mut self, ks: &[usize]) {
        touch_chain!((&mut self.v), ks);
    }
    fn open(&mut self, ks: &[usize], cx: &mut Cx, act: Value) -> Exit {
        with_chain!(&mut self.v, ks, |b| run_view(b, cx, act, 1))
    }
    fn read(&mut self, bs: &[u8], ks: &[usize]) -> Vec<u8> {
        let mut rd: &[u8] = bs;
        read_chain!(rd, &mut self.v, ks).expect("harness: io").to_vec()
    }
    fn spare(&self) -> usize {
        self.v.capacity() - self.v.len()
    }
    fn olen(&self) -> usize {
        self.v.len()
    }
    fn own(&self) -> Vec<u8> {
        self.v.to_vec()
    }
    fn mem(&self) -> Vec<u8> {
        unsafe { std::slice::from_raw_parts(self.v.as_ptr(), self.v.capacity()).to_vec() }
    }
}

/// `&mut [u8]`: the slice `arr[len0..]` is handed out anew for every view.
struct SliceOwner {
    arr: Vec<u8>,
    len0: usize,
}
impl Owner for SliceOwner {
    fn touch(&mut self, ks: &[usize]) {
        let s: &mut [u8] = &mut self.arr[self.len0..];
        touch_chain!(s, ks);
    }
    fn open(&mut self, ks: &[usize], cx: &mut Cx, act: Value) -> Exit {
        let s: &mut [u8] = &mut self.arr[self.len0..];
        with_chain!(s, ks, |b| run_view(b, cx, act, 1))
    }
    fn read(&mut self, bs: &[u8], ks: &[usize]) -> Vec<u8> {
        let mut rd: &[u8] = bs;
        let s: &mut [u8] = &mut self.arr[self.len0..];
        read_chain!(rd, s, ks).expect("harness: io").to_vec()
    }
    fn spare(&self) -> usize {
        self.arr.len() - self.len0
    }
    fn olen(&self) -> usize {
        self.arr.len() - self.len0
    }
    fn own(&self) -> Vec<u8> {
        Vec::new()
    }
    fn mem(&self) -> Vec<u8> {
        self.arr.clone()
    }
}

/// `&mut &mut [u8]`: the referenced slice is narrowed to the initialized part when the
/// view is released. `Buffer` is implemented for `&'d mut &'d mut [u8]`, which borrows
/// the slice reference for its whole lifetime; to look at it afterwards (and to open
/// another view) the harness goes through a raw pointer.
struct SliceRefOwner {
    base: *mut u8,
    cap: usize,
    cur: *mut [u8], // the current `&mut [u8]` as a raw slice pointer
    raw: *mut [u8], // the allocation (a leaked Box<[u8]>, freed in Drop)
}
impl Drop for SliceRefOwner {
    fn drop(&mut self) {
        unsafe { drop(Box::from_raw(self.raw)) }
    }
}
impl SliceRefOwner {
    fn new(mem0: &[u8], len0: usize) -> SliceRefOwner {
        let arr: Box<[u8]> = mem0.to_vec().into_boxed_slice();
        let cap = arr.len();
        let raw: *mut [u8] = Box::into_raw(arr);
        let base = raw as *mut u8;
        let cur = std::ptr::slice_from_raw_parts_mut(unsafe { base.add(len0) }, cap - len0);
        SliceRefOwner { base, cap, cur, raw }
    }
}
impl Owner for SliceRefOwner {
    fn touch(&mut self, ks: &[usize]) {
        let mut s: &mut [u8] = unsafe { &mut *self.cur };
        let p: *mut &mut [u8] = &mut s;
        touch_chain!((unsafe { &mut *p }), ks);
        self.cur = unsafe { &mut **p as *mut [u8] };
    }
    fn open(&mut self, ks: &[usize], cx: &mut Cx, act: Value) -> Exit {
        let mut s: &mut [u8] = unsafe { &mut *self.cur };
        let p: *mut &mut [u8] = &mut s;
        // the narrowing in Drop must be seen even when the closure unwinds
        struct Save<'a>(*mut &'a mut [u8], *mut *mut [u8]);
        impl<'a> Drop for Save<'a> {
            fn drop(&mut self) {
                unsafe { *self.1 = &mut **self.0 as *mut [u8] }
            }
        }
        let _save = Save(p, &mut self.cur);
        with_chain!(unsafe { &mut *p }, ks, |b| run_view(b, cx, act, 1))
    }
    fn read(&mut self, bs: &[u8], ks: &[usize]) -> Vec<u8> {
        let mut rd: &[u8] = bs;
        let mut s: &mut [u8] = unsafe { &mut *self.cur };
        let p: *mut &mut [u8] = &mut s;
        let r = read_chain!(rd, unsafe { &mut *p }, ks).expect("harness: io").to_vec();
        self.cur = unsafe { &mut **p as *mut [u8] };
        r
    }
    fn spare(&self) -> usize {
        unsafe { (&*self.cur).len() }
    }
    fn olen(&self) -> usize {
        unsafe { (&*self.cur).len() }
    }
    fn own(&self) -> Vec<u8> {
        unsafe { (&*self.cur).to_vec() }
    }
    fn mem(&self) -> Vec<u8> {
        unsafe { std::slice::from_raw_parts(self.base, self.cap).to_vec() }
    }
}

thread_local! {
    static PANIC_LOC: std::cell::RefCell<String> = std::cell::RefCell::new(String::new());
}
/// silent panic hook that remembers the location per thread
fn install_panic_hook() {
    std::panic::set_hook(Box::new(|info| {
        let loc = info.location().map(|l| format!("{}:{}", l.file(), l.line())).unwrap_or_default();
        PANIC_LOC.with(|c| *c.borrow_mut() = loc);
    }));
}
fn last_panic_location() -> String {
    PANIC_LOC.with(|c| c.borrow().clone())
}

fn panic_text(p: &Box<dyn std::any::Any + Send>) -> String {
    if let Some(s) = p.downcast_ref::<&str>() {
        s.to_string()
    } else if let Some(s) = p.downcast_ref::<String>() {
        s.clone()
    } else {
        "panic".to_string()
    }
}

/// Top-level loop of one run (after set-up). Returns false when the run ended in a panic
/// of the library.
fn top_loop(cx: &mut Cx, owner: &mut dyn Owner) -> bool {
    loop {
        let op = match cx.src.next(None, owner.spare()) {
            Some(op) => op,
            None => return true,
        };
        let act = cx.act(&op);
        match op {
            Op::Open { ks } => {
                cx.current = Some(act.clone());
                cx.unwinding = None;
                let r = catch_unwind(AssertUnwindSafe(|| owner.open(&ks, cx, act.clone())));
                match r {
                    Ok(Exit::Closed(i)) => {
                        cx.patch_owner(i, owner.olen(), owner.own());
                    }
                    Ok(Exit::EndOfPlan) => return true,
                    Err(p) => {
                        if p.downcast_ref::<UnwindMarker>().is_some() || cx.refusal_expected {
                            cx.refusal_expected = false;
                            let i = cx.unwinding.take().expect("harness: unwind without event");
                            cx.patch_owner(i, owner.olen(), owner.own());
                        } else {
                            let a = cx.current.take().unwrap_or(act);
                            cx.push(a, Out { r: "panic", msg: Some(panic_text(&p)), loc: Some(last_panic_location()), ..Default::default() });
                            return false;
                        }
                    }
                }
            }
            Op::Read { bs, ks } => {
                cx.current = Some(act.clone());
                let r = catch_unwind(AssertUnwindSafe(|| owner.read(&bs, &ks)));
                match r {
                    Ok(data) => {
                        let o = Out { r: "ok", data: Some(data), olen: Some(owner.olen()), own: Some(owner.own()), ..Default::default() };
                        cx.push(act, o);
                    }
                    Err(p) => {
                        cx.push(act, Out { r: "panic", msg: Some(panic_text(&p)), loc: Some(last_panic_location()), ..Default::default() });
                        return false;
                    }
                }
            }
            Op::Touch { ks } => {
                cx.current = Some(act.clone());
                match catch_unwind(AssertUnwindSafe(|| owner.touch(&ks))) {
                    Ok(()) => {
                        let o = Out { r: "ok", olen: Some(owner.olen()), own: Some(owner.own()), ..Default::default() };
                        cx.push(act, o);
                    }
                    Err(p) => {
                        cx.push(act, Out { r: "panic", msg: Some(panic_text(&p)), loc: Some(last_panic_location()), ..Default::default() });
                        return false;
                    }
                }
            }
            Op::Final => {
                cx.push(act, Out { r: "ok", mem: Some(owner.mem()), ..Default::default() });
                return true;
            }
            other => panic!("harness: {:?} at top level", other),
        }
    }
}

macro_rules! arr_owner {
    ($cx:expr, $mem0:expr, $len0:expr, $cap:expr, $($n:literal)*) => {
        match $cap {
            $( $n => {
                let mut a = [0u8; $n];
                a.copy_from_slice(&$mem0);
                let mut v = ArrayVec::from(a);
                v.truncate($len0);
                top_loop($cx, &mut ArrOwner { v })
            } )*
            _ => panic!("harness: unsupported ArrayVec capacity {}", $cap),
        }
    };
}

/// Executes one run: setup ... final. Returns false when no more runs (plan exhausted).
fn exec_run(cx: &mut Cx) -> bool {
    let op = match cx.src.next(None, 0) {
        Some(op) => op,
        None => return false,
    };
    let act = cx.act(&op);
    let (kind, cap, len0, mem0) = match op {
        Op::Setup { kind, cap, len0, mem0 } => (kind, cap, len0, mem0),
        other => panic!("harness: run must start with setup, got {:?}", other),
    };
    assert!(mem0.len() == cap && len0 <= cap, "harness: bad setup");
    cx.push(act, Out::ok());
    match kind.as_str() {
        "vec" => {
            let mut v = mem0.clone();
            v.shrink_to_fit();
            assert!(v.capacity() == cap, "harness: Vec capacity {} != {}", v.capacity(), cap);
            v.truncate(len0);
            top_loop(cx, &mut VecOwner { v, cap });
        }
        "arrayvec" => {
            arr_owner!(cx, mem0, len0, cap, 0 1 2 3 4 5 6 7 8 16 32 64 128 256 512 1024 2048 4096 8192 16384);
        }
        "slice" => {
            top_loop(cx, &mut SliceOwner { arr: mem0.clone(), len0 });
        }
        "sliceref" => {
            top_loop(cx, &mut SliceRefOwner::new(&mem0, len0));
        }
        other => panic!("harness: unknown kind {}", other),
    }
    true
}

fn exec_plan(plan: Vec<Op>) -> Vec<(Value, Value)> {
    let mut cx = Cx::new(Source::Plan(plan, 0), false);
    exec_run(&mut cx);
    cx.events
}

// ------------------------------------------------------------------ graph walk (direction A)

struct Edge {
    act: Value,
    label: String,
    out: Value,
    det: bool,
    to: usize,
}

struct Graph {
    ids: HashMap<String, usize>,
    phase: Vec<u8>, // 0 idle, 1 closed, 2 open, 3 final
    kind: Vec<String>,
    edges: Vec<Vec<Edge>>,
}

impl Graph {
    fn node(&mut self, st: &Value) -> usize {
        let key = vh_common::canon(st);
        if let Some(i) = self.ids.get(&key) {
            return *i;
        }
        let i = self.edges.len();
        self.ids.insert(key, i);
        self.phase.push(match st["phase"].as_str().unwrap_or("") {
            "idle" => 0,
            "closed" => 1,
            "open" => 2,
            _ => 3,
        });
        self.kind.push(st["kind"].as_str().unwrap_or("").to_string());
        self.edges.push(Vec::new());
        i
    }
}

/// observed outcome `obs` agrees with the edge's `out` (a spec memory cell -1 is unspecified)
fn out_matches(spec: &Value, obs: &Value) -> bool {
    let (s, o) = match (spec.as_object(), obs.as_object()) {
        (Some(s), Some(o)) => (s, o),
        _ => return false,
    };
    if s.len() != o.len() {
        return false;
    }
    for (k, sv) in s {
        let ov = match o.get(k) {
            Some(v) => v,
            None => return false,
        };
        if k == "mem" {
            let (sa, oa) = match (sv.as_array(), ov.as_array()) {
                (Some(a), Some(b)) => (a, b),
                _ => return false,
            };
            if sa.len() != oa.len() {
                return false;
            }
            for (x, y) in sa.iter().zip(oa) {
                if x.as_i64() != Some(-1) && x != y {
                    return false;
                }
            }
        } else if sv != ov {
            return false;
        }
    }
    true
}

fn first_diff(spec: &Value, obs: &Value) -> String {
    if let (Some(s), Some(o)) = (spec.as_object(), obs.as_object()) {
        for (k, sv) in s {
            if o.get(k) != Some(sv) {
                return k.clone();
            }
        }
        for k in o.keys() {
            if !s.contains_key(k) {
                return k.clone();
            }
        }
    }
    "?".to_string()
}

struct Walk<'g> {
    g: &'g Graph,
    depth: usize,
    paths: u64,
    steps: u64,
    covered: &'g Vec<Vec<AtomicBool>>,
    covered_n: u64,
    mismatch_count: u64,
    mismatch_keys: BTreeMap<String, u64>,
    mismatches: Vec<Value>,
    drift_count: u64,
    drift_keys: BTreeMap<String, u64>,
    drifts: Vec<Value>,
    samples: Vec<Value>,
    report: usize,
    want_cover: bool,
    /// crash journal: the plan about to be executed is written here first (single-threaded runs)
    journal: Option<std::fs::File>,
    cover_out: Vec<String>,
    cover_plans: u64,
    maximal: u64,
    nontrivial: u64,
}

impl<'g> Walk<'g> {
    /// complete `path` (edge indices from the idle node) with closes and `final`, run it, compare
    fn run_path(&mut self, path: &[(usize, usize)], end: usize, leaf: bool) {
        let g = self.g;
        let mut full: Vec<(usize, usize)> = path.to_vec();
        let mut n = end;
        loop {
            match g.phase[n] {
                2 => {
                    let j = g.edges[n].iter().position(|e| e.det && e.act["a"] == "close").expect("close edge");
                    full.push((n, j));
                    n = g.edges[n][j].to;
                }
                1 => {
                    let j = g.edges[n].iter().position(|e| e.act["a"] == "final").expect("final edge");
                    full.push((n, j));
                    break;
                }
                _ => break,
            }
        }
        let plan: Vec<Op> = full.iter().map(|(s, j)| parse_op(&g.edges[*s][*j].act)).collect();
        let plan_json: Vec<Value> = full.iter().map(|(s, j)| g.edges[*s][*j].act.clone()).collect();
        if let Some(f) = self.journal.as_mut() {
            use std::io::{Seek, SeekFrom};
            let line = Value::Array(plan_json.clone()).to_string();
            let _ = f.seek(SeekFrom::Start(0));
            let _ = f.set_len(0);
            let _ = f.write_all(line.as_bytes());
            let _ = f.flush();
        }
        let events = exec_plan(plan);
        self.paths += 1;
        self.steps += events.len() as u64;
        if plan_json.iter().any(|a| a.get("bs").and_then(|b| b.as_array()).map(|b| !b.is_empty()).unwrap_or(false)) {
            self.nontrivial += 1;
        }
        if leaf {
            self.maximal += 1;
        }
        // cover bookkeeping
        {
            let mut new = false;
            for (s, j) in &full {
                if !self.covered[*s][*j].swap(true, Ordering::Relaxed) {
                    self.covered_n += 1;
                    new = true;
                }
            }
            if new && self.want_cover {
                self.cover_out.push(Value::Array(plan_json.clone()).to_string());
                self.cover_plans += 1;
            }
        }
        if self.samples.len() < 3 && full.len() >= 5 && (self.paths % 97 == 1) {
            self.samples.push(json!({"plan": plan_json, "observed": events.iter().map(|e| e.1.clone()).collect::<Vec<_>>()}));
        }
        // compare
        let mut cur = full[0].0;
        let mut drifted = false;
        for (i, (s, j)) in full.iter().enumerate() {
            let want = &g.edges[*s][*j];
            let obs = match events.get(i) {
                Some(e) => &e.1,
                None => {
                    self.mismatch("missing", i, want, &Value::Null, &plan_json, &g.kind[full[1.min(full.len() - 1)].0]);
                    return;
                }
            };
            // candidate edges from the current spec state with this act
            let cands: Vec<&Edge> = g.edges[cur].iter().filter(|e| e.label == want.label).collect();
            if cands.is_empty() {
                debug_assert!(drifted);
                return; // plan no longer applicable after a drift
            }
            match cands.iter().find(|e| out_matches(&e.out, obs)) {
                Some(e) => {
                    if !e.det {
                        drifted = true;
                        self.drift_count += 1;
                        let key = format!("{}:{}", e.act["a"].as_str().unwrap_or(""), obs["r"].as_str().unwrap_or(""));
                        let c = self.drift_keys.entry(key.clone()).or_insert(0);
                        *c += 1;
                        if *c <= 2 {
                            let det = cands.iter().find(|e| e.det).map(|e| e.out.clone()).unwrap_or(Value::Null);
                            self.drifts.push(json!({"key": key, "plan": plan_json, "step": i, "detailed": det, "observed": obs}));
                        }
                    }
                    cur = e.to;
                }
                None => {
                    let det = cands.iter().find(|e| e.det).unwrap_or(&cands[0]);
                    let kind = g.kind[det.to].clone();
                    self.mismatch("deviates", i, det, obs, &plan_json, &kind);
                    return;
                }
            }
        }
    }

    fn mismatch(&mut self, what: &str, step: usize, want: &Edge, obs: &Value, plan: &[Value], kind: &str) {
        self.mismatch_count += 1;
        let a = want.act["a"].as_str().unwrap_or("");
        let r = obs["r"].as_str().unwrap_or(what);
        let detail = if r == "panic" {
            let mut d = format!("at={}", obs["loc"].as_str().unwrap_or(""));
            if want.act.get("ks").is_some() {
                // is one of the cap_at arguments larger than what is there?
                let rem = want.out.get("rem").and_then(|x| x.as_u64());
                let ks = usizes_of(&want.act["ks"]);
                let beyond = match rem {
                    Some(rem) => ks.iter().any(|k| (*k as u64) > rem),
                    None => !ks.is_empty(),
                };
                d = format!("{}:{}", if beyond { "cap_at-beyond-capacity" } else if ks.is_empty() { "nocap" } else { "cap_at-within" }, d);
            }
            d
        } else {
            format!("field={}", first_diff(&want.out, obs))
        };
        let key = format!("{}:{}:{}:{}", r, a, kind, detail);
        let c = self.mismatch_keys.entry(key.clone()).or_insert(0);
        *c += 1;
        let rec = json!({"key": key, "plan": plan, "step": step, "act": want.act, "expected": want.out, "observed": obs});
        match self.mismatches.iter_mut().find(|m| m["key"] == key.as_str()) {
            Some(m) => {
                if m["plan"].as_array().map(|p| p.len()).unwrap_or(0) > plan.len() {
                    *m = rec;
                }
            }
            None => {
                if self.mismatches.len() < self.report {
                    self.mismatches.push(rec);
                }
            }
        }
    }

    fn dfs(&mut self, node: usize, d: usize, path: &mut Vec<(usize, usize)>) {
        let g = self.g;
        let ph = g.phase[node];
        // extensions: detailed edges other than final
        let ext: Vec<usize> = if d < self.depth || ph == 0 {
            (0..g.edges[node].len()).filter(|j| g.edges[node][*j].det && g.edges[node][*j].act["a"] != "final").collect()
        } else {
            Vec::new()
        };
        let leaf = ext.is_empty();
        for j in ext {
            let e = &g.edges[node][j];
            path.push((node, j));
            let nd = if ph == 0 { 0 } else { d + 1 };
            self.dfs(e.to, nd, path);
            path.pop();
        }
        // post-order: maximal paths first, so that the cover set prefers them
        if ph != 0 {
            self.run_path(path, node, leaf);
        }
    }
}

fn cmd_graph(args: &[String]) {
    let mut depth = 4usize;
    let mut report = 40usize;
    let mut cover: Option<String> = None;
    let mut threads = 1usize;
    let mut max_paths = u64::MAX;
    let mut count_only = false;
    let mut journal: Option<String> = None;
    let mut i = 0;
    while i < args.len() {
        match args[i].as_str() {
            "--depth" => { depth = args[i + 1].parse().unwrap(); i += 1; }
            "--report" => { report = args[i + 1].parse().unwrap(); i += 1; }
            "--cover" => { cover = Some(args[i + 1].clone()); i += 1; }
            "--threads" => { threads = args[i + 1].parse().unwrap(); i += 1; }
            "--max-paths" => { max_paths = args[i + 1].parse().unwrap(); i += 1; }
            "--count" => { count_only = true; }
            "--journal" => { journal = Some(args[i + 1].clone()); i += 1; }
            _ => {}
        }
        i += 1;
    }
    let mut g = Graph { ids: HashMap::new(), phase: Vec::new(), kind: Vec::new(), edges: Vec::new() };
    let stdin = std::io::stdin();
    let mut cur: Option<usize> = None;
    let mut nedges = 0u64;
    let mut tlc_tail: Vec<String> = Vec::new();
    for line in stdin.lock().lines() {
        let line = match line { Ok(l) => l, Err(_) => break };
        if !line.starts_with("<<") {
            if !line.trim().is_empty() {
                tlc_tail.push(line);
                if tlc_tail.len() > 60 { tlc_tail.remove(0); }
            }
            continue;
        }
        let t = match vh_common::parse_tlc_tuple(&line) { Some(t) => t, None => continue };
        if t[0] == "S" && t.len() == 2 {
            let st: Value = serde_json::from_str(&t[1]).expect("state json");
            cur = Some(g.node(&st));
        } else if t[0] == "T" && t.len() == 5 {
            let act: Value = serde_json::from_str(&t[1]).expect("act json");
            let out: Value = serde_json::from_str(&t[2]).expect("out json");
            let det = t[3].trim() == "true";
            let st: Value = serde_json::from_str(&t[4]).expect("state json");
            let to = g.node(&st);
            let from = cur.expect("T before S");
            let label = vh_common::canon(&act);
            g.edges[from].push(Edge { act, label, out, det, to });
            nedges += 1;
        }
    }
    let idle = (0..g.edges.len()).find(|i| g.phase[*i] == 0);
    let mut summary = json!({"states": g.edges.len(), "edges": nedges, "tlc_tail": tlc_tail});
    if let Some(idle) = idle {
        let covered: Vec<Vec<AtomicBool>> = g.edges.iter().map(|e| e.iter().map(|_| AtomicBool::new(false)).collect()).collect();
        let det_edges: u64 = g.edges.iter().map(|e| e.iter().filter(|x| x.det).count() as u64).sum();
        // number of paths the walk will execute (one per path prefix)
        let mut memo: HashMap<(usize, usize), u64> = HashMap::new();
        fn count(g: &Graph, node: usize, d: usize, depth: usize, memo: &mut HashMap<(usize, usize), u64>) -> u64 {
            if let Some(c) = memo.get(&(node, d)) {
                return *c;
            }
            let ph = g.phase[node];
            let mut c: u64 = if ph != 0 { 1 } else { 0 };
            if d < depth || ph == 0 {
                for e in g.edges[node].iter().filter(|e| e.det && e.act["a"] != "final") {
                    c = c.saturating_add(count(g, e.to, if ph == 0 { 0 } else { d + 1 }, depth, memo));
                }
            }
            memo.insert((node, d), c);
            c
        }
        let planned = count(&g, idle, 0, depth, &mut memo);
        summary["planned_paths"] = json!(planned);
        summary["depth"] = json!(depth);
        summary["det_edges"] = json!(det_edges);
        if count_only || planned > max_paths {
            if planned > max_paths {
                summary["error"] = json!(format!("{} paths planned, more than --max-paths {}", planned, max_paths));
            }
            println!("{}", summary);
            return;
        }
        // tasks: (setup edge, first operation edge or none)
        let mut tasks: Vec<Vec<(usize, usize)>> = Vec::new();
        for (j, e) in g.edges[idle].iter().enumerate() {
            if !e.det {
                continue;
            }
            tasks.push(vec![(idle, j)]); // the run with no operation at all
            for (k, e2) in g.edges[e.to].iter().enumerate() {
                if e2.det && e2.act["a"] != "final" && depth >= 1 {
                    tasks.push(vec![(idle, j), (e.to, k)]);
                }
            }
        }
        let next = AtomicUsize::new(0);
        let want_cover = cover.is_some();
        if journal.is_some() {
            threads = 1;
        }
        let jref = &journal;
        let gref = &g;
        let cref = &covered;
        let tref = &tasks;
        let nref = &next;
        let mut walks: Vec<Walk> = Vec::new();
        std::thread::scope(|sc| {
            let hs: Vec<_> = (0..threads.max(1))
                .map(|_| {
                    sc.spawn(move || {
                        let mut w = Walk {
                            g: gref, depth, paths: 0, steps: 0, covered: cref, covered_n: 0, mismatch_count: 0,
                            mismatch_keys: BTreeMap::new(), mismatches: Vec::new(), drift_count: 0, drift_keys: BTreeMap::new(),
                            drifts: Vec::new(), samples: Vec::new(), report, want_cover,
                            journal: jref.as_ref().map(|p| std::fs::File::create(p).expect("journal file")),
                            cover_out: Vec::new(), cover_plans: 0,
                            maximal: 0, nontrivial: 0,
                        };
                        loop {
                            let t = nref.fetch_add(1, Ordering::Relaxed);
                            if t >= tref.len() {
                                break;
                            }
                            let mut path = tref[t].clone();
                            let (n, j) = *path.last().unwrap();
                            let end = gref.edges[n][j].to;
                            if path.len() == 1 {
                                w.run_path(&path, end, depth == 0);
                            } else {
                                w.dfs(end, 1, &mut path);
                            }
                        }
                        w
                    })
                })
                .collect();
            for h in hs {
                walks.push(h.join().expect("walker thread"));
            }
        });
        let mut paths = 0u64; let mut maximal = 0u64; let mut nontrivial = 0u64; let mut steps = 0u64;
        let mut covered_n = 0u64; let mut cover_plans = 0u64; let mut mismatch_count = 0u64; let mut drift_count = 0u64;
        let mut mismatch_keys: BTreeMap<String, u64> = BTreeMap::new();
        let mut drift_keys: BTreeMap<String, u64> = BTreeMap::new();
        let mut mismatches: Vec<Value> = Vec::new();
        let mut drifts: Vec<Value> = Vec::new();
        let mut samples: Vec<Value> = Vec::new();
        let mut cover_file = cover.as_ref().map(|p| std::io::BufWriter::new(std::fs::File::create(p).expect("cover file")));
        for w in walks {
            paths += w.paths; maximal += w.maximal; nontrivial += w.nontrivial; steps += w.steps;
            covered_n += w.covered_n; cover_plans += w.cover_plans; mismatch_count += w.mismatch_count; drift_count += w.drift_count;
            for (k, v) in w.mismatch_keys { *mismatch_keys.entry(k).or_insert(0) += v; }
            for (k, v) in w.drift_keys { *drift_keys.entry(k).or_insert(0) += v; }
            for m in w.mismatches {
                match mismatches.iter_mut().find(|x| x["key"] == m["key"]) {
                    Some(x) => {
                        if x["plan"].as_array().map(|p| p.len()).unwrap_or(0) > m["plan"].as_array().map(|p| p.len()).unwrap_or(0) {
                            *x = m;
                        }
                    }
                    None => mismatches.push(m),
                }
            }
            for d in w.drifts { if drifts.len() < 6 { drifts.push(d); } }
            for x in w.samples { if samples.len() < 3 { samples.push(x); } }
            if let Some(f) = cover_file.as_mut() {
                for l in w.cover_out { let _ = writeln!(f, "{}", l); }
            }
        }
        if let Some(mut f) = cover_file.take() { let _ = f.flush(); }
        mismatches.truncate(report);
        summary["paths"] = json!(paths);
        summary["maximal_paths"] = json!(maximal);
        summary["nontrivial_paths"] = json!(nontrivial);
        summary["steps"] = json!(steps);
        summary["edges_covered"] = json!(covered_n);
        summary["cover_plans"] = json!(cover_plans);
        summary["mismatch_count"] = json!(mismatch_count);
        summary["mismatch_keys"] = json!(mismatch_keys);
        summary["mismatches"] = json!(mismatches);
        summary["drift_count"] = json!(drift_count);
        summary["drift_keys"] = json!(drift_keys);
        summary["drifts"] = json!(drifts);
        summary["samples"] = json!(samples);
    } else {
        summary["error"] = json!("no idle state in the export");
    }
    println!("{}", summary);
}

/// JSON text of a value without serde_json's number formatting (the `itoa` 0.4 it pulls in
/// reads uninitialized memory, which stops Miri before the library under test is reached).
fn js(v: &Value, out: &mut String) {
    match v {
        Value::Null => out.push_str("null"),
        Value::Bool(b) => out.push_str(if *b { "true" } else { "false" }),
        Value::Number(n) => {
            if let Some(i) = n.as_i64() {
                out.push_str(&format!("{}", i));
            } else if let Some(u) = n.as_u64() {
                out.push_str(&format!("{}", u));
            } else {
                out.push_str(&format!("{}", n.as_f64().unwrap_or(0.0)));
            }
        }
        Value::String(s) => {
            out.push('"');
            for c in s.chars() {
                match c {
                    '"' => out.push_str("\\\""),
                    '\\' => out.push_str("\\\\"),
                    '\n' => out.push_str("\\n"),
                    c if (c as u32) < 0x20 => out.push_str(&format!("\\u{:04x}", c as u32)),
                    c => out.push(c),
                }
            }
            out.push('"');
        }
        Value::Array(a) => {
            out.push('[');
            for (i, x) in a.iter().enumerate() {
                if i > 0 {
                    out.push(',');
                }
                js(x, out);
            }
            out.push(']');
        }
        Value::Object(m) => {
            out.push('{');
            for (i, (k, x)) in m.iter().enumerate() {
                if i > 0 {
                    out.push(',');
                }
                js(&Value::String(k.clone()), out);
                out.push(':');
                js(x, out);
            }
            out.push('}');
        }
    }
}

fn print_events(events: &[(Value, Value)]) {
    let out = std::io::stdout();
    let mut out = out.lock();
    for (a, o) in events {
        let mut s = String::new();
        s.push_str("{\"act\":");
        js(a, &mut s);
        s.push_str(",\"out\":");
        js(o, &mut s);
        s.push('}');
        let _ = writeln!(out, "{}", s);
    }
}

fn cmd_run() {
    let stdin = std::io::stdin();
    for line in stdin.lock().lines() {
        let line = match line { Ok(l) => l, Err(_) => break };
        if line.trim().is_empty() { continue; }
        let v: Value = serde_json::from_str(&line).expect("plan json");
        let plan: Vec<Op> = v.as_array().expect("plan array").iter().map(parse_op).collect();
        let events = exec_plan(plan);
        print_events(&events);
    }
}

fn cmd_drive(args: &[String]) {
    let seed: u64 = args[0].parse().unwrap();
    let runs: usize = args[1].parse().unwrap();
    let maxcap: usize = args[2].parse().unwrap();
    let ops: usize = args[3].parse().unwrap();
    for r in 0..runs {
        let rng = StdRng::seed_from_u64(seed.wrapping_mul(1_000_003).wrapping_add(r as u64));
        let mut cx = Cx::new(Source::Random { rng, cfg: RandCfg { maxcap, ops, maxdepth: 3 }, left: ops, started: false }, false);
        exec_run(&mut cx);
        print_events(&cx.events);
    }
}

/// Compact plans for the Miri run (no JSON inside the interpreter): one plan per line, operations
/// separated by ';', numbers by blanks:
///   S <kind> <cap> <len0> <mem0...> ; O <ks...> ; W <bs...> ; E <iterator kind 0..3> <bs...> ; A <bs...> ; X <bs...> ;
///   R <n> <bs (n bytes)...> <ks...> ; Q <claim> <bs...> ; V <n> ; T <ks...> ; C ; I ; U ; F
fn parse_compact(line: &str) -> Vec<Op> {
    let mut ops = Vec::new();
    for part in line.split(';') {
        let mut it = part.split_whitespace();
        let code = match it.next() {
            Some(c) => c,
            None => continue,
        };
        let nums: Vec<usize> = if code == "S" {
            Vec::new()
        } else {
            it.clone().map(|x| x.parse().expect("number")).collect()
        };
        let bytes = |v: &[usize]| -> Vec<u8> { v.iter().map(|x| *x as u8).collect() };
        ops.push(match code {
            "S" => {
                let kind = it.next().expect("kind").to_string();
                let v: Vec<usize> = it.map(|x| x.parse().expect("number")).collect();
                Op::Setup { kind, cap: v[0], len0: v[1], mem0: bytes(&v[2..]) }
            }
            "O" => Op::Open { ks: nums },
            "W" => Op::Write { bs: bytes(&nums) },
            "E" => Op::Extend { bs: bytes(&nums[1..]), it: nums[0] as u8 },
            "A" => Op::Advance { bs: bytes(&nums) },
            "X" => Op::Scribble { bs: bytes(&nums) },
            "R" => {
                let n = nums[0];
                Op::Read { bs: bytes(&nums[1..1 + n]), ks: nums[1 + n..].to_vec() }
            }
            "Q" => Op::ReadClose { bs: bytes(&nums[1..]), claim: nums[0] },
            "V" => Op::OverAdvance { n: nums[0] },
            "T" => Op::Touch { ks: nums },
            "C" => Op::Close,
            "I" => Op::CloseInit,
            "U" => Op::Unwind,
            "F" => Op::Final,
            other => panic!("harness: unknown compact op {}", other),
        });
    }
    ops
}

/// `run-lite`: executes compact plans from stdin without building JSON; prints the number of plans,
/// the number of library panics and a checksum of everything observed.
fn cmd_run_lite() {
    let stdin = std::io::stdin();
    let mut plans = 0u64;
    let mut sum = 0u64;
    let mut events = 0u64;
    for line in stdin.lock().lines() {
        let line = match line { Ok(l) => l, Err(_) => break };
        if line.trim().is_empty() { continue; }
        let mut cx = Cx::new(Source::Plan(parse_compact(&line), 0), true);
        exec_run(&mut cx);
        plans += 1;
        events += cx.events.len() as u64;
        sum = sum.rotate_left(7) ^ cx.sum;
    }
    println!("LITE plans={} events={} sum={:016x}", plans, events, sum);
}

fn main() {
    install_panic_hook();
    let args: Vec<String> = std::env::args().collect();
    match args.get(1).map(|s| s.as_str()) {
        Some("graph") => cmd_graph(&args[2..]),
        Some("run") => cmd_run(),
        Some("run-lite") => cmd_run_lite(),
        Some("drive") => cmd_drive(&args[2..]),
        _ => {
            eprintln!("usage: vh-buffer graph|run|drive ...");
            std::process::exit(2);
        }
    }
}
